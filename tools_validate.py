#!/usr/bin/env python3
# validate MANIFEST.json and evidence/*.json against the schemas (run with python3-vt)
import json, jsonschema, glob, sys
ok = True
def v(p, s):
    global ok
    try:
        jsonschema.validate(json.load(open(p)), json.load(open(s)))
    except Exception as e:
        ok = False
        print("INVALID", p, str(e)[:300])
v('MANIFEST.json', '/root/.vp/MANIFEST.schema.json')
for f in sorted(glob.glob('evidence/*.json')):
    v(f, '/root/.vp/EVIDENCE.schema.json')
print("all valid" if ok else "FAILED")
sys.exit(0 if ok else 1)
