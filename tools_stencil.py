#!/usr/bin/env python3
# debugging aid (not part of any check): print analytic value vs stencil for a case/contribution/bag/direction
import json, sys
trace, case, who, bag, d = sys.argv[1], sys.argv[2], sys.argv[3], json.loads(sys.argv[4]), int(sys.argv[5])
def jval(j, b):
    if len(b) == 0: return float(j["A"])
    if len(b) == 1: return float(j["F"][b[0]-1])
    if len(b) == 2: return float(j["M"][b[0]-1][b[1]-1])
    return float(j["T3"][b[0]-1])
def qval(q, b):
    f = lambda x: float(x)
    if len(b) == 0: return f(q["A"])
    if len(b) == 1:
        return -f(q["p"]) if b[0] == 1 else -f(q["S"]) if b[0] == 2 else f(q["mu"][b[0]-3])
    if len(b) == 2:
        if b == [1,1]: return -f(q["dp_dv"])
        if b == [1,2]: return -f(q["dp_dt"])
        if b == [2,2]: return -f(q["ds_dt"])
        if b[0] == 1: return -f(q["dp_dni"][b[1]-3])
        if b[0] == 2: return f(q["dmu_dt"][b[1]-3])
        return f(q["dmu_dni"][b[0]-3][b[1]-3])
    return -f(q["d2p_dv2"]) if b[0] == 1 else -f(q["d2s_dt2"])
for line in open(trace):
    e = json.loads(line)
    if e.get("case") != case: continue
    lower = list(bag); lower.remove(d)
    if who in ("ig", "res", "tot"):
        Q = qval(e["center"][who], bag); P = [qval(e["nodes"][d-1][k][who], lower) for k in range(4)]
    else:
        j = e["names"].index(who)
        Q = jval(e["center"]["jets"][j], bag); P = [jval(e["nodes"][d-1][k]["jets"][j], lower) for k in range(4)]
    h = float(e["h"][d-1]); x = float(e["x"][d-1])
    fd = (8*(P[2]-P[1]) - P[3] + P[0])/(12*h)
    print("x=", e["x"], "names", e["names"])
    print("Q=%r fd=%r rel=%.3e nat=%.3e  P=%r" % (Q, fd, abs(Q-fd)/max(abs(Q),abs(fd),1e-300), abs(Q-fd)/(max(map(abs,P))/abs(x)+1e-300), P))
