//! C14, group-contribution part: homosegmented (PC-SAFT from_segments) and heterosegmented (gc-PC-SAFT) construction
//! for TLC-generated segment sequences (and random longer ones with explicit bond lists), plus serde round trips.
use crate::util::*;
use feos::gc_pcsaft::{GcPcSaft, GcPcSaftEosParameters, GcPcSaftRecord};
use feos::pcsaft::{PcSaft, PcSaftParameters, PcSaftRecord};
use feos_core::parameter::{BinaryRecord, ChemicalRecord, Identifier, Parameter, ParameterError, ParameterHetero, PureRecord, SegmentRecord};
use feos_core::{ReferenceSystem, Residual, State};
use ndarray::Array1;
use quantity::*;
use serde_json::{json, Value};
use std::sync::Arc;

// segment table: type -> (m, sigma, eps, mw, polar)
const TABLE: [(&str, f64, f64, f64, f64, bool); 4] = [
    ("A", 0.61, 3.72, 229.9, 15.03, false),
    ("B", 0.45, 3.89, 239.0, 14.03, false),
    ("C", 0.88, 3.31, 255.5, 13.02, false),
    ("P", 0.40, 3.05, 350.0, 17.01, true),
];
const KAB: [(&str, &str, f64); 3] = [("A", "B", 0.031), ("P", "A", -0.052), ("C", "C", 0.0)];

fn table_json() -> Value {
    Value::Array(TABLE.iter().map(|(t, m, s, e, mw, p)| json!([t, {"m": fs(*m), "sigma": fs(*s), "eps": fs(*e), "mw": fs(*mw), "polar": p}])).collect())
}
fn kab_json() -> Value {
    Value::Array(KAB.iter().map(|(a, b, k)| json!([a, b, fs(*k)])).collect())
}

fn homo_segments() -> Vec<SegmentRecord<PcSaftRecord>> {
    TABLE
        .iter()
        .map(|(t, m, s, e, mw, p)| {
            let mr = if *p { json!({"m": m, "sigma": s, "epsilon_k": e, "mu": 1.7}) } else { json!({"m": m, "sigma": s, "epsilon_k": e}) };
            serde_json::from_value(json!({"identifier": t, "molarweight": mw, "model_record": mr})).unwrap()
        })
        .collect()
}
fn hetero_segments() -> Vec<SegmentRecord<GcPcSaftRecord>> {
    TABLE
        .iter()
        .map(|(t, m, s, e, mw, p)| {
            let mr = if *p { json!({"m": m, "sigma": s, "epsilon_k": e, "mu": 1.7}) } else { json!({"m": m, "sigma": s, "epsilon_k": e}) };
            serde_json::from_value(json!({"identifier": t, "molarweight": mw, "model_record": mr})).unwrap()
        })
        .collect()
}
fn kab_records() -> Vec<BinaryRecord<String, f64>> {
    KAB.iter().map(|(a, b, k)| BinaryRecord::new(a.to_string(), b.to_string(), *k)).collect()
}
fn chem(name: &str, segs: &[String], bonds: Option<Vec<[usize; 2]>>) -> ChemicalRecord {
    ChemicalRecord::new(Identifier::new(None, Some(name), None, None, None, None), segs.to_vec(), bonds)
}
fn perr(e: &ParameterError) -> String {
    match e {
        ParameterError::IncompatibleParameters(_) => "Incompatible".into(),
        ParameterError::ComponentsNotFound(_) => "Missing".into(),
        o => format!("Other:{}", o),
    }
}

fn homo_event(tr: &mut Tr, segs: &[String]) {
    let r = guarded(std::panic::AssertUnwindSafe(|| PcSaftParameters::from_segments(vec![chem("x", segs, None)], homo_segments(), None)));
    let res = match r {
        Ok(Ok(p)) => {
            let rec = &p.records().0[0];
            json!({"ok": true, "m": fs(rec.model_record.m), "sigma": fs(rec.model_record.sigma), "epsilon_k": fs(rec.model_record.epsilon_k), "mw": fs(rec.molarweight)})
        }
        Ok(Err(e)) => json!({"ok": false, "err": perr(&e)}),
        Err(m) => json!({"ok": false, "err": format!("Panic:{}", m)}),
    };
    tr.ev(json!({"ev":"SegHomo","segs":segs,"table":table_json(),"res":res}));
}

fn kij_event(tr: &mut Tr, a: &[String], b: &[String]) {
    let r = guarded(std::panic::AssertUnwindSafe(|| {
        PcSaftParameters::from_segments(vec![chem("x", a, None), chem("y", b, None)], homo_segments(), Some(kab_records()))
    }));
    let res = match r {
        Ok(Ok(p)) => {
            let k = p.records().1.map(|m| serde_json::to_value(&m[(0, 1)]).unwrap()["k_ij"].as_f64().unwrap_or(0.0)).unwrap_or(0.0);
            let k2 = p.records().1.map(|m| serde_json::to_value(&m[(1, 0)]).unwrap()["k_ij"].as_f64().unwrap_or(0.0)).unwrap_or(0.0);
            json!({"ok": true, "kij": fs(k), "kji": fs(k2)})
        }
        Ok(Err(e)) => json!({"ok": false, "err": perr(&e)}),
        Err(m) => json!({"ok": false, "err": format!("Panic:{}", m)}),
    };
    tr.ev(json!({"ev":"SegKij","a":a,"b":b,"table":table_json(),"kab":kab_json(),"res":res}));
}

/// Three or four molecules at once: every pair of the binary matrix is the average over its own segment pairs (and nothing else)
fn kij_multi_event(tr: &mut Tr, mols: &[Vec<String>]) {
    let r = guarded(std::panic::AssertUnwindSafe(|| {
        PcSaftParameters::from_segments(mols.iter().enumerate().map(|(i, m)| chem(&format!("c{}", i), m, None)).collect(), homo_segments(), Some(kab_records()))
    }));
    let n = mols.len();
    let res = match r {
        Ok(Ok(p)) => {
            let k: Vec<Vec<Value>> = (0..n).map(|i| (0..n).map(|j| fs(p.records().1.map(|m| serde_json::to_value(&m[(i, j)]).unwrap()["k_ij"].as_f64().unwrap_or(0.0)).unwrap_or(0.0))).collect()).collect();
            json!({"ok": true, "k": k})
        }
        Ok(Err(e)) => json!({"ok": false, "err": perr(&e)}),
        Err(m) => json!({"ok": false, "err": format!("Panic:{}", m)}),
    };
    tr.ev(json!({"ev":"SegKijN","mols":mols,"table":table_json(),"kab":kab_json(),"res":res}));
}

fn type_of_sigma(s: f64) -> &'static str {
    TABLE.iter().find(|t| (t.2 - s).abs() < 1e-12).map(|t| t.0).unwrap_or("?")
}

fn hetero_event(tr: &mut Tr, segs: &[String], bonds: Option<Vec<[usize; 2]>>) {
    let default_bonds = bonds.is_none();
    let b1: Vec<Vec<usize>> = bonds.as_ref().map(|b| b.iter().map(|x| vec![x[0] + 1, x[1] + 1]).collect()).unwrap_or_default();
    let r = guarded(std::panic::AssertUnwindSafe(|| GcPcSaftEosParameters::from_segments(vec![chem("x", segs, bonds.clone())], hetero_segments(), Some(kab_records()))));
    let res = match r {
        Ok(Ok(p)) => {
            let n = p.m.len();
            let sg: Vec<Value> = (0..n).map(|k| json!([type_of_sigma(p.sigma[k]), fs(p.m[k]), fs(p.sigma[k]), fs(p.epsilon_k[k])])).collect();
            let bd: Vec<Value> = p.bonds.iter().map(|(ij, c)| json!([type_of_sigma(p.sigma[ij[0]]), type_of_sigma(p.sigma[ij[1]]), fs(*c)])).collect();
            // behaviour of the resulting model at one state (for order independence of everything not listed above)
            let eos = Arc::new(GcPcSaft::new(Arc::new(p)));
            let a = State::new_nvt(&eos, Temperature::from_reduced(350.0), Volume::from_reduced(400.0), &Moles::from_reduced(Array1::from_vec(vec![1.0])))
                .map(|s| s.residual_helmholtz_energy().to_reduced())
                .unwrap_or(f64::NAN);
            json!({"ok": true, "mw": fs(eos.parameters.molarweight[0]), "segs": sg, "bonds": bd, "a_res": fs(a)})
        }
        Ok(Err(e)) => json!({"ok": false, "err": perr(&e)}),
        Err(m) => json!({"ok": false, "err": format!("Panic:{}", m)}),
    };
    tr.ev(json!({"ev":"SegHetero","segs":segs,"bonds":b1,"default_bonds":default_bonds,"table":table_json(),"res":res}));
}

pub fn run(tr: &mut Tr, args: &Args, rng: &mut Rng) {
    let base = args.plan.clone().unwrap();
    let plan: Vec<Value> = std::fs::read_to_string(format!("{}_segments.ndjson", base)).unwrap().lines().map(|l| serde_json::from_str(l).unwrap()).collect();
    let seqs: Vec<Vec<String>> = plan.iter().map(|p| p["segs"].as_array().unwrap().iter().map(|s| s.as_str().unwrap().to_owned()).collect()).collect();
    for s in &seqs {
        homo_event(tr, s);
        if s.len() >= 2 {
            hetero_event(tr, s, None);
        }
    }
    let npairs = if args.thorough { 4000 } else { 300 };
    for _ in 0..npairs {
        let a = rng.pick(&seqs).clone();
        let b = rng.pick(&seqs).clone();
        kij_event(tr, &a, &b);
    }
    let ok_seqs: Vec<Vec<String>> = seqs.iter().filter(|q| guarded(std::panic::AssertUnwindSafe(|| PcSaftParameters::from_segments(vec![chem("x", q, None)], homo_segments(), None))).map(|r| r.is_ok()).unwrap_or(false)).cloned().collect();
    let nmulti = if args.thorough { 1500 } else { 150 };
    for _ in 0..nmulti {
        let n = 3 + rng.below(2);
        // mostly molecules that can be built on their own (at most one polar / associating segment), so that the averages are actually judged
        let pool = if rng.below(5) == 0 || ok_seqs.is_empty() { &seqs } else { &ok_seqs };
        let mols: Vec<Vec<String>> = (0..n).map(|_| rng.pick(pool).clone()).collect();
        kij_multi_event(tr, &mols);
    }
    // longer random molecules (up to 8 segments) in shuffled orders, with explicit random tree-like bond lists
    let nlong = if args.thorough { 1500 } else { 150 };
    for _ in 0..nlong {
        let n = 2 + rng.below(7);
        let mut s: Vec<String> = (0..n).map(|_| TABLE[rng.below(3)].0.to_owned()).collect();
        if rng.below(3) == 0 {
            s[0] = "P".to_owned();
        }
        rng.shuffle(&mut s);
        homo_event(tr, &s);
        let bonds: Vec<[usize; 2]> = (1..n).map(|i| [rng.below(i), i]).collect();
        hetero_event(tr, &s, Some(bonds));
    }
    serde_roundtrip(tr, args, rng);
}

/// serialise and re-read records; the re-read model must behave identically
fn serde_roundtrip(tr: &mut Tr, args: &Args, rng: &mut Rng) {
    use crate::zoo::ppath;
    for file in ["pcsaft/gross2001.json", "pcsaft/gross2002.json", "pcsaft/gross2005_fit.json", "pcsaft/gross2006.json", "pcsaft/esper2023.json", "pcsaft/loetgeringlin2018.json", "pcsaft/rehner2020.json"] {
        let txt = std::fs::read_to_string(ppath(file)).unwrap();
        let recs: Vec<PureRecord<PcSaftRecord>> = serde_json::from_str(&txt).unwrap();
        let step = if args.thorough { 1 } else { 1 + recs.len() / 12 };
        for (i, r) in recs.iter().enumerate().step_by(step) {
            let s = serde_json::to_string(r).unwrap();
            let r2: Result<PureRecord<PcSaftRecord>, _> = serde_json::from_str(&s);
            let obs = |rec: &PureRecord<PcSaftRecord>| -> Vec<f64> {
                let p = PcSaftParameters::new_pure(rec.clone());
                match p {
                    Ok(p) => {
                        let eos = Arc::new(PcSaft::new(Arc::new(p)));
                        let rmax = eos.compute_max_density(&Array1::from_vec(vec![1.0]));
                        [0.05, 0.6]
                            .iter()
                            .flat_map(|u| {
                                let st = State::new_nvt(&eos, Temperature::from_reduced(400.0), Volume::from_reduced(1.0 / (u * rmax)), &Moles::from_reduced(Array1::from_vec(vec![1.0]))).unwrap();
                                vec![st.residual_helmholtz_energy().to_reduced(), st.pressure(feos_core::Contributions::Residual).to_reduced(), rec.molarweight]
                            })
                            .collect()
                    }
                    Err(_) => vec![f64::NAN],
                }
            };
            let before = obs(r);
            let after = r2.as_ref().map(|x| obs(x)).unwrap_or_default();
            tr.ev(json!({"ev":"Serde","what":format!("{}[{}]",file,i),"reparsed":r2.is_ok(),"before":fv(before.iter()),"after":fv(after.iter())}));
        }
    }
    // ---- group-contribution records: molecules (segments + bonds), segment tables, binary segment records
    {
        use feos_core::parameter::ParameterHetero;
        let subs: Vec<ChemicalRecord> = serde_json::from_str(&std::fs::read_to_string(ppath("pcsaft/gc_substances.json")).unwrap()).unwrap();
        let segs: Vec<SegmentRecord<GcPcSaftRecord>> = serde_json::from_str(&std::fs::read_to_string(ppath("pcsaft/sauer2014_hetero.json")).unwrap()).unwrap();
        let segs2: Result<Vec<SegmentRecord<GcPcSaftRecord>>, _> = serde_json::from_str(&serde_json::to_string(&segs).unwrap());
        let obs = |cr: &ChemicalRecord, table: &Vec<SegmentRecord<GcPcSaftRecord>>| -> Vec<f64> {
            match guarded(std::panic::AssertUnwindSafe(|| GcPcSaftEosParameters::from_segments(vec![cr.clone()], table.clone(), None))) {
                Ok(Ok(p)) => {
                    let eos = Arc::new(GcPcSaft::new(Arc::new(p)));
                    let rmax = eos.compute_max_density(&Array1::from_vec(vec![1.0]));
                    [0.05, 0.6].iter().flat_map(|u| {
                        match State::new_nvt(&eos, Temperature::from_reduced(400.0), Volume::from_reduced(1.0 / (u * rmax)), &Moles::from_reduced(Array1::from_vec(vec![1.0]))) {
                            Ok(st) => vec![st.residual_helmholtz_energy().to_reduced(), st.pressure(feos_core::Contributions::Residual).to_reduced()],
                            Err(_) => vec![f64::NAN, f64::NAN],
                        }
                    }).collect()
                }
                _ => vec![f64::INFINITY],   // the segment table does not cover this molecule: the same before and after
            }
        };
        let step = if args.thorough { 1 } else { 3 };
        for (i, cr) in subs.iter().enumerate().step_by(step) {
            let s = serde_json::to_string(cr).unwrap();
            let cr2: Result<ChemicalRecord, _> = serde_json::from_str(&s);
            let before = obs(cr, &segs);
            let after = cr2.as_ref().map(|c| obs(c, &segs)).unwrap_or_default();
            tr.ev(json!({"ev":"Serde","what":format!("pcsaft/gc_substances.json[{}] (molecule)",i),"reparsed":cr2.is_ok(),"before":fv(before.iter()),"after":fv(after.iter())}));
            if i % 9 == 0 {
                if let Ok(t2) = &segs2 {
                    let after = obs(cr, t2);
                    tr.ev(json!({"ev":"Serde","what":format!("pcsaft/sauer2014_hetero.json (segment table) on gc_substances[{}]",i),"reparsed":true,"before":fv(before.iter()),"after":fv(after.iter())}));
                }
            }
        }
        if segs2.is_err() { tr.ev(json!({"ev":"Serde","what":"pcsaft/sauer2014_hetero.json (segment table)","reparsed":false,"before":[],"after":[]})); }
    }
    // ---- records of the other model families: the re-read record must give the same model
    {
        use feos::saftvrmie::{SaftVRMie, SaftVRMieParameters, SaftVRMieRecord};
        use feos::saftvrqmie::{SaftVRQMie, SaftVRQMieParameters, SaftVRQMieRecord};
        use feos::ideal_gas::{Dippr, DipprRecord, JobackRecord};
        macro_rules! family {
            ($file:expr, $rec:ty, $build:expr, $stepq:expr) => {{
                let txt = std::fs::read_to_string(ppath($file)).unwrap();
                let recs: Vec<PureRecord<$rec>> = serde_json::from_str(&txt).unwrap();
                let step = if args.thorough { 1 } else { $stepq };
                for (i, r) in recs.iter().enumerate().step_by(step) {
                    let s = serde_json::to_string(r).unwrap();
                    let r2: Result<PureRecord<$rec>, _> = serde_json::from_str(&s);
                    let f: &dyn Fn(&PureRecord<$rec>) -> Vec<f64> = &$build;
                    let before = guarded(std::panic::AssertUnwindSafe(|| f(r))).unwrap_or(vec![f64::INFINITY]);
                    let after = r2.as_ref().map(|x| guarded(std::panic::AssertUnwindSafe(|| f(x))).unwrap_or(vec![f64::INFINITY])).unwrap_or_default();
                    tr.ev(json!({"ev":"Serde","what":format!("{}[{}]",$file,i),"reparsed":r2.is_ok(),"before":fv(before.iter()),"after":fv(after.iter())}));
                }
            }};
        }
        fn eos_obs<E: Residual>(eos: Arc<E>, t: f64, mw: f64) -> Vec<f64> {
            let rmax = eos.compute_max_density(&Array1::from_vec(vec![1.0]));
            let mut v: Vec<f64> = [0.05, 0.6].iter().flat_map(|u| {
                match State::new_nvt(&eos, Temperature::from_reduced(t), Volume::from_reduced(1.0 / (u * rmax)), &Moles::from_reduced(Array1::from_vec(vec![1.0]))) {
                    Ok(st) => vec![st.residual_helmholtz_energy().to_reduced(), st.pressure(feos_core::Contributions::Residual).to_reduced()],
                    Err(_) => vec![f64::NAN, f64::NAN],
                }
            }).collect();
            v.push(mw);
            v
        }
        family!("saftvrmie/lafitte2013.json", SaftVRMieRecord, |r: &PureRecord<SaftVRMieRecord>| eos_obs(Arc::new(SaftVRMie::new(Arc::new(SaftVRMieParameters::new_pure(r.clone()).unwrap()))), 400.0, r.molarweight), 3);
        for file in ["saftvrqmie/aasen2019.json", "saftvrqmie/aasen2019_fh2.json", "saftvrqmie/hammer2023.json"] {
            family!(file, SaftVRQMieRecord, |r: &PureRecord<SaftVRQMieRecord>| eos_obs(Arc::new(SaftVRQMie::new(Arc::new(SaftVRQMieParameters::new_pure(r.clone()).unwrap()))), 40.0, r.molarweight), 2);
        }
        {
            // joback1987.json is a segment table (group contributions): the re-read segment must carry the same numbers
            let recs: Vec<SegmentRecord<JobackRecord>> = serde_json::from_str(&std::fs::read_to_string(ppath("ideal_gas/joback1987.json")).unwrap()).unwrap();
            let nums = |r: &SegmentRecord<JobackRecord>| -> Vec<f64> {
                let v = serde_json::to_value(&r.model_record).unwrap();
                let mut out: Vec<f64> = v.as_object().map(|o| o.values().filter_map(|x| x.as_f64()).collect()).unwrap_or_default();
                out.push(r.molarweight);
                out
            };
            for (i, r) in recs.iter().enumerate().step_by(if args.thorough { 1 } else { 5 }) {
                let r2: Result<SegmentRecord<JobackRecord>, _> = serde_json::from_str(&serde_json::to_string(r).unwrap());
                let after = r2.as_ref().map(|x| nums(x)).unwrap_or_default();
                tr.ev(json!({"ev":"Serde","what":format!("ideal_gas/joback1987.json[{}] (segment)",i),"reparsed":r2.is_ok(),"before":fv(nums(r).iter()),"after":fv(after.iter())}));
            }
        }
        family!("ideal_gas/poling2000.json", DipprRecord, |r: &PureRecord<DipprRecord>| {
            let j = Dippr::new_pure(r.clone()).unwrap();
            [200.0, 450.0, 900.0].iter().map(|t| j.molar_isobaric_heat_capacity(*t * KELVIN, &Array1::from_vec(vec![1.0])).unwrap().convert_into(JOULE / MOL / KELVIN)).collect()
        }, 25);
    }
    let _ = rng;
}
