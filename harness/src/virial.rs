//! Recorder for C13: virial coefficients reported by the model vs the low-density behaviour of Z of its states.
use crate::util::*;
use crate::zoo;
use feos_core::{Contributions, ReferenceSystem, Residual, State};
use ndarray::Array1;
use quantity::*;
use serde_json::{json, Value};

pub fn run(args: &Args) {
    let mut tr = Tr::create(&args.out);
    let mut rng = Rng::new(args.seed ^ 0x13);
    let reps = if args.thorough { 40 } else { 8 };
    let mut cases = 0;
    let mut models = zoo::zoo(args.thorough);
    let nzoo = models.len();
    models.extend(zoo::shipped_sample(&mut rng, args.thorough));
    for (mi, m) in models.into_iter().enumerate() {
        let reps = if mi < nzoo { reps } else { 1 };
        if m.family == "ElectrolytePcSaft" {
            continue; // the coefficient does not exist for electrolyte solutions (C13 excludes them)
        }
        for r in 0..reps {
            let x = if m.n == 1 { vec![1.0] } else { rng.simplex(m.n) };
            let t = m.tscale * rng.lrange(0.5, 3.0);
            let moles = Moles::from_reduced(Array1::from_vec(x.clone()));
            let rmax = m.eos.compute_max_density(&Array1::from_vec(x.clone()));
            let case = format!("{}#{}", m.name, r);
            let res = guarded(std::panic::AssertUnwindSafe(|| {
                let coeff = |tt: f64| -> Value {
                    let tq = Temperature::from_reduced(tt);
                    let b = m.eos.second_virial_coefficient(tq, Some(&moles)).map(|v| v.to_reduced()).unwrap_or(f64::NAN);
                    let c = m.eos.third_virial_coefficient(tq, Some(&moles)).map(|v| v.to_reduced()).unwrap_or(f64::NAN);
                    let db = m.eos.second_virial_coefficient_temperature_derivative(tq, Some(&moles)).map(|v| v.to_reduced()).unwrap_or(f64::NAN);
                    let dc = m.eos.third_virial_coefficient_temperature_derivative(tq, Some(&moles)).map(|v| v.to_reduced()).unwrap_or(f64::NAN);
                    json!({"B": fs(b), "C": fs(c), "dB": fs(db), "dC": fs(dc)})
                };
                let h = 3.0e-4 * t;
                let tn: Vec<Value> = [-2.0, -1.0, 1.0, 2.0].iter().map(|k| coeff(t + k * h)).collect();
                let mut series = vec![];
                // start of the density ladder: halve from 2% of the maximum density until |Z_res| <= 0.02, so that the
                // expansion parameter B*rho is small whatever the model (strongly associating fluids need much lower densities)
                let mut rho1 = 2.0e-2 * rmax;
                for _ in 0..60 {
                    let z = State::new_nvt(&m.eos, Temperature::from_reduced(t), Volume::from_reduced(1.0 / rho1), &moles)
                        .map(|st| st.compressibility(Contributions::Residual))
                        .unwrap_or(f64::NAN);
                    if z.abs() <= 0.02 {
                        break;
                    }
                    rho1 *= 0.5;
                }
                for k in 0..8 {
                    let rho = rho1 / 2f64.powi(k);
                    if let Ok(st) = State::new_nvt(&m.eos, Temperature::from_reduced(t), Volume::from_reduced(1.0 / rho), &moles) {
                        series.push(json!({"rho": fs(rho), "zres": fs(st.compressibility(Contributions::Residual))}));
                    }
                }
                json!({"ev":"Virial","case":case,"model":m.name,"family":m.family,"n":m.n,"T":fs(t),"h":fs(h),"x":fv(x.iter()),
                       "rho_max":fs(rmax),"at":coeff(t),"Tn":tn,"series":series})
            }));
            match res {
                Ok(ev) => {
                    tr.ev(ev);
                    cases += 1;
                }
                Err(p) => tr.ev(json!({"ev":"Panic","case":case,"msg":p})),
            }
        }
    }
    let n = tr.finish();
    println!("virial trace: {} lines, {} cases", n, cases);
}
