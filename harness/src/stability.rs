//! Stability analyses with hook H11 switched on: every call is recorded as the hook's own account of the minimisation of each trial phase (ST* events, one
//! per action of MinimizeTpd.tla) followed by an STCall event with what the API returned. TLC replays the events as behaviours of the module
//! (TraceMinimizeTpd.tla).
use crate::util::*;
use crate::zoo;
use feos::pcsaft::{PcSaft, PcSaftParameters};
use feos::ResidualModel;
use feos_core::parameter::{IdentifierOption, Parameter};
use feos_core::{Contributions, DensityInitialization, EosError, PhaseEquilibrium, ReferenceSystem, SolverOptions, State};
use ndarray::Array1;
use quantity::*;
use serde_json::json;
use std::sync::Arc;

type M = ResidualModel;

fn analyse(tr: &mut Tr, case: &str, grid: &str, s: &State<M>, opts: SolverOptions) {
    feos_core::verif::take();
    feos_core::verif::enable(true);
    let r = guarded(std::panic::AssertUnwindSafe(|| s.stability_analysis(opts)));
    feos_core::verif::enable(false);
    let mut lines = feos_core::verif::take();
    lines.sort_by_key(|l| seq_of(l));
    for l in lines.iter().filter(|l| l.contains("\"ev\":\"ST")) { tr.raw(l); }
    let (status, n) = match &r {
        Ok(Ok(v)) => ("Ok".to_string(), v.len()),
        Ok(Err(EosError::NotConverged(_))) => ("NotConverged".to_string(), 0),
        Ok(Err(_)) => ("Error".to_string(), 0),
        Err(m) => (format!("Panic:{}", m), 0),
    };
    let stable = guarded(std::panic::AssertUnwindSafe(|| s.is_stable(opts))).ok().and_then(|r| r.ok()).unwrap_or(false);
    tr.ev(json!({"ev":"STCall","case":case,"grid":grid,"status":status,"n":n,"stable":stable}));
}

pub fn run(args: &Args) {
    std::panic::set_hook(Box::new(|_| {}));
    let mut tr = Tr::create(&args.out);
    let mut rng = Rng::new(args.seed ^ 0x57);
    let d = SolverOptions::default;
    let mk = |names: Vec<&str>| -> Option<Arc<M>> {
        PcSaftParameters::from_json(names, zoo::ppath("pcsaft/gross2001.json"), None, IdentifierOption::Name).ok().map(|p| Arc::new(M::PcSaft(PcSaft::new(Arc::new(p)))))
    };
    let mut systems: Vec<(String, Arc<M>, Vec<Vec<f64>>)> = vec![];
    if let Some(e) = mk(vec!["propane", "butane"]) { systems.push(("propane+butane".into(), e, vec![vec![0.5, 0.5], vec![0.1, 0.9]])); }
    if let Some(e) = mk(vec!["ethane", "hexane"]) { systems.push(("ethane+hexane".into(), e, vec![vec![0.5, 0.5], vec![0.95, 0.05], vec![0.2, 0.8]])); }
    if let Some(e) = mk(vec!["carbon dioxide", "hexane"]) { systems.push(("co2+hexane".into(), e, vec![vec![0.5, 0.5], vec![0.8, 0.2]])); }
    if let Some(e) = mk(vec!["propane", "butane", "pentane"]) { systems.push(("propane+butane+pentane".into(), e, vec![vec![0.4, 0.3, 0.3]])); }
    if args.thorough {
        if let Some(e) = mk(vec!["methane", "propane"]) { systems.push(("methane+propane".into(), e, vec![vec![0.3, 0.7], vec![0.7, 0.3]])); }
        if let Some(e) = mk(vec!["hexane", "heptane", "octane"]) { systems.push(("hexane+heptane+octane".into(), e, vec![vec![0.3, 0.3, 0.4]])); }
        if let Some(e) = mk(vec!["methane", "decane"]) { systems.push(("methane+decane".into(), e, vec![vec![0.5, 0.5]])); }
    }
    for (name, eos, comps) in &systems {
        let Ok(tcs) = State::critical_point_pure(eos, None, d()) else { continue };
        let tc_lo = tcs.iter().map(|s| s.temperature.to_reduced()).fold(f64::INFINITY, f64::min);
        for z in comps {
            let za = Array1::from_vec(z.clone());
            for tf in if args.thorough { vec![0.65, 0.75, 0.85, 0.95] } else { vec![0.7, 0.9] } {
                let t = Temperature::from_reduced(tc_lo * tf);
                let (Ok(b), Ok(dw)) = (PhaseEquilibrium::bubble_point(eos, t, &za, None, None, (d(), d())), PhaseEquilibrium::dew_point(eos, t, &za, None, None, (d(), d()))) else { continue };
                let (pb, pd) = (b.vapor().pressure(Contributions::Total), dw.vapor().pressure(Contributions::Total));
                let feed = Moles::from_reduced(&za * 1.3);
                for w in [-0.3, -0.02, 0.02, 0.3, 0.7, 0.98, 1.02, 1.5, rng.range(0.05, 0.95)] {
                    let p = pd + (pb - pd) * w;
                    let grid = format!("z={:?},T/Tc={},w={:.3}", z, tf, w);
                    // inside the envelope both density roots of the feed are analysed
                    for init in [DensityInitialization::Vapor, DensityInitialization::Liquid] {
                        let Ok(s) = State::new_npt(eos, t, p, &feed, init) else { continue };
                        analyse(&mut tr, name, &grid, &s, d());
                        analyse(&mut tr, name, &format!("{},max_iter 6", grid), &s, d().max_iter(6));
                        analyse(&mut tr, name, &format!("{},tol 1e-9", grid), &s, d().tol(1e-9));
                    }
                }
            }
        }
    }
    let n = tr.finish();
    println!("stability trace: {} lines", n);
}
