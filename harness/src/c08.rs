//! C08 driver: pairs of independent implementations of the same model recorded at the same states.
use crate::red::*;
use crate::util::*;
use crate::zoo::{self, from_json_str, ppath, shipped};
use feos::association::Association;
use feos::epcsaft::{ElectrolytePcSaft, ElectrolytePcSaftParameters};
use feos::gc_pcsaft::{GcPcSaft, GcPcSaftEosParameters, GcPcSaftFunctional, GcPcSaftFunctionalParameters};
use feos::hard_sphere::{FMTVersion, HardSphereProperties};
use feos::ideal_gas::IdealGasModel;
use feos::pcsaft::{PcSaft, PcSaftFunctional, PcSaftParameters};
use feos::pets::{Pets, PetsFunctional, PetsParameters};
use feos::saftvrmie::{SaftVRMie, SaftVRMieParameters};
use feos::saftvrqmie::{SaftVRQMie, SaftVRQMieFunctional, SaftVRQMieParameters};
use feos::ResidualModel;
use feos_core::cubic::{PengRobinson, PengRobinsonParameters};
use feos_core::parameter::{IdentifierOption, Parameter, ParameterHetero};
use feos_core::{Components, Contributions, EquationOfState, ReferenceSystem, Residual, State, StateHD};
use ndarray::Array1;
use num_dual::Dual64;
use quantity::*;
use serde_json::{json, Value};
use std::sync::Arc;

const R: Contributions = Contributions::Residual;

fn obs<E: Residual>(eos: &Arc<E>, t: f64, v: f64, n: &[f64]) -> Value {
    let st = State::new_nvt(eos, Temperature::from_reduced(t), Volume::from_reduced(v), &Moles::from_reduced(Array1::from_vec(n.to_vec())));
    match st {
        Ok(s) => json!({"ok": true, "A": fs(r0(s.residual_helmholtz_energy())), "p": fs(r0(s.pressure(R))), "S": fs(r0(s.residual_entropy())),
            "mu": fv(r1(s.residual_chemical_potential()).iter()), "dp_dv": fs(r0(s.dp_dv(R))), "dp_dt": fs(r0(s.dp_dt(R))), "dmu_dni": fm(&r2(s.dmu_dni(R))),
            "contrib": fv(s.residual_helmholtz_energy_contributions().iter().map(|(_, a)| r0(*a)).collect::<Vec<_>>().iter()),
            "names": s.residual_helmholtz_energy_contributions().iter().map(|(n, _)| n.clone()).collect::<Vec<_>>()}),
        Err(_) => json!({"ok": false}),
    }
}

fn states(n: usize, tscale: f64, rmax_of: &dyn Fn(&[f64]) -> f64, rng: &mut Rng, k: usize) -> Vec<(f64, f64, Vec<f64>)> {
    (0..k)
        .map(|i| {
            let x = if n == 1 { vec![1.0] } else { rng.simplex(n) };
            let ntot = rng.lrange(0.5, 4.0);
            let m: Vec<f64> = x.iter().map(|v| v * ntot).collect();
            let u = if i % 2 == 0 { rng.lrange(1e-4, 0.8) } else { rng.range(0.2, 0.85) };
            (tscale * rng.lrange(0.5, 2.5), ntot / (rmax_of(&m) * u), m)
        })
        .collect()
}

fn pair<A: Residual, B: Residual>(tr: &mut Tr, name: &str, class: &str, left: &Arc<A>, right: &Arc<B>, tscale: f64, rng: &mut Rng, k: usize) {
    let n = left.components();
    let l2 = left.clone();
    let sts = states(n, tscale, &move |m| l2.compute_max_density(&Array1::from_vec(m.to_vec())), rng, k);
    for (t, v, m) in sts {
        let r = guarded(std::panic::AssertUnwindSafe(|| (obs(left, t, v, &m), obs(right, t, v, &m))));
        match r {
            Ok((a, b)) => tr.ev(json!({"ev":"Pair","pair":name,"class":class,"T":fs(t),"V":fs(v),"N":fv(m.iter()),"left":a,"right":b})),
            Err(msg) => tr.ev(json!({"ev":"Panic","pair":name,"msg":msg})),
        }
    }
}

fn pc(names: &[&str], file: &str, kij: Option<f64>) -> Arc<PcSaftParameters> {
    let b = kij.map(|k| format!("{{\"k_ij\":{}}}", k));
    let bin: Vec<((usize, usize), &str)> = b.iter().map(|s| ((0usize, 1usize), s.as_str())).collect();
    Arc::new(from_json_str::<PcSaftParameters>(&shipped(file, names), &bin))
}


/// every pure record of a shipped PC-SAFT file as (index, name, class, one-record JSON list)
fn pcsaft_records(file: &str) -> Vec<(usize, String, String, String)> {
    let txt = std::fs::read_to_string(ppath(&format!("pcsaft/{}", file))).unwrap_or_default();
    let recs: Vec<Value> = serde_json::from_str(&txt).unwrap_or_default();
    recs.iter().enumerate().map(|(i, r)| {
        let mr = &r["model_record"];
        let g = |k: &str| mr.get(k).and_then(|v| v.as_f64()).unwrap_or(0.0);
        let m = g("m");
        let class = format!("m{}{}{}{}{}", if m <= 1.0001 { "1" } else if m <= 2.0 { "<=2" } else { ">2" },
            if g("mu") != 0.0 { "/dipole" } else { "" }, if g("q") != 0.0 { "/quadrupole" } else { "" },
            if mr.get("kappa_ab").is_some() { "/assoc" } else { "" },
            if mr.get("kappa_ab").is_none() && (mr.get("na").is_some() || mr.get("nb").is_some()) { "/sites-only" } else { "" });
        let name = r["identifier"]["name"].as_str().or(r["identifier"]["iupac_name"].as_str()).or(r["identifier"]["cas"].as_str()).unwrap_or("?").to_owned();
        (i, name, class, serde_json::to_string(&vec![r.clone()]).unwrap())
    }).collect()
}

/// Sweep over shipped pure PC-SAFT records: functional (every FMT version) vs equation of state, and the single-component functional
/// (specialised code path) vs the same substance written as a binary mixture of two identical components (general code path).
fn record_sweep(tr: &mut Tr, rng: &mut Rng, thorough: bool) {
    for file in ["gross2001.json", "gross2002.json", "gross2005_fit.json", "gross2005_literature.json", "gross2006.json", "loetgeringlin2018.json", "rehner2020.json", "esper2023.json"] {
        let recs = pcsaft_records(file);
        let mut chosen: Vec<usize> = vec![];
        if thorough {
            chosen = (0..recs.len()).collect();
        } else {
            // two records of every structural class + a seeded sample
            let mut seen: std::collections::HashMap<String, usize> = Default::default();
            let mut order: Vec<usize> = (0..recs.len()).collect();
            rng.shuffle(&mut order);
            for &i in &order {
                let c = seen.entry(recs[i].2.clone()).or_insert(0);
                if *c < 2 { *c += 1; chosen.push(i); }
            }
            for &i in order.iter().take(12) { if !chosen.contains(&i) { chosen.push(i); } }
        }
        for i in chosen {
            let (idx, name, class, js) = &recs[i];
            let Ok(p) = guarded(std::panic::AssertUnwindSafe(|| Arc::new(from_json_str::<PcSaftParameters>(js, &[])))) else {
                tr.ev(json!({"ev":"Skip","pair":format!("{}[{}]", file, idx),"why":"record does not load"})); continue };
            let eos = Arc::new(PcSaft::new(p.clone()));
            // temperature scale: the critical temperature of the record (association and polarity move it far from epsilon/k)
            let ts = guarded(std::panic::AssertUnwindSafe(|| State::critical_point(&eos, None, None, Default::default()).ok().map(|s| s.temperature.to_reduced())))
                .ok().flatten().unwrap_or(1.6 * p.epsilon_k[0] * (1.0 + 0.12 * (p.m[0] - 1.0)));
            let tag = format!("{}[{}]:{}:{}", file, idx, name, class);
            for (vn, ver) in [("WhiteBear", FMTVersion::WhiteBear), ("KierlikRosinberg", FMTVersion::KierlikRosinberg), ("AntiSymWhiteBear", FMTVersion::AntiSymWhiteBear)] {
                let f = Arc::new(PcSaftFunctional::new_full(p.clone(), ver));
                pair(tr, &format!("PcSaftFunctional({})/PcSaft:{}", vn, tag), "bulk", &f, &eos, ts, rng, 2);
            }
            // pure (specialised) vs duplicated binary (general) functional and equation of state, at the same total amounts
            let one: Vec<Value> = serde_json::from_str(js).unwrap();
            let mut two = one.clone();
            let mut second = one[0].clone();
            second["identifier"] = json!({"name": "copy"});
            two.push(second);
            if let Ok(p2) = guarded(std::panic::AssertUnwindSafe(|| Arc::new(from_json_str::<PcSaftParameters>(&serde_json::to_string(&two).unwrap(), &[])))) {
                let f1 = Arc::new(PcSaftFunctional::new(p.clone()));
                let f2 = Arc::new(PcSaftFunctional::new(p2.clone()));
                let e2 = Arc::new(PcSaft::new(p2.clone()));
                for _ in 0..2 {
                    let t = ts * rng.lrange(0.5, 2.5);
                    let ntot = rng.lrange(0.5, 4.0);
                    let rmax = eos.compute_max_density(&Array1::from_vec(vec![ntot]));
                    let v = ntot / (rmax * rng.lrange(1e-3, 0.8));
                    let a = rng.range(0.1, 0.9);
                    let r = guarded(std::panic::AssertUnwindSafe(|| (obs(&f1, t, v, &[ntot]), obs(&f2, t, v, &[a * ntot, (1.0 - a) * ntot]), obs(&e2, t, v, &[a * ntot, (1.0 - a) * ntot]))));
                    match r {
                        Ok((x, y, z)) => tr.ev(json!({"ev":"Split","pair":format!("PcSaftFunctional pure/duplicated:{}", tag),"class":"bulk","T":fs(t),"V":fs(v),"N":fs(ntot),"a":fs(a),
                            "pure":x,"dup_functional":y,"dup_eos":z})),
                        Err(msg) => tr.ev(json!({"ev":"Panic","pair":format!("PcSaftFunctional pure/duplicated:{}", tag),"msg":msg})),
                    }
                }
            }
        }
    }
}

/// Binary mixtures of shipped pure PC-SAFT records (every structural class paired with every other): functional vs equation of state.
fn mixture_sweep(tr: &mut Tr, rng: &mut Rng, thorough: bool) {
    let mut all: Vec<(String, usize, String, String, String)> = vec![];
    for file in ["gross2001.json", "gross2002.json", "gross2005_fit.json", "gross2006.json", "rehner2020.json", "esper2023.json"] {
        for (i, name, class, js) in pcsaft_records(file) { all.push((file.to_owned(), i, name, class, js)); }
    }
    let mut by_class: std::collections::BTreeMap<String, Vec<usize>> = Default::default();
    for (k, r) in all.iter().enumerate() { by_class.entry(r.3.split_once('/').map(|x| x.1.to_owned()).unwrap_or_default()).or_default().push(k); }
    let classes: Vec<String> = by_class.keys().cloned().collect();
    let mut pairs: Vec<(usize, usize)> = vec![];
    for a in 0..classes.len() { for b in a..classes.len() {
        for _ in 0..(if thorough { 6 } else { 1 }) {
            let i = *rng.pick(&by_class[&classes[a]]); let j = *rng.pick(&by_class[&classes[b]]);
            if i != j { pairs.push((i, j)); }
        }
    } }
    for (i, j) in pairs {
        let (a, b) = (&all[i], &all[j]);
        let mut recs: Vec<Value> = serde_json::from_str(&a.4).unwrap();
        recs.extend(serde_json::from_str::<Vec<Value>>(&b.4).unwrap());
        recs[0]["identifier"] = json!({"name": "first"});
        recs[1]["identifier"] = json!({"name": "second"});
        let kij = format!("{{\"k_ij\":{}}}", rng.range(-0.03, 0.05));
        let Ok(p) = guarded(std::panic::AssertUnwindSafe(|| Arc::new(from_json_str::<PcSaftParameters>(&serde_json::to_string(&recs).unwrap(), &[((0, 1), kij.as_str())])))) else { continue };
        let nq = [a, b].iter().filter(|r| r.3.contains("quadrupole")).count();
        let nd = [a, b].iter().filter(|r| r.3.contains("dipole")).count();
        let na = [a, b].iter().filter(|r| r.3.contains("assoc") || r.3.contains("sites-only")).count();
        let tag = format!("mix:{}[{}]:{}+{}[{}]:{}|dipoles={}|quadrupoles={}|associating={}", a.0, a.1, a.2, b.0, b.1, b.2, nd, nq, na);
        let eos = Arc::new(PcSaft::new(p.clone()));
        let ts = 1.9 * (p.epsilon_k[0] * (1.0 + 0.12 * (p.m[0] - 1.0)) + p.epsilon_k[1] * (1.0 + 0.12 * (p.m[1] - 1.0))) * if na > 0 { 1.6 } else { 1.0 };
        for (vn, ver) in [("WhiteBear", FMTVersion::WhiteBear), ("KierlikRosinberg", FMTVersion::KierlikRosinberg)] {
            let f = Arc::new(PcSaftFunctional::new_full(p.clone(), ver));
            pair(tr, &format!("PcSaftFunctional({})/PcSaft:{}", vn, tag), "bulk", &f, &eos, ts, rng, 2);
        }
    }
}

pub fn run(args: &Args) {
    let mut tr = Tr::create(&args.out);
    let mut rng = Rng::new(args.seed ^ 0x08);
    let k = if args.thorough { 40 } else { 8 };
    // 1. functionals evaluated for a homogeneous fluid vs equations of state
    let pcs: Vec<(&str, Arc<PcSaftParameters>, f64)> = vec![
        ("propane", pc(&["propane"], "pcsaft/gross2001.json", None), 370.0),
        ("propane+butane", pc(&["propane", "butane"], "pcsaft/gross2001.json", Some(0.02)), 400.0),
        ("methanol", pc(&["methanol"], "pcsaft/gross2002.json", None), 512.0),
        ("methanol+ethanol", pc(&["methanol", "ethanol"], "pcsaft/gross2002.json", Some(-0.01)), 515.0),
        ("co2", pc(&["carbon dioxide"], "pcsaft/gross2005_fit.json", None), 304.0),
        ("butane+methanol", {
            // a single associating component that is NOT the first one (closed-form association branch)
            let mut r: Vec<Value> = serde_json::from_str(&shipped("pcsaft/gross2001.json", &["butane"])).unwrap();
            r.extend(serde_json::from_str::<Vec<Value>>(&shipped("pcsaft/gross2002.json", &["methanol"])).unwrap());
            Arc::new(from_json_str::<PcSaftParameters>(&serde_json::to_string(&r).unwrap(), &[((0, 1), r#"{"k_ij":0.02}"#)]))
        }, 480.0),
        ("acetone", pc(&["acetone"], "pcsaft/gross2006.json", None), 508.0),
    ];
    for (nm, p, ts) in &pcs {
        let eos = Arc::new(PcSaft::new(p.clone()));
        for (vn, ver) in [("WhiteBear", FMTVersion::WhiteBear), ("KierlikRosinberg", FMTVersion::KierlikRosinberg), ("AntiSymWhiteBear", FMTVersion::AntiSymWhiteBear)] {
            let f = Arc::new(PcSaftFunctional::new_full(p.clone(), ver));
            pair(&mut tr, &format!("PcSaftFunctional({})/PcSaft:{}", vn, nm), "bulk", &f, &eos, *ts, &mut rng, k);
        }
        // 5./6. generic containers
        let wrapped = Arc::new(ResidualModel::PcSaft(PcSaft::new(p.clone())));
        pair(&mut tr, &format!("ResidualModel::PcSaft/PcSaft:{}", nm), "wrapper", &wrapped, &eos, *ts, &mut rng, k);
        let full = Arc::new(EquationOfState::new(Arc::new(zoo::joback_for(eos.components())), eos.clone()));
        pair(&mut tr, &format!("EquationOfState(Joback,PcSaft)/PcSaft:{}", nm), "wrapper", &full, &eos, *ts, &mut rng, k);
        let wrapped_f = Arc::new(ResidualModel::PcSaftFunctional(PcSaftFunctional::new(p.clone())));
        pair(&mut tr, &format!("ResidualModel::PcSaftFunctional/PcSaft:{}", nm), "bulk", &wrapped_f, &eos, *ts, &mut rng, k);
        let ig: Arc<EquationOfState<IdealGasModel, ResidualModel>> = zoo::with_ideal_gas(&wrapped, eos.components());
        pair(&mut tr, &format!("EquationOfState(Joback,ResidualModel)/PcSaft:{}", nm), "wrapper", &ig, &eos, *ts, &mut rng, k);
    }
    record_sweep(&mut tr, &mut rng, args.thorough);
    mixture_sweep(&mut tr, &mut rng, args.thorough);
    // gc-PC-SAFT functional vs EoS (same segment files)
    for names in [vec!["propane"], vec!["ethanol", "hexane"], vec!["pentane", "1-propanol"], vec!["methanol"], vec!["1-butanol", "heptane"]] {
        let args3 = (ppath("pcsaft/gc_substances.json"), ppath("pcsaft/sauer2014_hetero.json"), Some(ppath("pcsaft/rehner2023_hetero_binary.json")));
        let pe = GcPcSaftEosParameters::from_json_segments(&names, args3.0.clone(), args3.1.clone(), args3.2.clone(), IdentifierOption::Name);
        let pf = GcPcSaftFunctionalParameters::from_json_segments(&names, args3.0, args3.1, args3.2, IdentifierOption::Name);
        if let (Ok(pe), Ok(pf)) = (pe, pf) {
            let eos = Arc::new(GcPcSaft::new(Arc::new(pe)));
            let f = Arc::new(GcPcSaftFunctional::new(Arc::new(pf)));
            pair(&mut tr, &format!("GcPcSaftFunctional/GcPcSaft:{}", names.join("+")), "bulk", &f, &eos, 450.0, &mut rng, k);
        } else {
            tr.ev(json!({"ev":"Skip","pair":format!("GcPcSaftFunctional/GcPcSaft:{}", names.join("+")),"why":"parameters"}));
        }
    }
    // the same with the segment table the binary segment records belong to (rehner2023): aromatics have binary records between segments of ONE molecule,
    // which the equation of state applies across components only
    for names in [vec!["toluene"], vec!["ethylbenzene", "hexane"], vec!["benzene", "toluene"], vec!["ethanol", "toluene"]] {
        let args3 = (ppath("pcsaft/gc_substances.json"), ppath("pcsaft/rehner2023_hetero.json"), Some(ppath("pcsaft/rehner2023_hetero_binary.json")));
        let pe = GcPcSaftEosParameters::from_json_segments(&names, args3.0.clone(), args3.1.clone(), args3.2.clone(), IdentifierOption::Name);
        let pf = GcPcSaftFunctionalParameters::from_json_segments(&names, args3.0, args3.1, args3.2, IdentifierOption::Name);
        if let (Ok(pe), Ok(pf)) = (pe, pf) {
            let eos = Arc::new(GcPcSaft::new(Arc::new(pe)));
            let f = Arc::new(GcPcSaftFunctional::new(Arc::new(pf)));
            pair(&mut tr, &format!("GcPcSaftFunctional/GcPcSaft(rehner2023 + binary):{}", names.join("+")), "bulk", &f, &eos, 500.0, &mut rng, k);
        } else {
            tr.ev(json!({"ev":"Skip","pair":format!("GcPcSaftFunctional/GcPcSaft(rehner2023 + binary):{}", names.join("+")),"why":"parameters"}));
        }
    }
    // PeTS, SAFT-VRQ Mie
    {
        let p = Arc::new(from_json_str::<PetsParameters>(zoo::PETS2, &[((0, 1), r#"{"k_ij":0.02}"#)]));
        pair(&mut tr, "PetsFunctional/Pets", "bulk", &Arc::new(PetsFunctional::new(p.clone())), &Arc::new(Pets::new(p.clone())), 150.0, &mut rng, k);
        for (vn, ver) in [("KierlikRosinberg", FMTVersion::KierlikRosinberg), ("AntiSymWhiteBear", FMTVersion::AntiSymWhiteBear)] {
            pair(&mut tr, &format!("PetsFunctional({})/Pets", vn), "bulk", &Arc::new(PetsFunctional::new_full(p.clone(), ver)), &Arc::new(Pets::new(p.clone())), 150.0, &mut rng, k);
        }
        let q = Arc::new(SaftVRQMieParameters::from_json(vec!["hydrogen", "neon"], ppath("saftvrqmie/aasen2019.json"), Some(ppath("saftvrqmie/aasen2020_binary.json")), IdentifierOption::Name).unwrap());
        pair(&mut tr, "SaftVRQMieFunctional/SaftVRQMie", "bulk", &Arc::new(SaftVRQMieFunctional::new(q.clone())), &Arc::new(SaftVRQMie::new(q.clone())), 40.0, &mut rng, k);
        pair(&mut tr, "ResidualModel::SaftVRQMie/SaftVRQMie", "wrapper", &Arc::new(ResidualModel::SaftVRQMie(SaftVRQMie::new(q.clone()))), &Arc::new(SaftVRQMie::new(q)), 40.0, &mut rng, k);
    }
    // 7. ePC-SAFT without ions vs PC-SAFT
    {
        let recs = shipped("pcsaft/gross2001.json", &["propane", "butane"]);
        let e = Arc::new(ElectrolytePcSaft::new(Arc::new(from_json_str::<ElectrolytePcSaftParameters>(&recs, &[((0, 1), r#"{"k_ij":[0.02,0.0,0.0,0.0]}"#)]))));
        let p = Arc::new(PcSaft::new(Arc::new(from_json_str::<PcSaftParameters>(&recs, &[((0, 1), r#"{"k_ij":0.02}"#)]))));
        pair(&mut tr, "ElectrolytePcSaft(no ions)/PcSaft:propane+butane", "reimpl-exact", &e, &p, 400.0, &mut rng, k);
        let recs = shipped("pcsaft/gross2002.json", &["methanol"]);
        let e = Arc::new(ElectrolytePcSaft::new(Arc::new(from_json_str::<ElectrolytePcSaftParameters>(&recs, &[]))));
        let p = Arc::new(PcSaft::new(Arc::new(from_json_str::<PcSaftParameters>(&recs, &[]))));
        pair(&mut tr, "ElectrolytePcSaft(no ions)/PcSaft:methanol", "reimpl-exact", &e, &p, 512.0, &mut rng, k);
    }
    // 8. SAFT-VRQ Mie with Feynman-Hibbs order 0 vs SAFT-VR Mie for monomers
    {
        let vr = r#"[{"identifier":{"name":"a"},"molarweight":16.0,"model_record":{"m":1.0,"sigma":3.7412,"epsilon_k":153.36,"lr":12.65,"la":6.0}},
                     {"identifier":{"name":"b"},"molarweight":39.9,"model_record":{"m":1.0,"sigma":3.4,"epsilon_k":117.8,"lr":12.1,"la":6.0}}]"#;
        let vrq = r#"[{"identifier":{"name":"a"},"molarweight":16.0,"model_record":{"m":1.0,"sigma":3.7412,"epsilon_k":153.36,"lr":12.65,"la":6.0,"fh":0}},
                      {"identifier":{"name":"b"},"molarweight":39.9,"model_record":{"m":1.0,"sigma":3.4,"epsilon_k":117.8,"lr":12.1,"la":6.0,"fh":0}}]"#;
        // pure monomers only: for mixtures the two models differ by construction (SAFT-VRQ Mie evaluates the Barker-Henderson
        // diameter of the cross potential, SAFT-VR Mie uses the arithmetic mean), so they are not the same physical model
        for i in 0..2 {
            let one = |txt: &str| { let v: Vec<Value> = serde_json::from_str(txt).unwrap(); serde_json::to_string(&vec![v[i].clone()]).unwrap() };
            let a = Arc::new(SaftVRQMie::new(Arc::new(from_json_str::<SaftVRQMieParameters>(&one(vrq), &[]))));
            let b = Arc::new(SaftVRMie::new(Arc::new(from_json_str::<SaftVRMieParameters>(&one(vr), &[]))));
            pair(&mut tr, &format!("SaftVRQMie(FH0)/SaftVRMie:pure monomer {}", i), "reimpl-numeric", &a, &b, 150.0, &mut rng, k);
        }
    }
    // 10. homosegmented group contribution vs the combined record
    {
        let names = ["propane", "ethanol", "hexane"];
        if let Ok(p) = PcSaftParameters::from_json_segments(&names, ppath("pcsaft/gc_substances.json"), ppath("pcsaft/sauer2014_homo.json"), None, IdentifierOption::Name) {
            let (pure, bin) = p.records();
            let p2 = PcSaftParameters::from_records(pure.to_vec(), bin.cloned()).unwrap();
            pair(&mut tr, "PcSaft(from_segments)/PcSaft(combined records)", "wrapper", &Arc::new(PcSaft::new(Arc::new(p))), &Arc::new(PcSaft::new(Arc::new(p2))), 450.0, &mut rng, k);
        }
    }
    // 9. closed-form 2B association vs the iterative cross-association solver
    for (nm, p, ts) in &pcs {
        if !nm.contains("methanol") || nm.contains('+') {
            continue;
        }
        let analytic = Association::new(p, &p.association, 50, 1e-10);
        let cross = Association::new_cross_association(p, &p.association, 50, 1e-10);
        for _ in 0..(4 * k) {
            let t = ts * rng.lrange(0.5, 2.5);
            let rho = 0.02 * rng.lrange(1e-4, 0.9);
            let val = |a: &Association<PcSaftParameters>| -> (f64, f64, f64) {
                let st = StateHD::new(t, 1.0 / rho, Array1::from_vec(vec![1.0]));
                let d = p.hs_diameter(t);
                let a0 = a.helmholtz_energy(&st, &d);
                let stv = StateHD::new(Dual64::from(t), Dual64::from(1.0 / rho).derivative(), Array1::from_vec(vec![Dual64::from(1.0)]));
                let dv = a.helmholtz_energy(&stv, &p.hs_diameter(Dual64::from(t))).eps;
                let stt = StateHD::new(Dual64::from(t).derivative(), Dual64::from(1.0 / rho), Array1::from_vec(vec![Dual64::from(1.0)]));
                let dt = a.helmholtz_energy(&stt, &p.hs_diameter(Dual64::from(t).derivative())).eps;
                (a0, dv, dt)
            };
            let (a, b) = (val(&analytic), val(&cross));
            tr.ev(json!({"ev":"Assoc","pair":format!("analytic/cross-association:{}", nm),"T":fs(t),"rho":fs(rho),
                "analytic":fv([a.0, a.1, a.2].iter()),"cross":fv([b.0, b.1, b.2].iter())}));
        }
    }
    // 11. Peng-Robinson pressures vs the textbook closed form in SI units (PengRobinson.tla)
    let npr = if args.thorough { 400 } else { 40 };
    for i in 0..npr {
        let n = 1 + i % 3;
        let tc: Vec<f64> = (0..n).map(|_| rng.range(150.0, 650.0)).collect();
        let pcr: Vec<f64> = (0..n).map(|_| rng.range(2.0e6, 7.0e6)).collect();
        let w: Vec<f64> = (0..n).map(|_| rng.range(-0.05, 0.6)).collect();
        let kij = if n > 1 { rng.range(-0.05, 0.1) } else { 0.0 };
        let eos = Arc::new(zoo::peng_robinson(&tc, &pcr, &w, &vec![50.0; n], kij));
        let x = if n == 1 { vec![1.0] } else { rng.simplex(n) };
        let t = tc.iter().sum::<f64>() / n as f64 * rng.range(0.6, 2.0);
        let bmix: f64 = (0..n).map(|j| x[j] * 0.07780 * 8.31446261815324 * tc[j] / pcr[j]).sum();
        let vm = bmix * rng.lrange(1.3, 1.0e3); // molar volume in m3/mol
        let moles = Array1::from_vec(x.clone()) * MOL;
        if let Ok(s) = State::new_nvt(&eos, t * KELVIN, vm * METER.powi::<typenum::P3>(), &moles) {
            tr.ev(json!({"ev":"PengRobinsonSI","n":n,"tc":fv(tc.iter()),"pc":fv(pcr.iter()),"omega":fv(w.iter()),"kij":fs(kij),"x":fv(x.iter()),
                "T_K":fs(t),"v_m3mol":fs(vm),"p_Pa":fs(s.pressure(Contributions::Total).convert_into(PASCAL))}));
        }
    }
    let _ = PengRobinsonParameters::new_simple;
    let _ = PengRobinson::new;
    let n = tr.finish();
    println!("C08 trace: {} lines", n);
}
