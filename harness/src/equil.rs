//! Recorder for the phase-equilibrium properties C04 (pure VLE), C05 (mixtures), C06 (critical points, spinodals),
//! C07 (stability) and C12 (independence of initial guesses / continuation). It calls the solvers and records the
//! returned phases (and stand-alone re-solves with other guesses); the equilibrium conditions are in Equilibrium.tla.
use crate::red::*;
use crate::util::*;
use crate::zoo::{self, ppath};
use feos::pcsaft::{PcSaft, PcSaftParameters, PcSaftRecord};
use feos::saftvrmie::{SaftVRMie, SaftVRMieParameters, SaftVRMieRecord};
use feos::saftvrqmie::{SaftVRQMie, SaftVRQMieParameters, SaftVRQMieRecord};
use feos::ResidualModel;
use feos_core::parameter::{Parameter, PureRecord};
use feos_core::{Contributions, DensityInitialization, EosError, PhaseDiagram, PhaseEquilibrium, ReferenceSystem, Residual, SolverOptions, State};
use ndarray::{arr1, Array1};
use quantity::*;
use serde_json::{json, Value};
use std::sync::Arc;

type M = ResidualModel;
type St = State<M>;
const CT: Contributions = Contributions::Total;

pub fn err_name(e: &EosError) -> String {
    match e {
        EosError::NotConverged(_) => "NotConverged".into(),
        EosError::IterationFailed(_) => "IterationFailed".into(),
        EosError::TrivialSolution => "TrivialSolution".into(),
        EosError::SuperCritical => "SuperCritical".into(),
        EosError::NoPhaseSplit => "NoPhaseSplit".into(),
        EosError::UndeterminedState(_) => "Undetermined".into(),
        EosError::InvalidState(..) => "InvalidState".into(),
        o => format!("Other:{}", o),
    }
}

/// projection of one phase
pub fn phase(s: &St) -> Value {
    let t = s.temperature.to_reduced();
    json!({"T": fs(t), "p": fs(r0(s.pressure(CT))), "rho": fs(s.density.to_reduced()), "V": fs(s.volume.to_reduced()),
           "N": fv(s.moles.to_reduced().iter()), "x": fv(s.molefracs.iter()),
           "mu_res_T": fv(r1(s.residual_chemical_potential()).iter().map(|m| m / t).collect::<Vec<_>>().iter()),
           "ln_phi": fv(s.ln_phi().iter()),
           "dp_dv": fs(r0(s.dp_dv(CT))), "d2p_dv2": fs(r0(s.d2p_dv2(CT))),
           "dmu_dni_res": fm(&r2(s.dmu_dni(Contributions::Residual)))})
}
fn eq2(r: &Result<PhaseEquilibrium<M, 2>, EosError>) -> Value {
    match r {
        Ok(pe) => json!({"ok": true, "v": phase(pe.vapor()), "l": phase(pe.liquid())}),
        Err(e) => json!({"ok": false, "err": err_name(e)}),
    }
}
fn g<T>(f: impl FnOnce() -> Result<T, EosError>) -> Result<T, EosError> {
    match guarded(std::panic::AssertUnwindSafe(f)) {
        Ok(r) => r,
        Err(m) => Err(EosError::Error(format!("Panic:{}", m))),
    }
}
fn opts() -> SolverOptions {
    SolverOptions::default()
}

// ------------------------------------------------------------------------------------------------ pure models
pub struct Pure {
    pub name: String,
    pub eos: Arc<M>,
    /// in the calibrated domain of C04's success clause?
    pub calibrated: bool,
    /// lowest reduced temperature of the success clause
    pub tr_min: f64,
}

fn pure_models(args: &Args, rng: &mut Rng) -> Vec<Pure> {
    let mut v = vec![];
    let pc_files = ["pcsaft/gross2001.json", "pcsaft/gross2002.json", "pcsaft/gross2005_fit.json", "pcsaft/gross2005_literature.json", "pcsaft/gross2006.json",
        "pcsaft/esper2023.json", "pcsaft/loetgeringlin2018.json", "pcsaft/rehner2020.json", "pcsaft/eller2022.json"];
    for f in pc_files {
        let recs: Vec<PureRecord<PcSaftRecord>> = serde_json::from_str(&std::fs::read_to_string(ppath(f)).unwrap()).unwrap();
        let keep = if args.thorough { recs.len() } else { (recs.len() / 150).max(2) };
        let mut idx: Vec<usize> = (0..recs.len()).collect();
        rng.shuffle(&mut idx);
        let mut chosen: Vec<usize> = idx.iter().take(keep).cloned().collect();
        if !args.thorough {
            // the quick tier also visits the extremes of the parameter space of every file (longest chain, strongest
            // association, largest dipole / quadrupole, largest dispersion energy): where the solvers take their rare branches
            let raw: Vec<Value> = serde_json::from_str(&std::fs::read_to_string(ppath(f)).unwrap()).unwrap();
            for key in ["m", "epsilon_k_ab", "mu", "q", "epsilon_k"] {
                let mut best: Vec<(f64, usize)> = raw.iter().enumerate().filter_map(|(i, r)| r["model_record"][key].as_f64().map(|x| (x, i))).collect();
                best.sort_by(|a, b| b.0.partial_cmp(&a.0).unwrap());
                for (_, i) in best.iter().take(if f.contains("esper") { 3 } else { 1 }) {
                    if !chosen.contains(i) { chosen.push(*i); }
                }
            }
        }
        for &i in chosen.iter() {
            if let Ok(p) = PcSaftParameters::new_pure(recs[i].clone()) {
                v.push(Pure { name: format!("{}[{}]", f, i), eos: Arc::new(M::PcSaft(PcSaft::new(Arc::new(p)))), calibrated: true, tr_min: 0.45 });
            }
        }
    }
    {
        let f = "saftvrmie/lafitte2013.json";
        let recs: Vec<PureRecord<SaftVRMieRecord>> = serde_json::from_str(&std::fs::read_to_string(ppath(f)).unwrap()).unwrap();
        // quick tier: short and long alkanes, an alcohol, a perfluoroalkane, carbon dioxide
        let quick = [0usize, 2, 7, 12, 13, 22, 24];
        for (i, r) in recs.iter().enumerate().filter(|(i, _)| args.thorough || quick.contains(i)) {
            if let Ok(p) = SaftVRMieParameters::new_pure(r.clone()) {
                v.push(Pure { name: format!("{}[{}]", f, i), eos: Arc::new(M::SaftVRMie(SaftVRMie::new(Arc::new(p)))), calibrated: true, tr_min: 0.45 });
            }
        }
    }
    for f in ["saftvrqmie/aasen2019.json", "saftvrqmie/hammer2023.json", "saftvrqmie/aasen2019_fh2.json"] {
        let recs: Vec<PureRecord<SaftVRQMieRecord>> = serde_json::from_str(&std::fs::read_to_string(ppath(f)).unwrap()).unwrap();
        let keep = if args.thorough { recs.len() } else { 2 };
        for (i, r) in recs.iter().enumerate().take(keep) {
            let helium_fh2 = f.contains("fh2") && r.identifier.name.as_deref() == Some("helium");
            if let Ok(p) = SaftVRQMieParameters::new_pure(r.clone()) {
                v.push(Pure { name: format!("{}[{}]", f, i), eos: Arc::new(M::SaftVRQMie(SaftVRQMie::new(Arc::new(p)))), calibrated: !helium_fh2, tr_min: 0.6 });
            }
        }
    }
    // outside the success clause: conditions whenever Ok
    let nr = if args.thorough { 40 } else { 4 };
    for k in 0..nr {
        let (tc, pc, w) = (rng.range(150.0, 700.0), rng.range(1.0e6, 8.0e6), rng.range(-0.1, 0.6));
        v.push(Pure { name: format!("pr/random{}", k), eos: Arc::new(M::PengRobinson(zoo::peng_robinson(&[tc], &[pc], &[w], &[50.0], 0.0))), calibrated: false, tr_min: 0.45 });
    }
    for m in zoo::zoo(false) {
        if m.n == 1 && (m.family == "UVTheory" || m.family == "GcPcSaft") {
            v.push(Pure { name: m.name.clone(), eos: m.eos.clone(), calibrated: false, tr_min: 0.45 });
        }
    }
    {
        let p: feos::pets::PetsParameters = zoo::from_json_str(r#"[{"identifier":{"name":"a"},"molarweight":39.9,"model_record":{"sigma":3.4,"epsilon_k":120.0}}]"#, &[]);
        v.push(Pure { name: "pets/a".into(), eos: Arc::new(M::Pets(feos::pets::Pets::new(Arc::new(p)))), calibrated: false, tr_min: 0.45 });
    }
    v
}

fn pure_events(tr: &mut Tr, args: &Args, rng: &mut Rng) {
    for pm in pure_models(args, rng) {
        let eos = &pm.eos;
        let cp = g(|| State::critical_point(eos, None, None, opts()));
        let Ok(cp) = cp else {
            tr.ev(json!({"ev":"Critical","kind":"pure","case":pm.name,"calibrated":pm.calibrated,"ok":false,"err":err_name(&cp.err().unwrap()),"variants":[]}));
            continue;
        };
        let tc = cp.temperature;
        // C06: the critical point itself, and from other initial temperatures
        let mut variants = vec![];
        for f in [0.5, 0.8, 1.25, 1.6] {
            let r = g(|| State::critical_point(eos, None, Some(tc * f), opts()));
            variants.push(match &r {
                Ok(s) => json!({"f": fs(f), "ok": true, "T": fs(s.temperature.to_reduced()), "rho": fs(s.density.to_reduced()), "p": fs(r0(s.pressure(CT)))}),
                Err(e) => json!({"f": fs(f), "ok": false, "err": err_name(e)}),
            });
        }
        tr.ev(json!({"ev":"Critical","kind":"pure","case":pm.name,"calibrated":pm.calibrated,"ok":true,"state":phase(&cp),"variants":variants}));
        // C04/C12: VLE at several reduced temperatures
        // the grid of reduced temperatures on which the success clause of C04 was measured; the quick tier takes a
        // random half of the same grid, so that the (rare) known failures are the same inputs in both tiers
        let grid = [0.45, 0.55, 0.65, 0.75, 0.85, 0.92, 0.96, 0.99];
        // (the two ends of the grid are always visited)
        let trs: Vec<f64> = if args.thorough { grid.to_vec() } else { grid.iter().cloned().filter(|&x| x == 0.45 || x == 0.99 || rng.below(2) == 0).collect() };
        for trd in trs {
            if trd < pm.tr_min {
                continue;
            }
            let t = tc * trd;
            let r = g(|| PhaseEquilibrium::pure(eos, t, None, opts()));
            let mut ev = json!({"ev":"PureVle","case":pm.name,"calibrated":pm.calibrated,"Tr":fs(trd),"spec":"T","spec_val":fs(t.to_reduced()),"res":eq2(&r)});
            if let Ok(pe) = &r {
                let p = pe.vapor().pressure(CT);
                // inverse problem: solve at the resulting pressure
                let inv = g(|| PhaseEquilibrium::pure(eos, p, None, opts()));
                ev["inverse"] = eq2(&inv);
                // C12: with initial states from a scaled solution and from a neighbouring temperature
                let mut vs = vec![];
                for dtr in [-0.3f64, -0.1, 0.05] {
                    let t2 = tc * (trd + dtr).clamp(pm.tr_min.min(0.45), 0.995);
                    if let Ok(init) = g(|| PhaseEquilibrium::pure(eos, t2, None, opts())) {
                        let r2 = g(|| PhaseEquilibrium::pure(eos, t, Some(&init), opts()));
                        vs.push(json!({"guess": format!("solution at Tr{:+.2}", dtr), "res": eq2(&r2)}));
                        let r3 = g(|| PhaseEquilibrium::pure(eos, p, Some(&init), opts()));
                        vs.push(json!({"guess": format!("p-spec, solution at Tr{:+.2}", dtr), "res": eq2(&r3)}));
                    }
                }
                ev["guesses"] = Value::Array(vs);
            }
            tr.ev(ev);
        }
        // C04/C12: phase diagram vs stand-alone solves
        if rng.below(if args.thorough { 4 } else { 3 }) == 0 {
            let n = *rng.pick(&[3usize, 5, 10, 50, 200]);
            let n = if args.thorough { n } else { n.min(50) };
            let tmin = tc * pm.tr_min.max(*rng.pick(&[0.45, 0.55, 0.65]));
            let d = g(|| PhaseDiagram::pure(eos, tmin, n, None, opts()));
            match d {
                Ok(d) => {
                    let pts: Vec<Value> = d.states.iter().map(|s| json!({"T": fs(s.vapor().temperature.to_reduced()), "p": fs(r0(s.vapor().pressure(CT))), "pl": fs(r0(s.liquid().pressure(CT))),
                        "rv": fs(s.vapor().density.to_reduced()), "rl": fs(s.liquid().density.to_reduced())})).collect();
                    let alone: Vec<Value> = d.states.iter().take(d.states.len().saturating_sub(1)).step_by((d.states.len() / 12).max(1)).map(|s| {
                        let r = g(|| PhaseEquilibrium::pure(eos, s.vapor().temperature, None, opts()));
                        match r {
                            Ok(pe) => json!({"T": fs(s.vapor().temperature.to_reduced()), "ok": true, "p": fs(r0(pe.vapor().pressure(CT))), "rv": fs(pe.vapor().density.to_reduced()), "rl": fs(pe.liquid().density.to_reduced())}),
                            Err(e) => json!({"T": fs(s.vapor().temperature.to_reduced()), "ok": false, "err": err_name(&e)}),
                        }
                    }).collect();
                    // the same diagram requested with an initial value for the critical temperature (0.93 and 1.04 of the true one): the temperature
                    // grid and the states must not depend on it
                    let guessed: Vec<Value> = [0.93, 1.04].iter().map(|f| {
                        match g(|| PhaseDiagram::pure(eos, tmin, n, Some(tc * *f), opts())) {
                            Ok(dg) => json!({"f": fs(*f), "ok": true, "T": fv(dg.states.iter().map(|s| s.vapor().temperature.to_reduced()).collect::<Vec<_>>().iter()),
                                             "p": fv(dg.states.iter().map(|s| r0(s.vapor().pressure(CT))).collect::<Vec<_>>().iter())}),
                            Err(e) => json!({"f": fs(*f), "ok": false, "err": err_name(&e), "T": [], "p": []}),
                        }
                    }).collect();
                    tr.ev(json!({"ev":"PureDiagram","case":pm.name,"calibrated":pm.calibrated,"n":n,"ok":true,"Tmin_r":fs((tmin/tc).into_value()),"points":pts,"alone":alone,"crit":phase(&cp),"guessed":guessed}));
                }
                Err(e) => tr.ev(json!({"ev":"PureDiagram","case":pm.name,"calibrated":pm.calibrated,"n":n,"ok":false,"err":err_name(&e),"points":[],"alone":[]})),
            }
        }
        // C06: spinodal
        if rng.below(2) == 0 {
            let trd = *rng.pick(&[0.5, 0.6, 0.7, 0.8, 0.9, 0.99]);
            let t = tc * trd;
            let sp = g(|| State::spinodal(eos, t, None, opts()));
            let bin = g(|| PhaseEquilibrium::pure(eos, t, None, opts()));
            tr.ev(json!({"ev":"Spinodal","case":pm.name,"Tr":fs(trd),
                "res": match &sp { Ok([a, b]) => json!({"ok": true, "a": phase(a), "b": phase(b)}), Err(e) => json!({"ok": false, "err": err_name(e)}) },
                "rho_c": fs(cp.density.to_reduced()), "binodal": eq2(&bin)}));
        }
        // C07: pure states across the binodal
        if rng.below(2) == 0 {
            let trd = *rng.pick(&[0.65, 0.75, 0.85]);
            let t = tc * trd;
            if let Ok(pe) = g(|| PhaseEquilibrium::pure(eos, t, None, opts())) {
                let (rv, rl) = (pe.vapor().density, pe.liquid().density);
                for (f, expect) in [(0.5, "stable"), (0.9, "stable"), (1.3, "unstable"), (3.0, "unstable")] {
                    let rho = rv * f;
                    if f > 1.0 && rho >= rl * 0.8 { continue; }
                    stability_event(tr, &pm.name, eos, t, rho, &arr1(&[1.0]), expect);
                }
                let rho = rl * 0.9;
                if rho > rv * 1.2 { stability_event(tr, &pm.name, eos, t, rho, &arr1(&[1.0]), "unstable"); }
                stability_event(tr, &pm.name, eos, t, rl * 1.05, &arr1(&[1.0]), "stable");
            }
        }
    }
    // C06: Peng-Robinson critical point equals the (Tc, pc) the parameters were built from
    let nr = if args.thorough { 300 } else { 30 };
    for k in 0..nr {
        let (tc, pc, w) = (rng.range(100.0, 800.0), rng.lrange(5.0e5, 2.0e7), rng.range(-0.2, 0.9));
        let eos = Arc::new(M::PengRobinson(zoo::peng_robinson(&[tc], &[pc], &[w], &[50.0], 0.0)));
        let r = g(|| State::critical_point(&eos, None, None, opts()));
        let r2 = g(|| State::critical_point(&eos, None, Some(tc * rng.range(0.6, 1.5) * KELVIN), opts()));
        let f = |r: &Result<St, EosError>| match r {
            Ok(s) => json!({"ok": true, "T_K": fs(s.temperature.convert_into(KELVIN)), "p_Pa": fs(s.pressure(CT).convert_into(PASCAL))}),
            Err(e) => json!({"ok": false, "err": err_name(e)}),
        };
        tr.ev(json!({"ev":"CriticalPR","case":format!("pr#{}",k),"tc":fs(tc),"pc":fs(pc),"omega":fs(w),"default":f(&r),"with_t0":f(&r2)}));
    }
}

fn stability_event(tr: &mut Tr, case: &str, eos: &Arc<M>, t: Temperature, rho: Density, x: &Array1<f64>, expect: &str) {
    let moles = Moles::from_reduced(x.clone());
    let Ok(s) = State::new_nvt(eos, t, moles.sum() / rho, &moles) else { return };
    let r = g(|| s.stability_analysis(opts()));
    let st = g(|| s.is_stable(opts()));
    let res = match &r {
        Ok(tr_) => json!({"ok": true, "trials": tr_.iter().map(phase).collect::<Vec<_>>(), "is_stable": st.as_ref().ok()}),
        Err(e) => json!({"ok": false, "err": err_name(e)}),
    };
    tr.ev(json!({"ev":"Stability","case":case,"expect":expect,"state":phase(&s),"res":res}));
}

// ------------------------------------------------------------------------------------------------ mixtures
fn hydrocarbon_pairs(args: &Args, rng: &mut Rng) -> Vec<(String, Arc<M>, f64, f64)> {
    let recs: Vec<PureRecord<PcSaftRecord>> = serde_json::from_str(&std::fs::read_to_string(ppath("pcsaft/gross2001.json")).unwrap()).unwrap();
    let mut tcs = vec![];
    for r in &recs {
        let p = PcSaftParameters::new_pure(r.clone()).unwrap();
        let eos = Arc::new(PcSaft::new(Arc::new(p)));
        tcs.push(State::critical_point(&eos, None, None, opts()).map(|s| s.temperature.to_reduced()).unwrap_or(f64::NAN));
    }
    let mut pairs = vec![];
    for i in 0..recs.len() {
        for j in (i + 1)..recs.len() {
            let (a, b) = (tcs[i].min(tcs[j]), tcs[i].max(tcs[j]));
            if a.is_finite() && b / a < 1.5 && b / a > 1.05 {
                pairs.push((i, j));
            }
        }
    }
    rng.shuffle(&mut pairs);
    let keep = if args.thorough { pairs.len() } else { 12 };
    let mut out: Vec<(String, Arc<M>, f64, f64)> = pairs
        .into_iter()
        .take(keep)
        .map(|(i, j)| {
            let p = PcSaftParameters::new_binary(vec![recs[i].clone(), recs[j].clone()], None).unwrap();
            (format!("gross2001[{}+{}]", i, j), Arc::new(M::PcSaft(PcSaft::new(Arc::new(p)))), tcs[i].min(tcs[j]), tcs[i].max(tcs[j]))
        })
        .collect();
    // asymmetric pairs (critical temperature ratio 1.5 .. 1.8, still inside the domain of the success clause; both tiers visit their whole grid):
    // methane/ethane, ethane/hexane, propane/octane, carbon dioxide/hexane
    for (i, j) in [(0usize, 1usize), (1, 5), (2, 7), (54, 5)] {
        if tcs[i].is_finite() && tcs[j].is_finite() {
            let p = PcSaftParameters::new_binary(vec![recs[i].clone(), recs[j].clone()], None).unwrap();
            out.push((format!("asym:gross2001[{}+{}]", i, j), Arc::new(M::PcSaft(PcSaft::new(Arc::new(p)))), tcs[i].min(tcs[j]), tcs[i].max(tcs[j])));
        }
    }
    out
}

/// Bubble and dew point at (T, z) with guesses and the pressure specification, flashes strictly inside the envelope with warm starts, stability
/// verdicts on both sides, flash sweeps: everything C05 / C07 / C12 judge at one grid point of a mixture with any number of components.
fn point_events(tr: &mut Tr, name: &str, eos: &Arc<M>, calibrated: bool, t: Temperature, z: Array1<f64>, grid: &str) {
        // bubble and dew point at T
        let bub = g(|| PhaseEquilibrium::bubble_point(&eos, t, &z, None, None, (opts(), opts())));
        let dew = g(|| PhaseEquilibrium::dew_point(&eos, t, &z, None, None, (opts(), opts())));
        let mut guesses = vec![];
        if let Ok(b) = &bub {
            let pb = b.vapor().pressure(CT);
            for f in [0.4, 2.5] {
                let r = g(|| PhaseEquilibrium::bubble_point(&eos, t, &z, Some(pb * f), Some(&b.vapor().molefracs), (opts(), opts())));
                guesses.push(json!({"guess": format!("p_init x{}", f), "res": eq2(&r)}));
            }
            // pressure specification: must give back the temperature
            let r = g(|| PhaseEquilibrium::bubble_point(&eos, pb, &z, Some(t), None, (opts(), opts())));
            guesses.push(json!({"guess": "p-spec", "res": eq2(&r)}));
        }
        tr.ev(json!({"ev":"BubbleDew","kind":"bubble","case":name,"calibrated":calibrated,"grid":grid.to_owned(),"T":fs(t.to_reduced()),"z":fv(z.iter()),"res":eq2(&bub),"guesses":guesses}));
        let mut guesses = vec![];
        if let Ok(d) = &dew {
            let pd = d.vapor().pressure(CT);
            for f in [0.4, 2.5] {
                let r = g(|| PhaseEquilibrium::dew_point(&eos, t, &z, Some(pd * f), Some(&d.liquid().molefracs), (opts(), opts())));
                guesses.push(json!({"guess": format!("p_init x{}", f), "res": eq2(&r)}));
            }
            let r = g(|| PhaseEquilibrium::dew_point(&eos, pd, &z, Some(t), None, (opts(), opts())));
            guesses.push(json!({"guess": "p-spec", "res": eq2(&r)}));
        }
        tr.ev(json!({"ev":"BubbleDew","kind":"dew","case":name,"calibrated":calibrated,"grid":grid.to_owned(),"T":fs(t.to_reduced()),"z":fv(z.iter()),"res":eq2(&dew),"guesses":guesses}));
        // flash strictly inside the envelope, and stability on both sides
        if let (Ok(b), Ok(d)) = (&bub, &dew) {
            let (pb, pd) = (b.vapor().pressure(CT), d.vapor().pressure(CT));
            let feed = Moles::from_reduced(&z * 1.7);
            for w in [0.25, 0.6] {
                let p = pd + (pb - pd) * w;
                let fl = g(|| PhaseEquilibrium::tp_flash(&eos, t, p, &feed, None, opts(), None));
                let mut guesses = vec![];
                if let Ok(f0) = &fl {
                    let r = g(|| PhaseEquilibrium::tp_flash(&eos, t, p, &feed, Some(b), opts(), None));
                    guesses.push(json!({"guess": "bubble point as initial state", "res": eq2(&r)}));
                    let r = g(|| PhaseEquilibrium::tp_flash(&eos, t, p, &feed, Some(f0), opts(), None));
                    guesses.push(json!({"guess": "own solution as initial state", "res": eq2(&r)}));
                    // initial states that belong to OTHER conditions (warm start from a neighbouring point)
                    for (gn, t2, p2) in [("flash at 0.985 T as initial state", t * 0.985, p), ("flash at 1.01 T as initial state", t * 1.01, p),
                                         ("flash at shifted p as initial state", t, pd + (pb - pd) * (1.0 - w))] {
                        if let Ok(f2) = g(|| PhaseEquilibrium::tp_flash(&eos, t2, p2, &feed, None, opts(), None)) {
                            let r = g(|| PhaseEquilibrium::tp_flash(&eos, t, p, &feed, Some(&f2), opts(), None));
                            guesses.push(json!({"guess": gn, "res": eq2(&r)}));
                        }
                    }
                    // a flash of ANOTHER feed at the same T and p (a point of the same tie line for a binary): its phases already satisfy the equilibrium
                    // conditions, only the amounts belong to the other feed (sweeps over the feed composition at fixed T, p are warm-started like this)
                    {
                        let zo = &f0.vapor().molefracs * 0.45 + &f0.liquid().molefracs * 0.55;
                        let other = Moles::from_reduced(&zo * 1.7);
                        let tight = opts().tol(1e-12);
                        if let Ok(fo) = g(|| PhaseEquilibrium::tp_flash(&eos, t, p, &other, None, tight, None)) {
                            let r = g(|| PhaseEquilibrium::tp_flash(&eos, t, p, &feed, Some(&fo), opts(), None));
                            guesses.push(json!({"guess": "flash of another feed at the same T and p as initial state", "res": eq2(&r)}));
                        }
                    }
                    // C07: converged phases are stable
                    for ph in [f0.vapor(), f0.liquid()] {
                        stability_event(tr, name, &eos, ph.temperature, ph.density, &ph.molefracs, "stable");
                    }
                }
                tr.ev(json!({"ev":"Flash","case":name,"calibrated":calibrated,"grid":format!("{},w={}",grid,w),"T":fs(t.to_reduced()),"p":fs(p.to_reduced()),"feed":fv(feed.to_reduced().iter()),
                    "inside": fs(w), "res":eq2(&fl),"guesses":guesses}));
                // C07: the feed itself at (T,p) strictly inside the envelope is unstable
                if let Ok(s) = State::new_npt(&eos, t, p, &feed, DensityInitialization::None) {
                    stability_event(tr, name, &eos, t, s.density, &z, "unstable");
                }
            }
            // sweeps of warm-started flashes (PhaseDiagram::lle): in T at fixed p and in p at fixed T
            {
                let p = pd + (pb - pd) * 0.5;
                let np = 5;
                let (t0, t1) = (t * 0.99, t * 1.01);
                if let Ok(d) = g(|| PhaseDiagram::lle(&eos, p, &feed, t0, t1, Some(np))) {
                    tr.ev(json!({"ev":"FlashSweep","case":name,"vary":"T","fixed":fs(p.to_reduced()),"min":fs(t0.to_reduced()),"max":fs(t1.to_reduced()),"npoints":np,
                        "feed":fv(feed.to_reduced().iter()),"states":d.states.iter().map(|s| json!({"v": phase(s.vapor()), "l": phase(s.liquid())})).collect::<Vec<_>>()}));
                }
                let (p0, p1) = (pd + (pb - pd) * 0.3, pd + (pb - pd) * 0.7);
                if let Ok(d) = g(|| PhaseDiagram::lle(&eos, t, &feed, p0, p1, Some(np))) {
                    tr.ev(json!({"ev":"FlashSweep","case":name,"vary":"p","fixed":fs(t.to_reduced()),"min":fs(p0.to_reduced()),"max":fs(p1.to_reduced()),"npoints":np,
                        "feed":fv(feed.to_reduced().iter()),"states":d.states.iter().map(|s| json!({"v": phase(s.vapor()), "l": phase(s.liquid())})).collect::<Vec<_>>()}));
                }
            }
            for (p, ex) in [(pb * 1.02, "stable"), (pd * 0.98, "stable")] {
                if let Ok(s) = State::new_npt(&eos, t, p, &feed, DensityInitialization::None) {
                    stability_event(tr, name, &eos, t, s.density, &z, ex);
                    let fl = g(|| PhaseEquilibrium::tp_flash(&eos, t, p, &feed, None, opts(), None));
                    tr.ev(json!({"ev":"FlashOutside","case":name,"T":fs(t.to_reduced()),"p":fs(p.to_reduced()),"res":eq2(&fl)}));
                }
            }
        }
}

/// The eigenvector u of the smallest eigenvalue of the scaled Hessian M_ij = delta_ij + sqrt(n_i n_j) (dmu_i/dn_j)_res / T of a binary state, and the four
/// states at n_i + k eps u_i sqrt(n_i), k = -2, -1, 1, 2 (same T and V): the stencil of the second criticality condition.
fn crit_probe(eos: &Arc<M>, s: &State<M>) -> (Vec<f64>, f64, Vec<Value>) {
    let h = r2(s.dmu_dni(Contributions::Residual));
    let t = s.temperature.to_reduced();
    let n = s.moles.to_reduced();
    let m = |i: usize, j: usize| (if i == j { 1.0 } else { 0.0 }) + (n[i] * n[j]).sqrt() * h[(i, j)] / t;
    let (a, b, d) = (m(0, 0), m(0, 1), m(1, 1));
    let lam = 0.5 * (a + d) - (0.25 * (a - d) * (a - d) + b * b).sqrt();
    let (mut u0, mut u1) = (b, lam - a);
    if u0.abs() + u1.abs() < 1e-12 { u0 = lam - d; u1 = b; }
    let nu = (u0 * u0 + u1 * u1).sqrt();
    let (u0, u1) = (u0 / nu, u1 / nu);
    let eps = 1e-3;
    let mut nb = vec![];
    for k in [-2.0f64, -1.0, 1.0, 2.0] {
        let nn = arr1(&[n[0] + k * eps * u0 * n[0].sqrt(), n[1] + k * eps * u1 * n[1].sqrt()]);
        if let Ok(s2) = State::new_nvt(eos, s.temperature, s.volume, &Moles::from_reduced(nn)) { nb.push(phase(&s2)); }
    }
    (vec![u0, u1], eps, nb)
}

fn mixture_events(tr: &mut Tr, args: &Args, rng: &mut Rng) {
    let mut systems = hydrocarbon_pairs(args, rng);
    // other families: conditions whenever Ok (not part of the success clause)
    for m in zoo::zoo(false) {
        if m.n == 2 && ["pr/propane+butane(kij)", "saftvrmie/methane+ethane(kij)", "gcpcsaft/ethanol+hexane", "pets/a+b", "uv/wca"].contains(&m.name.as_str()) {
            let tcs = State::critical_point_pure(&m.eos, None, opts()).map(|v| v.iter().map(|s| s.temperature.to_reduced()).collect::<Vec<_>>());
            if let Ok(tcs) = tcs {
                systems.push((format!("other:{}", m.name), m.eos.clone(), tcs[0].min(tcs[1]), tcs[0].max(tcs[1])));
            }
        }
    }
    for (name, eos, tc_lo, _tc_hi) in systems {
        let calibrated = !name.starts_with("other:");
        // Fixed grid (the one the success clause of C05 is stated on): T / Tc_lower in {0.65, 0.775, 0.9}, x1 in
        // {0.05, 0.35, 0.65, 0.95}. The thorough tier visits all 12 points of every system, the quick tier a seeded
        // subset of the SAME grid - so every (rare) known failure is a fixed, listable input in both tiers.
        let mut grid = vec![];
        for tf in [0.65, 0.775, 0.9] {
            for x1 in [0.05, 0.35, 0.65, 0.95] {
                grid.push((tf, x1));
            }
        }
        if !args.thorough && !name.starts_with("asym:") {
            rng.shuffle(&mut grid);
            grid.truncate(2);
        }
        for (tf, x1) in grid {
            let t = Temperature::from_reduced(tc_lo * tf);
            let z = arr1(&[x1, 1.0 - x1]);
            point_events(tr, &name, &eos, calibrated, t, z, &format!("T/Tc={},x1={}", tf, x1));
        }
        // binary critical points (C06) and diagrams (C05/C12) on a subset
        if args.thorough || rng.below(3) == 0 {
            let x1 = 0.4;
            let moles = Moles::from_reduced(arr1(&[x1, 1.0 - x1]));
            let r = g(|| State::critical_point(&eos, Some(&moles), None, opts()));
            let mut ev = json!({"ev":"Critical","kind":"binary","case":name,"calibrated":calibrated,"ok":r.is_ok(),"variants":[]});
            if let Ok(s) = &r {
                ev["state"] = phase(s);
                // neighbours along the eigenvector of the scaled Hessian, for the second criticality condition
                let (u, eps, nb) = crit_probe(&eos, s);
                ev["u"] = fv(u.iter());
                ev["eps"] = fs(eps);
                ev["neighbours"] = Value::Array(nb);
                // given T and given p
                let rt = g(|| State::critical_point_binary(&eos, s.temperature, None, Some([x1, 1.0 - x1]), opts()));
                let rp = g(|| State::critical_point_binary(&eos, s.pressure(CT), Some(s.temperature * 0.95), Some([x1, 1.0 - x1]), opts()));
                // a critical point returned for a given T or p is a critical point: the same probe along its own eigenvector
                let with_probe = |r: &Result<State<M>, EosError>| match r {
                    Ok(q) => { let (u, eps, nb) = crit_probe(&eos, q); json!({"ok": true, "state": phase(q), "u": fv(u.iter()), "eps": fs(eps), "neighbours": nb}) }
                    Err(e) => json!({"ok": false, "err": err_name(e)}),
                };
                ev["at_T"] = with_probe(&rt);
                ev["at_p"] = with_probe(&rp);
                // more critical points at given pressure, away from the composition above (the pressure of the critical point at x1 = 0.2, 0.7)
                let mut more = vec![];
                for xq in [0.2, 0.7] {
                    let mq = Moles::from_reduced(arr1(&[xq, 1.0 - xq]));
                    if let Ok(sq) = g(|| State::critical_point(&eos, Some(&mq), None, opts())) {
                        let rq = g(|| State::critical_point_binary(&eos, sq.pressure(CT), Some(sq.temperature * 0.97), Some([xq, 1.0 - xq]), opts()));
                        let mut w = with_probe(&rq);
                        w["p_spec"] = fs(sq.pressure(CT).to_reduced());
                        w["x_ref"] = fs(xq);
                        more.push(w);
                    }
                }
                ev["at_p_more"] = Value::Array(more);
            } else {
                ev["err"] = json!(err_name(r.as_ref().err().unwrap()));
            }
            tr.ev(ev);
        }
        if rng.below(if args.thorough { 4 } else { 4 }) == 0 {
            let t = Temperature::from_reduced(tc_lo * 0.8);
            let np = if args.thorough { *rng.pick(&[5usize, 11, 51]) } else { 11 };
            if let Ok(d) = g(|| PhaseDiagram::binary_vle(&eos, t, Some(np), None, (opts(), opts()))) {
                let mut pts = vec![];
                for s in d.states.iter().step_by((d.states.len() / 8).max(1)) {
                    let x = s.liquid().molefracs.clone();
                    let alone = if x[0] > 1e-6 && x[1] > 1e-6 { Some(g(|| PhaseEquilibrium::bubble_point(&eos, t, &x, None, None, (opts(), opts())))) } else { None };
                    pts.push(json!({"v": phase(s.vapor()), "l": phase(s.liquid()), "alone": alone.as_ref().map(eq2).unwrap_or(json!({"ok": false, "err": "pure end point"}))}));
                }
                tr.ev(json!({"ev":"BinaryDiagram","case":name,"T":fs(t.to_reduced()),"npoints":np,"nstates":d.states.len(),"points":pts}));
            }
        }
        // a spinodal line at a non-equimolar composition in both tiers (no random draw: the four asymmetric pairs)
        if name.starts_with("asym:") {
            let z = arr1(&[0.2, 0.8]);
            let moles = Moles::from_reduced(z.clone());
            let tmin = Temperature::from_reduced(tc_lo * 0.7);
            match g(|| PhaseDiagram::spinodal(&eos, &moles, tmin, 6, None, opts())) {
                Ok(d) => {
                    let pts: Vec<Value> = d.states.iter().map(|s| json!({"v": phase(s.vapor()), "l": phase(s.liquid())})).collect();
                    tr.ev(json!({"ev":"EnvelopeLine","case":name,"kind":"spinodal","z":fv(z.iter()),"Tmin":fs(tmin.to_reduced()),"npoints":6,"ok":true,"points":pts}));
                }
                Err(e) => tr.ev(json!({"ev":"EnvelopeLine","case":name,"kind":"spinodal","z":fv(z.iter()),"Tmin":fs(tmin.to_reduced()),"npoints":6,"ok":false,"err":err_name(&e),"points":[]})),
            }
        }
        // phase envelope at fixed composition: bubble-point line, dew-point line, spinodal line (continuation in temperature up to the critical point)
        if rng.below(if args.thorough { 3 } else { 4 }) == 0 {
            let x1 = *rng.pick(&[0.2, 0.5, 0.8]);
            let z = arr1(&[x1, 1.0 - x1]);
            let moles = Moles::from_reduced(z.clone());
            let tmin = Temperature::from_reduced(tc_lo * 0.7);
            let np = *rng.pick(&[6usize, 12]);
            for kind in ["bubble", "dew", "spinodal"] {
                let d = match kind {
                    "bubble" => g(|| PhaseDiagram::bubble_point_line(&eos, &moles, tmin, np, None, (opts(), opts()))),
                    "dew" => g(|| PhaseDiagram::dew_point_line(&eos, &moles, tmin, np, None, (opts(), opts()))),
                    _ => g(|| PhaseDiagram::spinodal(&eos, &moles, tmin, np, None, opts())),
                };
                match d {
                    Ok(d) => {
                        let pts: Vec<Value> = d.states.iter().map(|s| {
                            let t = s.vapor().temperature;
                            let alone = match kind {
                                "bubble" => Some(g(|| PhaseEquilibrium::bubble_point(&eos, t, &z, None, None, (opts(), opts())))),
                                "dew" => Some(g(|| PhaseEquilibrium::dew_point(&eos, t, &z, None, None, (opts(), opts())))),
                                _ => None,
                            };
                            let mut p = json!({"v": phase(s.vapor()), "l": phase(s.liquid())});
                            if let Some(a) = alone { p["alone"] = eq2(&a); }
                            p
                        }).collect();
                        tr.ev(json!({"ev":"EnvelopeLine","case":name,"kind":kind,"z":fv(z.iter()),"Tmin":fs(tmin.to_reduced()),"npoints":np,"ok":true,"points":pts}));
                    }
                    Err(e) => tr.ev(json!({"ev":"EnvelopeLine","case":name,"kind":kind,"z":fv(z.iter()),"Tmin":fs(tmin.to_reduced()),"npoints":np,"ok":false,"err":err_name(&e),"points":[]})),
                }
            }
        }
    }
}

// ------------------------------------------------------------------------------------------------ ternary mixtures
/// Ternary PC-SAFT mixtures of shipped records (the quantifier of C05 / C07 / C12 names binary AND ternary mixtures): the same grid-point events
/// as for binaries at three compositions and two temperatures; not part of the success clause ("found"), conditions whenever Ok.
fn ternary_events(tr: &mut Tr, args: &Args, _rng: &mut Rng) {
    let triples: Vec<[&str; 3]> = if args.thorough {
        vec![["propane", "butane", "pentane"], ["methane", "ethane", "propane"], ["hexane", "heptane", "octane"], ["carbon dioxide", "propane", "butane"]]
    } else { vec![["propane", "butane", "pentane"], ["methane", "ethane", "propane"]] };
    for names in triples {
        let Ok(par) = guarded(std::panic::AssertUnwindSafe(|| PcSaftParameters::from_json(names.to_vec(), ppath("pcsaft/gross2001.json"), None, feos_core::parameter::IdentifierOption::Name))) else { continue };
        let Ok(par) = par else { continue };
        let eos = Arc::new(M::PcSaft(PcSaft::new(Arc::new(par))));
        let Ok(tcs) = State::critical_point_pure(&eos, None, opts()) else { continue };
        let tc_lo = tcs.iter().map(|s| s.temperature.to_reduced()).fold(f64::INFINITY, f64::min);
        let name = format!("tern:gross2001/{}+{}+{}", names[0], names[1], names[2]);
        let temps: Vec<f64> = if args.thorough { vec![0.7, 0.85] } else { vec![0.8] };
        let comps: Vec<[f64; 3]> = if args.thorough { vec![[1.0 / 3.0, 1.0 / 3.0, 1.0 / 3.0], [0.6, 0.3, 0.1], [0.1, 0.3, 0.6], [0.05, 0.9, 0.05]] } else { vec![[0.5, 0.3, 0.2], [0.1, 0.3, 0.6], [0.05, 0.9, 0.05]] };
        for tf in &temps {
            for z in &comps {
                let t = Temperature::from_reduced(tc_lo * tf);
                point_events(tr, &name, &eos, false, t, arr1(&z[..]), &format!("T/Tc={},z=({:.2},{:.2},{:.2})", tf, z[0], z[1], z[2]));
            }
        }
    }
}

// ------------------------------------------------------------------------------------------------ flash with non-volatile components
/// ePC-SAFT water + Na+ + Cl-: Tp flash with the ions declared non-volatile, started from (pure water vapor, feed liquid). The library finds a split only
/// in a narrow band below the vapor pressure of water; every returned result is judged (no success clause): ions absent from the vapor, isofugacity of water,
/// material balance, specification kept.
fn nonvolatile_events(tr: &mut Tr, args: &Args, _rng: &mut Rng) {
    let Some(m) = zoo::zoo(false).into_iter().find(|m| m.name == "epcsaft/water+NaCl") else { return };
    let eos = m.eos.clone();
    let temps: Vec<f64> = if args.thorough { vec![333.15, 353.15, 373.15, 393.15, 423.15] } else { vec![353.15, 393.15] };
    for tk in temps {
        let t = Temperature::from_reduced(tk);
        let Some(Some(psat)) = PhaseEquilibrium::vapor_pressure(&eos, t).first().cloned() else { continue };
        for xs in [0.005, 0.01, 0.03] {
            let z = arr1(&[1.0 - 2.0 * xs, xs, xs]);
            let feed = Moles::from_reduced(&z * 2.0);
            for f in [0.7, 0.8, 0.85, 0.9, 0.93, 0.96, 0.98, 0.995] {
                let p = psat * f;
                let init = g(|| PhaseEquilibrium::new_npt(&eos, t, p, &Moles::from_reduced(arr1(&[1.0, 1e-10, 1e-10])), &Moles::from_reduced(z.clone())));
                let Ok(init) = init else { continue };
                let r = g(|| PhaseEquilibrium::tp_flash(&eos, t, p, &feed, Some(&init), opts(), Some(vec![1, 2])));
                tr.ev(json!({"ev":"FlashNvc","case":"epcsaft/water+NaCl","T":fs(tk),"p":fs(p.to_reduced()),"feed":fv(feed.to_reduced().iter()),"nonvolatile":[2, 3],
                    "grid":format!("x_salt={},p/psat={}", xs, f),"res":eq2(&r)}));
            }
        }
    }
}

// ------------------------------------------------------------------------------------------------ liquid-liquid systems
/// Partially miscible systems (water / alkane, methanol / cyclohexane): the two liquid phases from a flash of the equimolar feed span a tie line;
/// feeds z = x_a + lambda (x_b - x_a) with lambda in (0,1) are strictly inside the two-phase region (unstable, the flash must split into the same two
/// phases), feeds slightly beyond either end are single-phase (stable).
fn lle_events(tr: &mut Tr, args: &Args, rng: &mut Rng) {
    use crate::zoo::{from_json_str, shipped};
    let rec = |file: &str, name: &str| -> Value { serde_json::from_str::<Vec<Value>>(&shipped(file, &[name])).unwrap()[0].clone() };
    let systems: Vec<(&str, Vec<Value>, f64, Vec<f64>)> = vec![
        ("water_4C_polar+hexane", vec![rec("pcsaft/rehner2020.json", "water_4C_polar"), rec("pcsaft/gross2001.json", "hexane")], 0.0, vec![290.0, 320.0]),
        ("water_2B+octane", vec![rec("pcsaft/rehner2020.json", "water_2B"), rec("pcsaft/gross2001.json", "octane")], 0.0, vec![300.0, 340.0]),
        ("methanol+cyclohexane", vec![rec("pcsaft/gross2002.json", "methanol"), rec("pcsaft/gross2001.json", "cyclohexane")], 0.051, vec![280.0, 300.0]),
    ];
    for (name, recs, kij, temps) in systems {
        // the quick tier keeps to the first system
        if !args.thorough && !name.starts_with("water_4C_polar") { continue; }
        let kj = format!("{{\"k_ij\":{}}}", kij);
        let Ok(p) = guarded(std::panic::AssertUnwindSafe(|| Arc::new(from_json_str::<PcSaftParameters>(&serde_json::to_string(&recs).unwrap(), &[((0, 1), kj.as_str())])))) else { continue };
        let eos = Arc::new(M::PcSaft(PcSaft::new(p)));
        for &tk in &temps {
            for pbar in [1.0, 5.0] {
                let t = Temperature::from_reduced(tk);
                let p = pbar * BAR;
                let feed = Moles::from_reduced(arr1(&[0.5, 0.5]));
                let Ok(f0) = g(|| PhaseEquilibrium::tp_flash(&eos, t, p, &feed, None, opts(), None)) else {
                    tr.ev(json!({"ev":"LleSkip","case":name,"T":fs(tk),"why":"equimolar flash did not split"})); continue };
                let (xa, xb) = (f0.vapor().molefracs.clone(), f0.liquid().molefracs.clone());
                // any two-phase split of a binary at fixed (T, p) spans a tie line; require clearly different phases
                if (xa[0] - xb[0]).abs() < 0.2 { tr.ev(json!({"ev":"LleSkip","case":name,"T":fs(tk),"why":"phases too similar"})); continue; }
                let case = format!("lle:{}:{}K:{}bar", name, tk, pbar);
                if pbar == 1.0 {
                    // three-phase equilibrium at this temperature, started from the two liquid compositions
                    let xi = (xa[0].min(xb[0]), xa[0].max(xb[0]));
                    let h = g(|| PhaseEquilibrium::heteroazeotrope(&eos, t, xi, None, opts(), (opts(), opts())));
                    let ev = match &h {
                        Ok(h) => json!({"ev":"Hetero","case":case,"T":fs(tk),"x_init":fv([xi.0, xi.1].iter()),"ok":true,"v":phase(h.vapor()),"l1":phase(h.liquid1()),"l2":phase(h.liquid2())}),
                        Err(e) => json!({"ev":"Hetero","case":case,"T":fs(tk),"x_init":fv([xi.0, xi.1].iter()),"ok":false,"err":err_name(e)}),
                    };
                    tr.ev(ev);
                    if let Ok(h) = &h {
                        // and at the pressure found, specified the other way round
                        let ph = h.vapor().pressure(CT);
                        let h2 = g(|| PhaseEquilibrium::heteroazeotrope(&eos, ph, xi, Some(t * 0.98), opts(), (opts(), opts())));
                        if let Ok(h2) = &h2 {
                            tr.ev(json!({"ev":"Hetero","case":format!("{}(p specified)", case),"T":fs(tk),"x_init":fv([xi.0, xi.1].iter()),"ok":true,"v":phase(h2.vapor()),"l1":phase(h2.liquid1()),"l2":phase(h2.liquid2()),
                                "same_as":{"v":phase(h.vapor()),"l1":phase(h.liquid1()),"l2":phase(h.liquid2())}}));
                        }
                    }
                }
                for lam in [0.005, 0.01, 0.02, 0.1, 0.3, 0.5, 0.7, 0.9, 0.98, 0.99, 0.995] {
                    let z = &xa + &((&xb - &xa) * lam);
                    let zf = Moles::from_reduced(z.clone());
                    let fl = g(|| PhaseEquilibrium::tp_flash(&eos, t, p, &zf, None, opts(), None));
                    tr.ev(json!({"ev":"Flash","case":case,"calibrated":false,"grid":format!("tie line lambda={}", lam),"T":fs(tk),"p":fs(p.to_reduced()),"feed":fv(zf.to_reduced().iter()),
                        "inside": fs(lam), "res":eq2(&fl),"guesses":[]}));
                    if let Ok(s) = State::new_npt(&eos, t, p, &zf, DensityInitialization::None) {
                        stability_event(tr, &case, &eos, t, s.density, &z, "unstable");
                    }
                }
                // converged phases are stable; slightly beyond the ends of the tie line the feed is one stable liquid
                for ph in [f0.vapor(), f0.liquid()] {
                    stability_event(tr, &case, &eos, ph.temperature, ph.density, &ph.molefracs, "stable");
                }
                for lam in [-0.05, 1.05] {
                    let z = &xa + &((&xb - &xa) * lam);
                    if z.iter().any(|&v| v <= 0.0) { continue; }
                    let zf = Moles::from_reduced(z.clone());
                    if let Ok(s) = State::new_npt(&eos, t, p, &zf, DensityInitialization::None) {
                        stability_event(tr, &case, &eos, t, s.density, &z, "stable");
                    }
                }
            }
        }
    }
}

pub fn run(args: &Args) {
    let mut tr = Tr::create(&args.out);
    let mut rng = Rng::new(args.seed ^ 0x04);
    let which = args.extra.first().map(|s| s.as_str()).unwrap_or("all");
    if which == "all" || which == "pure" {
        pure_events(&mut tr, args, &mut rng);
    }
    if which == "all" || which == "mix" {
        mixture_events(&mut tr, args, &mut rng);
        ternary_events(&mut tr, args, &mut rng);
        nonvolatile_events(&mut tr, args, &mut rng);
    }
    if which == "all" || which == "mix" || which == "lle" {
        lle_events(&mut tr, args, &mut rng);
    }
    let n = tr.finish();
    println!("equilibrium trace: {} lines", n);
}
