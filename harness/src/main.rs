#![recursion_limit = "512"]
mod c03;
mod c08;
mod c09;
mod c11;
mod c14;
mod c15;
mod c16;
mod c17;
mod c18;
mod c19;
mod dftzoo;
mod c20;
mod c14seg;
mod equil;
mod igcp;
mod mspec;
mod red;
mod rr;
mod tpflash;
mod bubbledew;
mod vlepure;
mod stability;
mod thermo;
mod util;
mod virial;
mod zoo;

fn main() {
    let args = util::parse_args();
    match args.cmd.as_str() {
        "c03" => c03::run(&args),
        "c08" => c08::run(&args),
        "c09" => c09::run(&args),
        "c11" => c11::run(&args),
        "c14" => c14::run(&args),
        "c15" => c15::run(&args),
        "c16" => c16::run(&args),
        "c17" => c17::run(&args),
        "dbg17" => c17::debug(&args),
        "c18" => c18::run(&args),
        "c19" => c19::run(&args),
        "c20" => c20::run(&args),
        "rr" => rr::run(&args),
        "tpflash" => tpflash::run(&args),
        "bubbledew" => bubbledew::run(&args),
        "vlepure" => vlepure::run(&args),
        "stability" => stability::run(&args),
        "thermo" => thermo::run(&args),
        "igcp" => igcp::run(&args),
        "equil" => equil::run(&args),
        "virial" => virial::run(&args),
        "zoo" => {
            for m in zoo::zoo(true) {
                println!("{} n={} family={}", m.name, m.n, m.family);
            }
        }
        other => {
            eprintln!("unknown command {:?}", other);
            std::process::exit(2);
        }
    }
}
