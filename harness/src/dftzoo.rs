//! Helmholtz energy functionals and bulk states used by the DFT recorders (C16-C19).
use crate::zoo::{from_json_str, ppath, shipped};
use feos::gc_pcsaft::{GcPcSaftFunctional, GcPcSaftFunctionalParameters};
use feos::hard_sphere::{FMTFunctional, FMTVersion};
use feos::pcsaft::{PcSaftFunctional, PcSaftParameters};
use feos::pets::{PetsFunctional, PetsParameters};
use feos::saftvrqmie::{SaftVRQMieFunctional, SaftVRQMieParameters};
use feos::ResidualModel;
use feos_core::parameter::{IdentifierOption, Parameter, ParameterHetero};
use feos_core::{PhaseEquilibrium, ReferenceSystem, SolverOptions, State};
use ndarray::{arr1, Array1};
use quantity::*;
use std::sync::Arc;

pub type F = ResidualModel;

pub struct Func {
    pub name: String,
    pub f: Arc<F>,
    /// a subcritical temperature (K) with a wide two-phase region
    pub t: f64,
    pub n: usize,
    pub chain: bool,
}

fn pcp(names: &[&str], file: &str) -> Arc<PcSaftParameters> {
    Arc::new(from_json_str::<PcSaftParameters>(&shipped(file, names), &[]))
}

pub fn functionals(thorough: bool) -> Vec<Func> {
    let mut v = vec![];
    let mut push = |name: &str, f: F, t: f64, n: usize, chain: bool| v.push(Func { name: name.to_owned(), f: Arc::new(f), t, n, chain });
    for (vn, ver) in [("WhiteBear", FMTVersion::WhiteBear), ("KierlikRosinberg", FMTVersion::KierlikRosinberg), ("AntiSymWhiteBear", FMTVersion::AntiSymWhiteBear)] {
        push(&format!("FMT({})", vn), F::FmtFunctional(FMTFunctional::new(&arr1(&[1.0]), ver)), 1.0, 1, false);
        // mixtures exercise the per-segment bookkeeping of the convolvers (vector weight functions for the White Bear versions)
        if thorough || vn == "WhiteBear" {
            push(&format!("FMT({}) binary", vn), F::FmtFunctional(FMTFunctional::new(&arr1(&[1.0, 1.4]), ver)), 1.0, 2, false);
        }
    }
    push("PcSaft/propane", F::PcSaftFunctional(PcSaftFunctional::new(pcp(&["propane"], "pcsaft/gross2001.json"))), 260.0, 1, true);
    push("PcSaft/butane+pentane", F::PcSaftFunctional(PcSaftFunctional::new(pcp(&["butane", "pentane"], "pcsaft/gross2001.json"))), 300.0, 2, true);
    push("PcSaft/methanol", F::PcSaftFunctional(PcSaftFunctional::new(pcp(&["methanol"], "pcsaft/gross2002.json"))), 350.0, 1, true);
    // two associating components: the iterative cross-association solver (implicit derivatives of the site fractions) instead of the closed form
    push("PcSaft/methanol+ethanol", F::PcSaftFunctional(PcSaftFunctional::new(pcp(&["methanol", "ethanol"], "pcsaft/gross2002.json"))), 350.0, 2, true);
    if thorough {
        push("PcSaft/propane(KR)", F::PcSaftFunctional(PcSaftFunctional::new_full(pcp(&["propane"], "pcsaft/gross2001.json"), FMTVersion::KierlikRosinberg)), 260.0, 1, true);
        push("PcSaft/co2", F::PcSaftFunctional(PcSaftFunctional::new(pcp(&["carbon dioxide"], "pcsaft/gross2005_fit.json"))), 240.0, 1, true);
    }
    let gc = |names: &[&str]| {
        GcPcSaftFunctionalParameters::from_json_segments(names, ppath("pcsaft/gc_substances.json"), ppath("pcsaft/sauer2014_hetero.json"), None, IdentifierOption::Name).unwrap()
    };
    push("GcPcSaft/butane", F::GcPcSaftFunctional(GcPcSaftFunctional::new(Arc::new(gc(&["butane"])))), 300.0, 1, true);
    if thorough {
        push("GcPcSaft/ethanol", F::GcPcSaftFunctional(GcPcSaftFunctional::new(Arc::new(gc(&["ethanol"])))), 350.0, 1, true);
    }
    let pets: PetsParameters = from_json_str(r#"[{"identifier":{"name":"a"},"molarweight":39.9,"model_record":{"sigma":3.4,"epsilon_k":120.0}}]"#, &[]);
    push("Pets", F::PetsFunctional(PetsFunctional::new(Arc::new(pets))), 100.0, 1, false);
    let vrq = SaftVRQMieParameters::from_json(vec!["neon"], ppath("saftvrqmie/aasen2019.json"), None, IdentifierOption::Name).unwrap();
    push("SaftVRQMie/neon", F::SaftVRQMieFunctional(SaftVRQMieFunctional::new(Arc::new(vrq))), 30.0, 1, false);
    v
}

/// a liquid-like and a vapor-like bulk state of the functional
pub fn bulk_states(fu: &Func) -> Vec<(String, State<F>)> {
    let mut out = vec![];
    if fu.name.starts_with("FMT") {
        for eta in [0.05, 0.35] {
            let x: Vec<f64> = (0..fu.n).map(|i| 1.0 / (1.0 + 0.5 * i as f64)).collect();
            let xs: f64 = x.iter().sum();
            let sig = [1.0f64, 1.4];
            let v_per: f64 = (0..fu.n).map(|i| x[i] / xs * std::f64::consts::FRAC_PI_6 * sig[i].powi(3)).sum();
            let rho = eta / v_per;
            let moles = Moles::from_reduced(Array1::from_vec(x.iter().map(|v| v / xs).collect()));
            if let Ok(s) = State::new_nvt(&fu.f, Temperature::from_reduced(1.0), Volume::from_reduced(1.0 / rho), &moles) {
                out.push((format!("eta={}", eta), s));
            }
        }
        return out;
    }
    let t = Temperature::from_reduced(fu.t);
    if fu.n == 1 {
        if let Ok(vle) = PhaseEquilibrium::pure(&fu.f, t, None, SolverOptions::default()) {
            out.push(("liquid".into(), vle.liquid().clone()));
            out.push(("vapor".into(), vle.vapor().clone()));
        }
    } else {
        let x = arr1(&[0.5, 0.5]);
        if let Ok(vle) = PhaseEquilibrium::bubble_point(&fu.f, t, &x, None, None, (SolverOptions::default(), SolverOptions::default())) {
            out.push(("liquid".into(), vle.liquid().clone()));
            out.push(("vapor".into(), vle.vapor().clone()));
        }
    }
    out
}
