//! C15 recorder: every JSON file under parameters/ is deserialised with the record type of its model; identifiers and
//! the positive-by-definition parameters of every record are dumped; every pure PC-SAFT / SAFT-VR Mie / SAFT-VRQ Mie
//! record is taken through Parsed -> Model -> Critical -> Saturation. Integrity laws are in Catalogue.tla.
use crate::equil::err_name;
use crate::util::*;
use crate::zoo::ppath;
use feos::epcsaft::{ElectrolytePcSaftBinaryRecord, ElectrolytePcSaftParameters, ElectrolytePcSaftRecord};
use feos::gc_pcsaft::{GcPcSaft, GcPcSaftEosParameters, GcPcSaftRecord};
use feos::ideal_gas::{DipprRecord, Joback, JobackRecord};
use feos::pcsaft::{PcSaft, PcSaftBinaryRecord, PcSaftParameters, PcSaftRecord};
use feos::saftvrmie::{SaftVRMie, SaftVRMieParameters, SaftVRMieRecord};
use feos::saftvrqmie::{SaftVRQMie, SaftVRQMieBinaryRecord, SaftVRQMieParameters, SaftVRQMieRecord};
use feos_core::parameter::{BinaryRecord, ChemicalRecord, Identifier, IdentifierOption, Parameter, ParameterHetero, PureRecord, SegmentRecord};
use feos_core::{Contributions, PhaseEquilibrium, ReferenceSystem, Residual, SolverOptions, State};
use serde::de::DeserializeOwned;
use serde::Serialize;
use serde_json::{json, Value};
use std::sync::Arc;

fn ids(i: &Identifier) -> Value {
    json!({"cas": i.cas.clone().unwrap_or_default(), "name": i.name.clone().unwrap_or_default(), "iupac_name": i.iupac_name.clone().unwrap_or_default(),
           "smiles": i.smiles.clone().unwrap_or_default(), "inchi": i.inchi.clone().unwrap_or_default(), "formula": i.formula.clone().unwrap_or_default()})
}
fn num(v: &Value, k: &str) -> Value {
    v.get(k).and_then(|x| x.as_f64()).map(fs).unwrap_or(json!("absent"))
}

fn pure_file<M: DeserializeOwned + Serialize>(tr: &mut Tr, file: &str, model: &str) -> Option<Vec<PureRecord<M>>> {
    let txt = std::fs::read_to_string(ppath(file)).unwrap_or_default();
    match serde_json::from_str::<Vec<PureRecord<M>>>(&txt) {
        Ok(recs) => {
            tr.ev(json!({"ev":"File","file":file,"kind":"pure","model":model,"parsed":true,"n":recs.len()}));
            for (i, r) in recs.iter().enumerate() {
                let mr = serde_json::to_value(&r.model_record).unwrap();
                tr.ev(json!({"ev":"PureRec","file":file,"idx":i,"ids":ids(&r.identifier),"mw":fs(r.molarweight),
                    "m":num(&mr,"m"),"sigma":num(&mr,"sigma"),"epsilon_k":num(&mr,"epsilon_k")}));
            }
            Some(recs)
        }
        Err(e) => {
            tr.ev(json!({"ev":"File","file":file,"kind":"pure","model":model,"parsed":false,"err":e.to_string(),"n":0}));
            None
        }
    }
}
fn binary_file<B: DeserializeOwned>(tr: &mut Tr, file: &str, accompanies: &[&str]) {
    let txt = std::fs::read_to_string(ppath(file)).unwrap_or_default();
    match serde_json::from_str::<Vec<BinaryRecord<Identifier, B>>>(&txt) {
        Ok(recs) => {
            tr.ev(json!({"ev":"File","file":file,"kind":"binary","model":"","parsed":true,"n":recs.len()}));
            for (i, r) in recs.iter().enumerate() {
                tr.ev(json!({"ev":"BinaryRec","file":file,"idx":i,"accompanies":accompanies,"id1":ids(&r.id1),"id2":ids(&r.id2)}));
            }
        }
        Err(e) => tr.ev(json!({"ev":"File","file":file,"kind":"binary","model":"","parsed":false,"err":e.to_string(),"n":0})),
    }
}
fn segment_file<M: DeserializeOwned + Serialize>(tr: &mut Tr, file: &str, model: &str) {
    match SegmentRecord::<M>::from_json(ppath(file)) {
        Ok(recs) => {
            tr.ev(json!({"ev":"File","file":file,"kind":"segment","model":model,"parsed":true,"n":recs.len()}));
            for (i, r) in recs.iter().enumerate() {
                let mr = serde_json::to_value(&r.model_record).unwrap();
                tr.ev(json!({"ev":"SegmentRec","file":file,"idx":i,"id":r.identifier,"mw":fs(r.molarweight),"m":num(&mr,"m"),"sigma":num(&mr,"sigma"),"epsilon_k":num(&mr,"epsilon_k")}));
            }
        }
        Err(e) => tr.ev(json!({"ev":"File","file":file,"kind":"segment","model":model,"parsed":false,"err":e.to_string(),"n":0})),
    }
}
fn segment_binary_file(tr: &mut Tr, file: &str, accompanies: &[&str]) {
    let txt = std::fs::read_to_string(ppath(file)).unwrap_or_default();
    match serde_json::from_str::<Vec<BinaryRecord<String, f64>>>(&txt) {
        Ok(recs) => {
            tr.ev(json!({"ev":"File","file":file,"kind":"segment_binary","model":"","parsed":true,"n":recs.len()}));
            for (i, r) in recs.iter().enumerate() {
                tr.ev(json!({"ev":"SegBinaryRec","file":file,"idx":i,"accompanies":accompanies,"id1":r.id1,"id2":r.id2}));
            }
        }
        Err(e) => tr.ev(json!({"ev":"File","file":file,"kind":"segment_binary","model":"","parsed":false,"err":e.to_string(),"n":0})),
    }
}

fn pipeline<E: Residual>(tr: &mut Tr, file: &str, idx: usize, eos: Arc<E>, tr_min: f64) {
    let cp = State::critical_point(&eos, None, None, SolverOptions::default());
    let Ok(cp) = cp else {
        tr.ev(json!({"ev":"Pipeline","file":file,"idx":idx,"stage":"Model","err":err_name(&cp.err().unwrap()),"finite":false,"points":0}));
        return;
    };
    let mut finite = cp.temperature.to_reduced().is_finite() && cp.pressure(Contributions::Total).to_reduced().is_finite();
    let mut n = 0;
    let mut failed = None;
    for trd in [0.45, 0.65, 0.85, 0.99] {
        if trd < tr_min {
            continue;
        }
        match PhaseEquilibrium::pure(&eos, cp.temperature * trd, None, SolverOptions::default()) {
            Ok(pe) => {
                n += 1;
                for s in [pe.vapor(), pe.liquid()] {
                    finite &= s.pressure(Contributions::Total).to_reduced().is_finite() && s.residual_entropy().to_reduced().is_finite()
                        && s.residual_chemical_potential().to_reduced().iter().all(|v| v.is_finite()) && s.dp_dv(Contributions::Total).to_reduced().is_finite();
                }
            }
            Err(e) => failed = Some(format!("{}@{}", err_name(&e), trd)),
        }
    }
    tr.ev(json!({"ev":"Pipeline","file":file,"idx":idx,"stage": if failed.is_none() { "Done" } else { "Critical" },"err":failed.unwrap_or_default(),
        "finite":finite,"points":n,"Tc":fs(cp.temperature.to_reduced()),"pc":fs(cp.pressure(Contributions::Total).to_reduced())}));
}

pub fn run(args: &Args) {
    let mut tr = Tr::create(&args.out);
    let mut rng = Rng::new(args.seed ^ 0x15);
    let sample = |n: usize, rng: &mut Rng| -> Vec<usize> {
        if args.thorough { (0..n).collect() } else { (0..n).filter(|_| rng.below(4) == 0 || n < 12).collect() }
    };
    // ---- PC-SAFT pure collections
    for f in ["pcsaft/gross2001.json", "pcsaft/gross2002.json", "pcsaft/gross2005_fit.json", "pcsaft/gross2005_literature.json", "pcsaft/gross2006.json",
        "pcsaft/esper2023.json", "pcsaft/loetgeringlin2018.json", "pcsaft/rehner2020.json", "pcsaft/eller2022.json"] {
        if let Some(recs) = pure_file::<PcSaftRecord>(&mut tr, f, "PcSaft") {
            for i in sample(recs.len(), &mut rng) {
                match PcSaftParameters::new_pure(recs[i].clone()) {
                    Ok(p) => pipeline(&mut tr, f, i, Arc::new(PcSaft::new(Arc::new(p))), 0.45),
                    Err(e) => tr.ev(json!({"ev":"Pipeline","file":f,"idx":i,"stage":"Parsed","err":e.to_string(),"finite":false,"points":0})),
                }
            }
        }
    }
    if let Some(recs) = pure_file::<SaftVRMieRecord>(&mut tr, "saftvrmie/lafitte2013.json", "SaftVRMie") {
        for i in sample(recs.len(), &mut rng) {
            if let Ok(p) = SaftVRMieParameters::new_pure(recs[i].clone()) {
                pipeline(&mut tr, "saftvrmie/lafitte2013.json", i, Arc::new(SaftVRMie::new(Arc::new(p))), 0.45);
            }
        }
    }
    for f in ["saftvrqmie/aasen2019.json", "saftvrqmie/aasen2019_fh2.json", "saftvrqmie/hammer2023.json"] {
        if let Some(recs) = pure_file::<SaftVRQMieRecord>(&mut tr, f, "SaftVRQMie") {
            for i in 0..recs.len() {
                if f.contains("fh2") && recs[i].identifier.name.as_deref() == Some("helium") {
                    continue; // excepted by C04/C15
                }
                if let Ok(p) = SaftVRQMieParameters::new_pure(recs[i].clone()) {
                    pipeline(&mut tr, f, i, Arc::new(SaftVRQMie::new(Arc::new(p))), 0.6);
                }
            }
        }
    }
    pure_file::<ElectrolytePcSaftRecord>(&mut tr, "epcsaft/held2014_w_permittivity_added.json", "ElectrolytePcSaft");
    pure_file::<DipprRecord>(&mut tr, "ideal_gas/poling2000.json", "Dippr");
    // ---- binary files and the collections they accompany
    binary_file::<PcSaftBinaryRecord>(&mut tr, "pcsaft/gross2002_binary.json", &["pcsaft/gross2001.json", "pcsaft/gross2002.json", "pcsaft/gross2005_fit.json", "pcsaft/gross2005_literature.json", "pcsaft/gross2006.json"]);
    binary_file::<ElectrolytePcSaftBinaryRecord>(&mut tr, "epcsaft/held2014_binary.json", &["epcsaft/held2014_w_permittivity_added.json"]);
    binary_file::<SaftVRQMieBinaryRecord>(&mut tr, "saftvrqmie/aasen2020_binary.json", &["saftvrqmie/aasen2019.json"]);
    binary_file::<SaftVRQMieBinaryRecord>(&mut tr, "saftvrqmie/aasen2020_binary_fh2.json", &["saftvrqmie/aasen2019_fh2.json"]);
    // ---- segment tables
    for f in ["pcsaft/sauer2014_homo.json", "pcsaft/rehner2023_homo.json", "pcsaft/loetgeringlin2015_homo.json"] {
        segment_file::<PcSaftRecord>(&mut tr, f, "PcSaft");
    }
    for f in ["pcsaft/sauer2014_hetero.json", "pcsaft/rehner2023_hetero.json"] {
        segment_file::<GcPcSaftRecord>(&mut tr, f, "GcPcSaft");
    }
    segment_file::<JobackRecord>(&mut tr, "ideal_gas/joback1987.json", "Joback");
    segment_binary_file(&mut tr, "pcsaft/rehner2023_homo_binary.json", &["pcsaft/rehner2023_homo.json"]);
    segment_binary_file(&mut tr, "pcsaft/rehner2023_hetero_binary.json", &["pcsaft/rehner2023_hetero.json"]);
    // ---- group-contribution substances assembled from the shipped segment tables
    let txt = std::fs::read_to_string(ppath("pcsaft/gc_substances.json")).unwrap_or_default();
    match serde_json::from_str::<Vec<ChemicalRecord>>(&txt) {
        Ok(crs) => {
            tr.ev(json!({"ev":"File","file":"pcsaft/gc_substances.json","kind":"chemical","model":"","parsed":true,"n":crs.len()}));
            for (i, c) in crs.iter().enumerate() {
                let name = c.identifier.name.clone().unwrap_or_default();
                let homo = PcSaftParameters::from_json_segments(&[name.as_str()], ppath("pcsaft/gc_substances.json"), ppath("pcsaft/sauer2014_homo.json"), None, IdentifierOption::Name);
                let hetero = GcPcSaftEosParameters::from_json_segments(&[name.as_str()], ppath("pcsaft/gc_substances.json"), ppath("pcsaft/sauer2014_hetero.json"), None, IdentifierOption::Name);
                let jb = Joback::from_json_segments(&[name.as_str()], ppath("pcsaft/gc_substances.json"), ppath("ideal_gas/joback1987.json"), None, IdentifierOption::Name);
                let usable = hetero.as_ref().ok().map(|p| {
                    let eos = Arc::new(GcPcSaft::new(Arc::new(p.clone_params())));
                    State::critical_point(&eos, None, None, SolverOptions::default()).is_ok()
                });
                // every shipped segment table, not only the one the model is usually used with
                let mut tables = vec![];
                for f in ["pcsaft/sauer2014_homo.json", "pcsaft/rehner2023_homo.json", "pcsaft/loetgeringlin2015_homo.json"] {
                    let r = PcSaftParameters::from_json_segments(&[name.as_str()], ppath("pcsaft/gc_substances.json"), ppath(f), None, IdentifierOption::Name);
                    tables.push(json!({"table": f, "ok": r.is_ok(), "err": r.err().map(|e| e.to_string()).unwrap_or_default()}));
                }
                for f in ["pcsaft/sauer2014_hetero.json", "pcsaft/rehner2023_hetero.json"] {
                    let r = GcPcSaftEosParameters::from_json_segments(&[name.as_str()], ppath("pcsaft/gc_substances.json"), ppath(f), None, IdentifierOption::Name);
                    tables.push(json!({"table": f, "ok": r.is_ok(), "err": r.err().map(|e| e.to_string()).unwrap_or_default()}));
                }
                tr.ev(json!({"ev":"GcSubstance","idx":i,"name":name,"segments":c.segments,"tables":tables,"homo":homo.is_ok(),"hetero":hetero.is_ok(),"joback":jb.is_ok(),
                    "homo_err":homo.err().map(|e| e.to_string()).unwrap_or_default(),"hetero_critical_point":usable.unwrap_or(false)}));
            }
        }
        Err(e) => tr.ev(json!({"ev":"File","file":"pcsaft/gc_substances.json","kind":"chemical","model":"","parsed":false,"err":e.to_string(),"n":0})),
    }
    let _ = ElectrolytePcSaftParameters::from_json::<String>;
    let n = tr.finish();
    println!("C15 trace: {} lines", n);
}

trait CloneParams {
    fn clone_params(&self) -> GcPcSaftEosParameters;
}
impl CloneParams for GcPcSaftEosParameters {
    fn clone_params(&self) -> GcPcSaftEosParameters {
        let (c, s, b) = self.records();
        GcPcSaftEosParameters::from_segments(c.to_vec(), s.to_vec(), b.clone()).unwrap()
    }
}
