//! C03 driver: replays the TLC-generated decision table of StateSpec.tla through State::new_full, with consistent and
//! with deliberately mixed redundant inputs, single-fault inputs, random iterative targets, and a (T,p) grid over the
//! shipped Gross-Sadowski PC-SAFT records for the root-selection and success clauses.
use crate::red::*;
use crate::util::*;
use crate::zoo::{self, ppath, Eos};
use feos::pcsaft::{PcSaft, PcSaftParameters, PcSaftRecord};
use feos::ResidualModel;
use feos_core::parameter::{Parameter, PureRecord};
use feos_core::{Contributions, DensityInitialization, EosError, ReferenceSystem, Residual, SolverOptions, State, StateBuilder};
use ndarray::Array1;
use quantity::*;
use serde_json::{json, Value};
use std::sync::Arc;

type S = State<Eos>;
const CT: Contributions = Contributions::Total;

fn err_name(e: &EosError) -> String {
    match e {
        EosError::UndeterminedState(_) => "Undetermined".into(),
        EosError::InvalidState(..) => "InvalidState".into(),
        EosError::IncompatibleComponents(..) => "IncompatibleComponents".into(),
        EosError::NotConverged(_) => "NotConverged".into(),
        EosError::IterationFailed(_) => "IterationFailed".into(),
        EosError::TrivialSolution => "TrivialSolution".into(),
        o => format!("Other:{}", o),
    }
}

fn observe(s: &S) -> Value {
    json!({"ok": true, "T": fs(s.temperature.to_reduced()), "V": fs(s.volume.to_reduced()), "N": fv(s.moles.to_reduced().iter()),
           "x": fv(s.molefracs.iter()), "rho": fs(s.density.to_reduced()), "rhoi": fv(s.partial_density.to_reduced().iter()),
           "p": fs(r0(s.pressure(CT))), "h": fs(r0(s.molar_enthalpy(CT))), "s": fs(r0(s.molar_entropy(CT))), "u": fs(r0(s.molar_internal_energy(CT))),
           "g_res": fs(r0(s.residual_molar_gibbs_energy()))})
}

#[derive(Clone)]
struct Inp {
    t: f64,
    v: f64,
    rho: f64,
    rhoi: Vec<f64>,
    n: f64,
    ni: Vec<f64>,
    x: Vec<f64>,
    p: f64,
    h: f64,
    s: f64,
    u: f64,
}
impl Inp {
    fn of(st: &S) -> Inp {
        Inp {
            t: st.temperature.to_reduced(),
            v: st.volume.to_reduced(),
            rho: st.density.to_reduced(),
            rhoi: st.partial_density.to_reduced().to_vec(),
            n: st.total_moles.to_reduced(),
            ni: st.moles.to_reduced().to_vec(),
            x: st.molefracs.to_vec(),
            p: r0(st.pressure(CT)),
            h: r0(st.molar_enthalpy(CT)),
            s: r0(st.molar_entropy(CT)),
            u: r0(st.molar_internal_energy(CT)),
        }
    }
    fn json(&self) -> Value {
        json!({"T": fs(self.t), "V": fs(self.v), "rho": fs(self.rho), "rhoi": fv(self.rhoi.iter()), "N": fs(self.n), "Ni": fv(self.ni.iter()),
               "x": fv(self.x.iter()), "p": fs(self.p), "h": fs(self.h), "s": fs(self.s), "u": fs(self.u)})
    }
}

fn build(eos: &Arc<Eos>, given: &[String], i: &Inp, hint: DensityInitialization, t_init: Option<f64>) -> Value {
    let has = |k: &str| given.iter().any(|g| g == k);
    let rhoi = Density::from_reduced(Array1::from_vec(i.rhoi.clone()));
    let ni = Moles::from_reduced(Array1::from_vec(i.ni.clone()));
    let x = Array1::from_vec(i.x.clone());
    let r = guarded(std::panic::AssertUnwindSafe(|| {
        State::new_full(
            eos,
            has("T").then(|| Temperature::from_reduced(i.t)),
            has("V").then(|| Volume::from_reduced(i.v)),
            has("rho").then(|| Density::from_reduced(i.rho)),
            has("rhoi").then_some(&rhoi),
            has("N").then(|| Moles::from_reduced(i.n)),
            has("Ni").then_some(&ni),
            has("x").then_some(&x),
            has("p").then(|| Pressure::from_reduced(i.p)),
            has("h").then(|| MolarEnergy::from_reduced(i.h)),
            has("s").then(|| MolarEntropy::from_reduced(i.s)),
            has("u").then(|| MolarEnergy::from_reduced(i.u)),
            hint,
            t_init.map(Temperature::from_reduced),
        )
    }));
    match r {
        Ok(Ok(s)) => observe(&s),
        Ok(Err(e)) => json!({"ok": false, "err": err_name(&e)}),
        Err(m) => json!({"ok": false, "err": format!("Panic:{}", m)}),
    }
}

fn models() -> Vec<(String, Arc<Eos>, f64)> {
    zoo::zoo(false)
        .into_iter()
        .filter(|m| ["pcsaft/propane", "pcsaft/propane+butane(kij)", "pr/propane", "pr/propane+butane(kij)"].contains(&m.name.as_str()))
        .map(|m| (m.name.clone(), zoo::with_ideal_gas(&m.eos, m.n), m.tscale))
        .collect()
}

fn base_state(eos: &Arc<Eos>, t: f64, u_rel: f64, n: usize, ntot: f64, rng: &mut Rng) -> S {
    let x = if n == 1 { vec![1.0] } else { rng.simplex(n) };
    let moles = Array1::from_vec(x.iter().map(|v| v * ntot).collect::<Vec<_>>());
    let rmax = eos.residual.compute_max_density(&moles);
    State::new_nvt(eos, Temperature::from_reduced(t), Volume::from_reduced(ntot / (u_rel * rmax)), &Moles::from_reduced(moles)).unwrap()
}

pub fn run(args: &Args) {
    let mut tr = Tr::create(&args.out);
    let mut rng = Rng::new(args.seed ^ 0x03);
    let plan: Vec<Value> = std::fs::read_to_string(args.plan.as_ref().expect("--plan")).unwrap().lines().map(|l| serde_json::from_str(l).unwrap()).collect();
    // ---- A: decision table
    for (name, eos, tc) in models() {
        let n = eos.residual.as_ref().components_();
        let b0 = base_state(&eos, 1.15 * tc, 0.12, n, 1.7, &mut rng);
        let i0 = Inp::of(&b0);
        // mixed pass: each energy-like target from a different state of the same amount and composition
        let alt = |f: f64| {
            let st = State::new_nvt(&eos, b0.temperature * f, b0.volume, &b0.moles).unwrap();
            Inp::of(&st)
        };
        let (i1, i2, i3) = (alt(1.06), alt(0.96), alt(1.11));
        let mut mixed = i0.clone();
        mixed.h = i1.h;
        mixed.s = i2.s;
        mixed.u = i3.u;
        for p in &plan {
            if p["ncomp"].as_u64().unwrap() as usize != n {
                continue;
            }
            let given: Vec<String> = p["given"].as_array().unwrap().iter().map(|g| g.as_str().unwrap().to_owned()).collect();
            // mole fractions that do not sum to one (the constructor normalises them): the same state must result
            let mut unnorm = i0.clone();
            let scale = [100.0, 0.5, 3.7][rng.below(3)];
            unnorm.x = unnorm.x.iter().map(|v| v * scale).collect();
            for (pass, inp) in [("consistent", &i0), ("mixed", &mixed), ("unnormalised-x", &unnorm)] {
                let res = build(&eos, &given, inp, DensityInitialization::None, Some(i0.t * 0.9));
                tr.ev(json!({"ev":"Build","model":name,"ncomp":n,"given":given,"pass":pass,"inp":inp.json(),"fault":{"field":"none","tag":"none"},"res":res}));
            }
            // ---- B: single faults on inputs that fix T, V or N
            for field in ["T", "V", "N", "Ni", "rho", "x"] {
                if !given.iter().any(|g| g == field) || rng.below(if args.thorough { 1 } else { 6 }) != 0 {
                    continue;
                }
                for tag in ["negative", "nan", "inf", "wronglen"] {
                    let mut f = i0.clone();
                    let bad = match tag {
                        "negative" => -1.0,
                        "nan" => f64::NAN,
                        _ => f64::INFINITY,
                    };
                    match (field, tag) {
                        ("Ni", "wronglen") => f.ni.push(0.3),
                        ("x", "wronglen") => f.x.push(0.3),
                        (_, "wronglen") => continue,
                        ("T", _) => f.t = if tag == "negative" { -f.t } else { bad },
                        ("V", _) => f.v = if tag == "negative" { -f.v } else { bad },
                        ("N", _) => f.n = if tag == "negative" { -f.n } else { bad },
                        ("rho", _) => f.rho = if tag == "negative" { -f.rho } else { bad },
                        ("Ni", _) => f.ni[0] = if tag == "negative" { -f.ni[0] } else { bad },
                        ("x", _) => f.x[0] = if tag == "negative" { -f.x[0] } else { bad },
                        _ => {}
                    }
                    let res = build(&eos, &given, &f, DensityInitialization::None, Some(i0.t * 0.9));
                    tr.ev(json!({"ev":"Build","model":name,"ncomp":n,"given":given,"pass":"fault","inp":f.json(),"fault":{"field":field,"tag":tag},"res":res}));
                }
            }
        }
        // ---- D: iterative targets generated from random reachable single-phase states
        let nrand = if args.thorough { 400 } else { 40 };
        for _ in 0..nrand {
            let t = tc * rng.range(1.02, 1.8);
            let b = base_state(&eos, t, rng.lrange(0.003, 0.5), n, rng.lrange(0.2, 5.0), &mut rng);
            let i = Inp::of(&b);
            for tgt in [["p", "h"], ["p", "s"], ["T", "h"], ["T", "s"], ["V", "u"], ["T", "p"]] {
                let given: Vec<String> = tgt.iter().map(|s| s.to_string()).chain(std::iter::once("Ni".to_string())).collect();
                let hint = match rng.below(3) {
                    0 => DensityInitialization::None,
                    1 => DensityInitialization::InitialDensity(b.density * rng.range(0.5, 2.0)),
                    _ => DensityInitialization::Vapor,
                };
                let res = build(&eos, &given, &i, hint, Some(t * rng.range(0.85, 1.2)));
                tr.ev(json!({"ev":"Build","model":name,"ncomp":n,"given":given,"pass":"random-target","inp":i.json(),"fault":{"field":"none","tag":"none"},"res":res}));
            }
        }
    }
    // ---- C: (T,p) grid over the Gross-Sadowski collections
    npt_grid(&mut tr, args, &mut rng);
    npt_mixtures(&mut tr, args, &mut rng);
    let n = tr.finish();
    println!("C03 trace: {} lines", n);
}

trait Comp {
    fn components_(&self) -> usize;
}
impl Comp for ResidualModel {
    fn components_(&self) -> usize {
        use feos_core::Components;
        self.components()
    }
}

/// Mixtures at (T, p) cells around their phase envelope: without a phase hint the returned root is the one of lower Gibbs energy (g = sum_i x_i ln phi_i),
/// with a hint it lies on the requested branch. Not part of the success clause (which names the pure Gross-Sadowski records).
fn npt_mixtures(tr: &mut Tr, args: &Args, rng: &mut Rng) {
    use feos_core::parameter::IdentifierOption;
    let systems: Vec<(Vec<&str>, Vec<f64>)> = vec![(vec!["propane", "butane"], vec![0.05, 0.95]), (vec!["propane", "butane"], vec![0.9, 0.1]), (vec!["methane", "decane"], vec![0.1, 0.9]),
        (vec!["propane", "butane", "pentane"], vec![0.6, 0.3, 0.1]), (vec!["ethane", "hexane"], vec![0.5, 0.5])];
    for (si, (names, x)) in systems.iter().enumerate() {
        let Ok(par) = PcSaftParameters::from_json(names.clone(), ppath("pcsaft/gross2001.json"), None, IdentifierOption::Name) else { continue };
        let eos = Arc::new(PcSaft::new(Arc::new(par)));
        let moles = Moles::from_reduced(Array1::from_vec(x.clone()) * 1.3);
        let Ok(cp) = State::critical_point(&eos, Some(&moles), None, SolverOptions::default()) else { continue };
        let (tc, pc) = (cp.temperature, cp.pressure(CT));
        let ncell = if args.thorough { 120 } else { 30 };
        for _ in 0..ncell {
            let tr_ = rng.range(0.55, 0.98);
            let pr = rng.lrange(2e-3, 1.5);
            let (t, p) = (tc * tr_, pc * pr);
            let root = |init: DensityInitialization| -> Value {
                match guarded(std::panic::AssertUnwindSafe(|| State::new_npt(&eos, t, p, &moles, init))) {
                    Ok(Ok(s)) => json!({"ok": true, "rho": fs(s.density.to_reduced()), "p": fs(r0(s.pressure(CT))), "g": fs(r0(s.residual_molar_gibbs_energy())),
                                       "dp_drho": fs(r0(s.dp_drho(CT)))}),
                    Ok(Err(e)) => json!({"ok": false, "err": err_name(&e)}),
                    Err(m) => json!({"ok": false, "err": format!("Panic:{}", m)}),
                }
            };
            let rho0 = eos.max_density(Some(&moles)).unwrap() * rng.lrange(1e-4, 1.0);
            tr.ev(json!({"ev":"Npt","file":format!("mixture:{}", names.join("+")),"index":si,"Tr":fs(tr_),"pr":fs(pr),"p_in":fs(p.to_reduced()),"success_clause":false,"x":fv(x.iter()),
                "none":root(DensityInitialization::None),"vapor":root(DensityInitialization::Vapor),"liquid":root(DensityInitialization::Liquid),
                "init":root(DensityInitialization::InitialDensity(rho0)),"rho0_rel":fs(rho0.to_reduced()/eos.max_density(Some(&moles)).unwrap().to_reduced())}));
        }
    }
}

fn npt_grid(tr: &mut Tr, args: &Args, rng: &mut Rng) {
    let files = ["pcsaft/gross2001.json", "pcsaft/gross2002.json", "pcsaft/gross2005_fit.json", "pcsaft/gross2006.json"];
    let one = Moles::from_reduced(Array1::from_vec(vec![1.0]));
    for file in files {
        let recs: Vec<PureRecord<PcSaftRecord>> = serde_json::from_str(&std::fs::read_to_string(ppath(file)).unwrap()).unwrap();
        let step = if args.thorough { 1 } else { 1 + recs.len() / 5 };
        for (ri, rec) in recs.iter().enumerate().step_by(step) {
            let Ok(par) = PcSaftParameters::new_pure(rec.clone()) else { continue };
            let eos = Arc::new(PcSaft::new(Arc::new(par)));
            let Ok(cp) = State::critical_point(&eos, None, None, SolverOptions::default()) else {
                tr.ev(json!({"ev":"NoCritical","file":file,"index":ri}));
                continue;
            };
            let (tc, pc) = (cp.temperature, cp.pressure(CT));
            let ncell = if args.thorough { 60 } else { 10 };
            for _ in 0..ncell {
                // success clause domain: T_r in [0.45,1.65], p_r in [1e-4,10]; every third cell explores the wider
                // domain of the "whenever a state is returned" clause (T_r up to 2, p_r up to 100)
                let wide = rng.below(3) == 0;
                let tr_ = if wide { rng.range(0.45, 2.0) } else { rng.range(0.45, 1.65) };
                let pr = if wide { rng.lrange(1e-4, 100.0) } else { rng.lrange(1e-4, 10.0) };
                let (t, p) = (tc * tr_, pc * pr);
                let root = |init: DensityInitialization| -> Value {
                    match guarded(std::panic::AssertUnwindSafe(|| State::new_npt(&eos, t, p, &one, init))) {
                        Ok(Ok(s)) => json!({"ok": true, "rho": fs(s.density.to_reduced()), "p": fs(r0(s.pressure(CT))), "g": fs(r0(s.residual_molar_gibbs_energy())),
                                           "dp_drho": fs(r0(s.dp_drho(CT)))}),
                        Ok(Err(e)) => json!({"ok": false, "err": err_name(&e)}),
                        Err(m) => json!({"ok": false, "err": format!("Panic:{}", m)}),
                    }
                };
                let rho0 = eos.max_density(Some(&one)).unwrap() * rng.lrange(1e-4, 1.0);
                // the same (T, p) through the builder's other routes: with a volume instead of an amount (T, p, V), and with the total amount only; the phase
                // hint must select the same branch on every route
                let v0 = Volume::from_reduced(rng.lrange(1e2, 1e5));
                let via = |route: &str, hint: &str| -> Value {
                    let r = guarded(std::panic::AssertUnwindSafe(|| {
                        let b = StateBuilder::new(&eos).temperature(t).pressure(p);
                        let b = if route == "TpV" { b.volume(v0) } else { b.total_moles(Moles::from_reduced(2.5)) };
                        let b = match hint { "vapor" => b.vapor(), "liquid" => b.liquid(), _ => b };
                        b.build()
                    }));
                    match r {
                        Ok(Ok(s)) => json!({"route": route, "hint": hint, "ok": true, "rho": fs(s.density.to_reduced())}),
                        Ok(Err(e)) => json!({"route": route, "hint": hint, "ok": false, "err": err_name(&e)}),
                        Err(m) => json!({"route": route, "hint": hint, "ok": false, "err": format!("Panic:{}", m)}),
                    }
                };
                let routes: Vec<Value> = ["TpV", "TpN"].iter().flat_map(|r| ["none", "vapor", "liquid"].iter().map(|h| via(r, h)).collect::<Vec<_>>()).collect();
                tr.ev(json!({"ev":"Npt","file":file,"index":ri,"Tr":fs(tr_),"pr":fs(pr),"p_in":fs(p.to_reduced()),"routes":routes,
                    "none":root(DensityInitialization::None),"vapor":root(DensityInitialization::Vapor),"liquid":root(DensityInitialization::Liquid),
                    "init":root(DensityInitialization::InitialDensity(rho0)),"rho0_rel":fs(rho0.to_reduced()/eos.max_density(Some(&one)).unwrap().to_reduced())}));
                // the same three single density iterations once more with hook H2 switched on: the loop's own account of what it did
                for (label, init) in [("initial density", DensityInitialization::InitialDensity(rho0)), ("vapor", DensityInitialization::Vapor), ("liquid", DensityInitialization::Liquid)] {
                    feos_core::verif::take();
                    feos_core::verif::enable(true);
                    let r = guarded(std::panic::AssertUnwindSafe(|| State::new_npt(&eos, t, p, &one, init)));
                    feos_core::verif::enable(false);
                    let mut lines = feos_core::verif::take();
                    lines.sort_by_key(|l| seq_of(l));
                    for l in lines.iter().filter(|l| l.contains("\"ev\":\"DI")) { tr.raw(l); }
                    let (status, pret) = match &r {
                        Ok(Ok(s)) => ("Ok".to_owned(), r0(s.pressure(CT))),
                        Ok(Err(e)) => (err_name(e), f64::NAN),
                        Err(m) => (format!("Panic:{}", m), f64::NAN),
                    };
                    tr.ev(json!({"ev":"DICall","file":file,"index":ri,"init":label,"Tr":fs(tr_),"pr":fs(pr),"p_in":fs(p.to_reduced()),"status":status,"p":fs(pret)}));
                }
            }
        }
    }
}
