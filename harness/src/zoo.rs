//! Model zoo: one constructor per model family / parameter class, built from shipped records
//! (by name) or from JSON literals, always through the library's public constructors.
use crate::util::repo;
use feos::epcsaft::{ElectrolytePcSaft, ElectrolytePcSaftParameters};
use feos::gc_pcsaft::{GcPcSaft, GcPcSaftEosParameters};
use feos::ideal_gas::{Dippr, IdealGasModel, Joback};
use feos::pcsaft::{PcSaft, PcSaftParameters};
use feos::pets::{Pets, PetsParameters};
use feos::saftvrmie::{SaftVRMie, SaftVRMieParameters};
use feos::saftvrqmie::{SaftVRQMie, SaftVRQMieParameters};
use feos::uvtheory::{Perturbation, UVTheory, UVTheoryOptions, UVTheoryParameters};
use feos::ResidualModel;
use feos_core::cubic::{PengRobinson, PengRobinsonParameters};
use feos_core::parameter::{IdentifierOption, Parameter, ParameterHetero, PureRecord};
use feos_core::EquationOfState;
use ndarray::Array2;
use serde::de::DeserializeOwned;
use std::sync::Arc;

pub type Eos = EquationOfState<IdealGasModel, ResidualModel>;

pub fn ppath(rel: &str) -> String {
    format!("{}/parameters/{}", repo(), rel)
}

/// parameters from a JSON array of pure records and a list of ((i,j), binary record JSON)
pub fn from_json_str<P: Parameter>(pure: &str, binary: &[((usize, usize), &str)]) -> P
where
    P::Pure: DeserializeOwned,
    P::Binary: DeserializeOwned + Default + Clone,
{
    let pr: Vec<PureRecord<P::Pure>> = serde_json::from_str(pure).expect("pure json");
    let n = pr.len();
    let br = if binary.is_empty() {
        None
    } else {
        let mut m: Array2<P::Binary> = Array2::default((n, n));
        for ((i, j), s) in binary {
            let b: P::Binary = serde_json::from_str(s).expect("binary json");
            m[(*i, *j)] = b.clone();
            m[(*j, *i)] = b;
        }
        Some(m)
    };
    P::from_records(pr, br).expect("from_records")
}

/// shipped records selected by name, as a JSON array string (so they can be edited / permuted)
pub fn shipped(file: &str, names: &[&str]) -> String {
    let txt = std::fs::read_to_string(ppath(file)).expect("parameter file");
    let all: Vec<serde_json::Value> = serde_json::from_str(&txt).expect("json");
    let sel: Vec<serde_json::Value> = names
        .iter()
        .map(|n| {
            all.iter()
                .find(|r| r["identifier"]["name"] == *n)
                .unwrap_or_else(|| panic!("record {} not in {}", n, file))
                .clone()
        })
        .collect();
    serde_json::to_string(&sel).unwrap()
}

pub struct Model {
    pub name: String,
    pub eos: Arc<ResidualModel>,
    /// temperature scale in K (roughly a critical temperature of the mixture)
    pub tscale: f64,
    pub n: usize,
    /// family tag used for coverage accounting
    pub family: &'static str,
    /// tolerance of an iterative solver inside the model (cross-association), 0 if none
    pub solver_tol: f64,
}

fn m(name: &str, family: &'static str, tscale: f64, r: ResidualModel) -> Model {
    use feos_core::Components;
    let n = r.components();
    let names: Vec<String> = {
        use feos_core::Residual;
        let st = feos_core::StateHD::new(300.0, 1000.0, ndarray::Array1::from_elem(n, 1.0 / n as f64));
        r.residual_helmholtz_energy_contributions(&st).into_iter().map(|(s, _)| s).collect()
    };
    let solver_tol = if names.iter().any(|s| s.contains("ssociation")) { 1e-10 } else { 0.0 };
    Model {
        solver_tol,
        name: name.to_owned(),
        eos: Arc::new(r),
        tscale,
        n,
        family,
    }
}

pub fn pcsaft(pure: &str, binary: &[((usize, usize), &str)]) -> PcSaft {
    PcSaft::new(Arc::new(from_json_str::<PcSaftParameters>(pure, binary)))
}

pub const PETS2: &str = r#"[{"identifier":{"name":"a"},"molarweight":39.9,"model_record":{"sigma":3.4,"epsilon_k":120.0}},
 {"identifier":{"name":"b"},"molarweight":83.8,"model_record":{"sigma":3.63,"epsilon_k":165.0}}]"#;
pub const UV2: &str = r#"[{"identifier":{"name":"a"},"molarweight":1.0,"model_record":{"rep":12.0,"att":6.0,"sigma":3.4,"epsilon_k":120.0}},
 {"identifier":{"name":"b"},"molarweight":1.0,"model_record":{"rep":14.0,"att":6.0,"sigma":3.7,"epsilon_k":160.0}}]"#;
pub const UV1: &str = r#"[{"identifier":{"name":"a"},"molarweight":1.0,"model_record":{"rep":12.0,"att":6.0,"sigma":3.4,"epsilon_k":120.0}}]"#;

pub fn peng_robinson(tc: &[f64], pc: &[f64], w: &[f64], mw: &[f64], kij: f64) -> PengRobinson {
    let p = PengRobinsonParameters::new_simple(tc, pc, w, mw).unwrap();
    let p = if kij != 0.0 && tc.len() > 1 {
        let (pure, _) = p.records();
        let n = tc.len();
        let k = Array2::from_shape_fn((n, n), |(i, j)| if i == j { 0.0 } else { kij });
        PengRobinsonParameters::from_records(pure.to_vec(), Some(k)).unwrap()
    } else {
        p
    };
    PengRobinson::new(Arc::new(p))
}

pub fn uv(pure: &str, p: Perturbation, kij: f64) -> UVTheory {
    let b = format!("{{\"k_ij\":{}}}", kij);
    let bin: Vec<((usize, usize), &str)> = if kij != 0.0 { vec![((0, 1), b.as_str())] } else { vec![] };
    let par = from_json_str::<UVTheoryParameters>(pure, &bin);
    UVTheory::with_options(
        Arc::new(par),
        UVTheoryOptions {
            max_eta: 0.5,
            perturbation: p,
        },
    )
}

pub fn gc(names: &[&str], with_binary: bool) -> GcPcSaft {
    let p = GcPcSaftEosParameters::from_json_segments(
        names,
        ppath("pcsaft/gc_substances.json"),
        ppath("pcsaft/sauer2014_hetero.json"),
        if with_binary { Some(ppath("pcsaft/rehner2023_hetero_binary.json")) } else { None },
        IdentifierOption::Name,
    )
    .expect("gc parameters");
    GcPcSaft::new(Arc::new(p))
}

/// The residual models used by the thermodynamic-law checks. `thorough` adds more classes.
pub fn zoo(thorough: bool) -> Vec<Model> {
    let mut v = vec![];
    // Peng-Robinson
    v.push(m("pr/propane", "PengRobinson", 369.8,
        ResidualModel::PengRobinson(peng_robinson(&[369.83], &[4.248e6], &[0.152], &[44.1], 0.0))));
    v.push(m("pr/propane+butane(kij)", "PengRobinson", 400.0,
        ResidualModel::PengRobinson(peng_robinson(&[369.83, 425.12], &[4.248e6, 3.796e6], &[0.152, 0.2], &[44.1, 58.1], 0.03))));
    // PC-SAFT
    v.push(m("pcsaft/propane", "PcSaft", 370.0,
        ResidualModel::PcSaft(pcsaft(&shipped("pcsaft/gross2001.json", &["propane"]), &[]))));
    v.push(m("pcsaft/propane+butane(kij)", "PcSaft", 400.0,
        ResidualModel::PcSaft(pcsaft(&shipped("pcsaft/gross2001.json", &["propane", "butane"]), &[((0, 1), r#"{"k_ij":0.02}"#)]))));
    v.push(m("pcsaft/methanol(assoc)", "PcSaft", 512.0,
        ResidualModel::PcSaft(pcsaft(&shipped("pcsaft/gross2002.json", &["methanol"]), &[]))));
    v.push(m("pcsaft/methanol+ethanol(cross-assoc)", "PcSaft", 515.0,
        ResidualModel::PcSaft(pcsaft(&shipped("pcsaft/gross2002.json", &["methanol", "ethanol"]), &[((0, 1), r#"{"k_ij":-0.01}"#)]))));
    v.push(m("pcsaft/co2(quadrupole)", "PcSaft", 304.0,
        ResidualModel::PcSaft(pcsaft(&shipped("pcsaft/gross2005_fit.json", &["carbon dioxide"]), &[]))));
    v.push(m("pcsaft/acetone(dipole)", "PcSaft", 508.0,
        ResidualModel::PcSaft(pcsaft(&shipped("pcsaft/gross2006.json", &["acetone"]), &[]))));
    {
        // ternary: dipolar + quadrupolar + associating, with k_ij
        let mut recs: Vec<serde_json::Value> = serde_json::from_str(&shipped("pcsaft/gross2006.json", &["acetone"])).unwrap();
        recs.extend(serde_json::from_str::<Vec<serde_json::Value>>(&shipped("pcsaft/gross2005_fit.json", &["carbon dioxide"])).unwrap());
        recs.extend(serde_json::from_str::<Vec<serde_json::Value>>(&shipped("pcsaft/gross2002.json", &["methanol"])).unwrap());
        let s = serde_json::to_string(&recs).unwrap();
        v.push(m("pcsaft/acetone+co2+methanol", "PcSaft", 450.0,
            ResidualModel::PcSaft(pcsaft(&s, &[((0, 1), r#"{"k_ij":0.03}"#), ((1, 2), r#"{"k_ij":-0.02}"#)]))));
    }
    // ePC-SAFT: water + Na+ + Cl-
    {
        let p = ElectrolytePcSaftParameters::from_json(
            vec!["water", "sodium ion", "chloride ion"],
            ppath("epcsaft/held2014_w_permittivity_added.json"),
            Some(ppath("epcsaft/held2014_binary.json")),
            IdentifierOption::Name,
        )
        .expect("epcsaft parameters");
        v.push(m("epcsaft/water+NaCl", "ElectrolytePcSaft", 600.0,
            ResidualModel::ElectrolytePcSaft(ElectrolytePcSaft::new(Arc::new(p)))));
    }
    // gc-PC-SAFT
    v.push(m("gcpcsaft/propane", "GcPcSaft", 370.0, ResidualModel::GcPcSaft(gc(&["propane"], false))));
    v.push(m("gcpcsaft/ethanol+hexane", "GcPcSaft", 510.0, ResidualModel::GcPcSaft(gc(&["ethanol", "hexane"], true))));
    // PeTS
    v.push(m("pets/a+b", "Pets", 150.0,
        ResidualModel::Pets(Pets::new(Arc::new(from_json_str::<PetsParameters>(PETS2, &[((0, 1), r#"{"k_ij":0.02}"#)]))))));
    // uv-theory
    v.push(m("uv/wca", "UVTheory", 160.0, ResidualModel::UVTheory(uv(UV2, Perturbation::WeeksChandlerAndersen, 0.02))));
    v.push(m("uv/bh", "UVTheory", 160.0, ResidualModel::UVTheory(uv(UV2, Perturbation::BarkerHenderson, 0.02))));
    v.push(m("uv/b3", "UVTheory", 160.0, ResidualModel::UVTheory(uv(UV1, Perturbation::WeeksChandlerAndersenB3, 0.0))));
    // SAFT-VR Mie
    v.push(m("saftvrmie/ethane", "SaftVRMie", 305.0,
        ResidualModel::SaftVRMie(SaftVRMie::new(Arc::new(from_json_str::<SaftVRMieParameters>(&shipped("saftvrmie/lafitte2013.json", &["ethane"]), &[]))))));
    v.push(m("saftvrmie/methane+ethane(kij)", "SaftVRMie", 260.0,
        ResidualModel::SaftVRMie(SaftVRMie::new(Arc::new(from_json_str::<SaftVRMieParameters>(
            &shipped("saftvrmie/lafitte2013.json", &["methane", "ethane"]), &[((0, 1), r#"{"k_ij":0.01}"#)]))))));
    // SAFT-VR Mie has its own association implementation (src/saftvrmie/eos/association.rs)
    v.push(m("saftvrmie/methanol(assoc)", "SaftVRMie", 512.0,
        ResidualModel::SaftVRMie(SaftVRMie::new(Arc::new(from_json_str::<SaftVRMieParameters>(&shipped("saftvrmie/lafitte2013.json", &["methanol"]), &[]))))));
    v.push(m("saftvrmie/methanol+ethanol(cross-assoc)", "SaftVRMie", 515.0,
        ResidualModel::SaftVRMie(SaftVRMie::new(Arc::new(from_json_str::<SaftVRMieParameters>(
            &shipped("saftvrmie/lafitte2013.json", &["methanol", "ethanol"]), &[]))))));
    // SAFT-VRQ Mie
    v.push(m("saftvrqmie/hydrogen+neon", "SaftVRQMie", 40.0,
        ResidualModel::SaftVRQMie(SaftVRQMie::new(Arc::new(
            SaftVRQMieParameters::from_json(vec!["hydrogen", "neon"], ppath("saftvrqmie/aasen2019.json"),
                Some(ppath("saftvrqmie/aasen2020_binary.json")), IdentifierOption::Name).expect("vrq"))))));
    if thorough {
        v.push(m("pcsaft/water_np(4C)", "PcSaft", 640.0,
            ResidualModel::PcSaft(pcsaft(&shipped("pcsaft/rehner2020.json", &["water_4C"]), &[]))));
        v.push(m("saftvrmie/propane", "SaftVRMie", 300.0,
            ResidualModel::SaftVRMie(SaftVRMie::new(Arc::new(from_json_str::<SaftVRMieParameters>(&shipped("saftvrmie/lafitte2013.json", &["propane"]), &[]))))));
        v.push(m("saftvrqmie/helium_fh2", "SaftVRQMie", 6.0,
            ResidualModel::SaftVRQMie(SaftVRQMie::new(Arc::new(
                SaftVRQMieParameters::from_json(vec!["helium"], ppath("saftvrqmie/aasen2019_fh2.json"), None, IdentifierOption::Name).expect("vrq"))))));
    }
    v
}

// ------------------------------------------------------------------------------------------------ shipped records, class-stratified
fn load_records(rel: &str) -> Vec<serde_json::Value> {
    std::fs::read_to_string(ppath(rel)).ok().and_then(|t| serde_json::from_str(&t).ok()).unwrap_or_default()
}

fn rec_name(r: &serde_json::Value) -> String {
    let id = &r["identifier"];
    id["name"].as_str().or(id["iupac_name"].as_str()).or(id["cas"].as_str()).unwrap_or("?").to_owned()
}

/// structural class of a PC-SAFT record: chain length class x dipole x quadrupole x association
pub fn pcsaft_class(r: &serde_json::Value) -> String {
    let mr = &r["model_record"];
    let g = |k: &str| mr.get(k).and_then(|v| v.as_f64()).unwrap_or(0.0);
    let m = g("m");
    format!("m{}{}{}{}{}", if m <= 1.0001 { "<=1" } else if m <= 2.0 { "<=2" } else { ">2" },
        if g("mu") != 0.0 { "/dipole" } else { "" }, if g("q") != 0.0 { "/quadrupole" } else { "" },
        if mr.get("kappa_ab").is_some() { "/assoc" } else { "" },
        if mr.get("kappa_ab").is_none() && (mr.get("na").is_some() || mr.get("nb").is_some()) { "/sites-only" } else { "" })
}

/// a Model whose temperature scale is its critical temperature (equimolar for mixtures); `fallback` if that cannot be computed
fn mk(name: &str, family: &'static str, fallback: f64, r: ResidualModel) -> Model {
    use feos_core::ReferenceSystem;
    let mut model = m(name, family, fallback, r);
    let n = model.n;
    let x = quantity::Moles::from_reduced(ndarray::Array1::from_elem(n, 1.0 / n as f64));
    let eos = model.eos.clone();
    let tc = std::panic::catch_unwind(std::panic::AssertUnwindSafe(|| {
        feos_core::State::critical_point(&eos, if n == 1 { None } else { Some(&x) }, None, Default::default()).ok().map(|s| s.temperature.to_reduced())
    })).ok().flatten();
    if let Some(t) = tc.filter(|t| t.is_finite() && *t > 1.0) { model.tscale = t; }
    model
}

/// Models built from shipped records, stratified by structural class: `per_class` records of every class of every file, pure and as
/// binary mixtures with a record of another class. The thorough tier takes more records per class.
pub fn shipped_sample(rng: &mut crate::util::Rng, thorough: bool) -> Vec<Model> {
    use crate::util::guarded;
    let mut out: Vec<Model> = vec![];
    let per_class = if thorough { 6 } else { 1 };
    // ---- PC-SAFT
    let mut pool: Vec<(String, serde_json::Value, String)> = vec![];
    for file in ["pcsaft/gross2001.json", "pcsaft/gross2002.json", "pcsaft/gross2005_fit.json", "pcsaft/gross2006.json", "pcsaft/loetgeringlin2018.json",
                 "pcsaft/rehner2020.json", "pcsaft/esper2023.json"] {
        let recs = load_records(file);
        let mut order: Vec<usize> = (0..recs.len()).collect();
        rng.shuffle(&mut order);
        let mut seen: std::collections::HashMap<String, usize> = Default::default();
        for i in order {
            let c = pcsaft_class(&recs[i]);
            let k = seen.entry(c.clone()).or_insert(0);
            if *k >= per_class { continue; }
            *k += 1;
            let tag = format!("shipped:{}[{}]:{}:{}", file, i, rec_name(&recs[i]), c);
            pool.push((tag, recs[i].clone(), c));
        }
    }
    for (tag, rec, _) in &pool {
        let js = serde_json::to_string(&vec![rec.clone()]).unwrap();
        if let Ok(r) = guarded(std::panic::AssertUnwindSafe(|| ResidualModel::PcSaft(pcsaft(&js, &[])))) {
            let eps = rec["model_record"]["epsilon_k"].as_f64().unwrap_or(200.0);
            out.push(mk(tag, "PcSaft", 1.8 * eps, r));
        }
    }
    // binary mixtures of records of different classes (both DQ variants occur through the options of the C09 specs; default options here)
    let nmix = if thorough { 60 } else { 10 };
    for k in 0..nmix {
        let a = &pool[rng.below(pool.len())];
        let b = &pool[rng.below(pool.len())];
        if a.0 == b.0 { continue; }
        let mut ra = a.1.clone(); let mut rb = b.1.clone();
        ra["identifier"] = serde_json::json!({"name": "first"}); rb["identifier"] = serde_json::json!({"name": "second"});
        let js = serde_json::to_string(&vec![ra, rb]).unwrap();
        let kij = format!("{{\"k_ij\":{}}}", rng.range(-0.03, 0.05));
        if let Ok(r) = guarded(std::panic::AssertUnwindSafe(|| ResidualModel::PcSaft(pcsaft(&js, &[((0, 1), kij.as_str())])))) {
            out.push(mk(&format!("shipped-mix{}:{}+{}", k, a.0.trim_start_matches("shipped:"), b.0.trim_start_matches("shipped:")), "PcSaft", 500.0, r));
        }
    }
    // ---- SAFT-VR Mie (lafitte2013: alkanes, alcohols, ...)
    {
        let recs = load_records("saftvrmie/lafitte2013.json");
        let mut order: Vec<usize> = (0..recs.len()).collect();
        rng.shuffle(&mut order);
        for &i in order.iter().take(if thorough { recs.len() } else { 4 }) {
            let js = serde_json::to_string(&vec![recs[i].clone()]).unwrap();
            if let Ok(r) = guarded(std::panic::AssertUnwindSafe(|| ResidualModel::SaftVRMie(SaftVRMie::new(Arc::new(from_json_str::<SaftVRMieParameters>(&js, &[])))))) {
                let eps = recs[i]["model_record"]["epsilon_k"].as_f64().unwrap_or(250.0);
                out.push(mk(&format!("shipped:saftvrmie/lafitte2013.json[{}]:{}", i, rec_name(&recs[i])), "SaftVRMie", 1.5 * eps, r));
            }
        }
        for k in 0..(if thorough { 12 } else { 2 }) {
            let (i, j) = (order[rng.below(order.len())], order[rng.below(order.len())]);
            if i == j { continue; }
            let js = serde_json::to_string(&vec![recs[i].clone(), recs[j].clone()]).unwrap();
            let kij = format!("{{\"k_ij\":{}}}", rng.range(-0.02, 0.04));
            if let Ok(r) = guarded(std::panic::AssertUnwindSafe(|| ResidualModel::SaftVRMie(SaftVRMie::new(Arc::new(from_json_str::<SaftVRMieParameters>(&js, &[((0, 1), kij.as_str())])))))) {
                out.push(mk(&format!("shipped-mix{}:saftvrmie/lafitte2013.json[{}+{}]:{}+{}", k, i, j, rec_name(&recs[i]), rec_name(&recs[j])), "SaftVRMie", 450.0, r));
            }
        }
    }
    // ---- SAFT-VRQ Mie (Feynman-Hibbs order 1 and 2, additive hard sphere reference on/off)
    for file in ["saftvrqmie/aasen2019.json", "saftvrqmie/aasen2019_fh2.json", "saftvrqmie/hammer2023.json"] {
        let recs = load_records(file);
        let take = if thorough { recs.len() } else { 1 };
        let mut order: Vec<usize> = (0..recs.len()).collect();
        rng.shuffle(&mut order);
        for &i in order.iter().take(take) {
            let js = serde_json::to_string(&vec![recs[i].clone()]).unwrap();
            if let Ok(r) = guarded(std::panic::AssertUnwindSafe(|| ResidualModel::SaftVRQMie(SaftVRQMie::new(Arc::new(from_json_str::<SaftVRQMieParameters>(&js, &[])))))) {
                let eps = recs[i]["model_record"]["epsilon_k"].as_f64().unwrap_or(30.0);
                out.push(mk(&format!("shipped:{}[{}]:{}", file, i, rec_name(&recs[i])), "SaftVRQMie", 1.3 * eps, r));
            }
        }
    }
    // ---- gc-PC-SAFT: substances assembled from the shipped segment tables
    {
        let subs = load_records("pcsaft/gc_substances.json");
        let mut order: Vec<usize> = (0..subs.len()).collect();
        rng.shuffle(&mut order);
        let mut taken = 0;
        for &i in &order {
            if taken >= (if thorough { 24 } else { 3 }) { break; }
            let name = rec_name(&subs[i]);
            let r = guarded(std::panic::AssertUnwindSafe(|| GcPcSaftEosParameters::from_json_segments(&[name.as_str()], ppath("pcsaft/gc_substances.json"), ppath("pcsaft/sauer2014_hetero.json"), None, IdentifierOption::Name)));
            if let Ok(Ok(p)) = r {
                let rm = ResidualModel::GcPcSaft(GcPcSaft::new(Arc::new(p)));
                out.push(mk(&format!("shipped:gc_substances[{}]:{}(hetero)", i, name), "GcPcSaft", 500.0, rm));
                taken += 1;
            }
            let r = guarded(std::panic::AssertUnwindSafe(|| PcSaftParameters::from_json_segments(&[name.as_str()], ppath("pcsaft/gc_substances.json"), ppath("pcsaft/sauer2014_homo.json"), None, IdentifierOption::Name)));
            if let Ok(Ok(p)) = r {
                let rm = ResidualModel::PcSaft(PcSaft::new(Arc::new(p)));
                out.push(mk(&format!("shipped:gc_substances[{}]:{}(homo)", i, name), "PcSaft", 500.0, rm));
            }
        }
    }
    out
}

pub fn joback_for(n: usize) -> IdealGasModel {
    // simple, distinct Joback polynomials per component
    let recs: Vec<serde_json::Value> = (0..n)
        .map(|i| {
            serde_json::json!({"identifier":{"name":format!("c{}",i)},"molarweight":30.0+10.0*i as f64,
            "model_record":{"a":20.0+7.0*i as f64,"b":0.05+0.01*i as f64,"c":1.0e-4,"d":-3.0e-8*(1.0+i as f64),"e":1.0e-12}})
        })
        .collect();
    let j: Joback = from_json_str(&serde_json::to_string(&recs).unwrap(), &[]);
    IdealGasModel::Joback(Arc::new(j))
}

pub fn with_ideal_gas(r: &Arc<ResidualModel>, n: usize) -> Arc<Eos> {
    Arc::new(EquationOfState::new(Arc::new(joback_for(n)), r.clone()))
}

#[allow(dead_code)]
pub fn dippr_unused() -> Option<Dippr> {
    None
}
