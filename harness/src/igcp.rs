//! Recorder for the ideal-gas clauses of C10: heat-capacity correlations (Joback, DIPPR 100/107/127) versus the
//! heat capacity obtained from the ideal-gas Helmholtz energy of a State, and the zero-density limit of residual
//! properties. Closed forms and limits are stated in TLA+ (IdealGasModels.tla), not here.
use crate::red::*;
use crate::util::*;
use crate::zoo::{self, ppath};
use feos::ideal_gas::{Dippr, DipprRecord, IdealGasModel, Joback, JobackRecord};
use feos::ResidualModel;
use feos_core::parameter::{FromSegments, Identifier, IdentifierOption, Parameter, PureRecord};
use feos_core::{Contributions, EquationOfState, NoResidual, ReferenceSystem, Residual, State};
use ndarray::Array1;
use quantity::*;
use serde_json::{json, Value};
use std::sync::Arc;

fn jmk(x: MolarEntropy) -> f64 {
    x.convert_into(JOULE / (MOL * KELVIN))
}

fn record_ig(tr: &mut Tr, case: &str, kind: &str, coefs: Vec<Vec<f64>>, ig: IdealGasModel, cp_model: &dyn Fn(f64, &Array1<f64>) -> f64, x: &[f64], temps: &[f64]) {
    let n = x.len();
    let eos = Arc::new(EquationOfState::new(Arc::new(ig), Arc::new(ResidualModel::NoResidual(NoResidual(n)))));
    let xa = Array1::from_vec(x.to_vec());
    for &t in temps {
        let st = State::new_nvt(&eos, t * KELVIN, Volume::from_reduced(1000.0), &Moles::from_reduced(xa.clone() * 2.0));
        let Ok(st) = st else {
            tr.ev(json!({"ev":"Skip","case":case,"why":"state"}));
            continue;
        };
        let c = Contributions::IdealGas;
        tr.ev(json!({"ev":"IgCp","case":case,"kind":kind,"coefs":Value::Array(coefs.iter().map(|c| fv(c.iter())).collect()),
            "x":fv(x.iter()),"T":fs(t),
            "cp_model":fs(cp_model(t,&xa)),
            "cp_state":fs(jmk(st.molar_isobaric_heat_capacity(c))),
            "cp_state_total":fs(jmk(st.molar_isobaric_heat_capacity(Contributions::Total))),
            "cv_state":fs(jmk(st.molar_isochoric_heat_capacity(c)))}));
    }
}

fn temps(thorough: bool, rng: &mut Rng) -> Vec<f64> {
    let mut t = vec![150.0, 298.15, 600.0, 1500.0];
    for _ in 0..(if thorough { 12 } else { 3 }) {
        t.push(rng.range(150.0, 1500.0));
    }
    t
}

pub fn run_igcp(tr: &mut Tr, args: &Args, rng: &mut Rng) {
    // shipped DIPPR records (poling2000)
    let txt = std::fs::read_to_string(ppath("ideal_gas/poling2000.json")).unwrap();
    let recs: Vec<PureRecord<DipprRecord>> = serde_json::from_str(&txt).unwrap();
    let step = if args.thorough { 1 } else { 9 };
    for (i, r) in recs.iter().enumerate().step_by(step) {
        let (kind, co) = dippr_coefs(&r.model_record);
        let d = Arc::new(Dippr::from_records(vec![r.clone()], None).unwrap());
        let d2 = d.clone();
        record_ig(tr, &format!("poling2000/{}", i), kind, vec![co], IdealGasModel::Dippr(d),
            &move |t, x| jmk(d2.molar_isobaric_heat_capacity(t * KELVIN, x).unwrap()), &[1.0], &temps(args.thorough, rng));
    }
    // shipped Joback group parameters assembled for the shipped group-contribution substances
    let subs: Vec<Value> = serde_json::from_str(&std::fs::read_to_string(ppath("pcsaft/gc_substances.json")).unwrap()).unwrap();
    let names: Vec<String> = subs.iter().map(|s| s["identifier"]["name"].as_str().unwrap().to_owned()).collect();
    let stepj = if args.thorough { 1 } else { 6 };
    for (i, nm) in names.iter().enumerate().step_by(stepj) {
        let j = Joback::from_json_segments(&[nm.as_str()], ppath("pcsaft/gc_substances.json"), ppath("ideal_gas/joback1987.json"), None, IdentifierOption::Name);
        let Ok(j) = j else {
            tr.ev(json!({"ev":"Skip","case":format!("joback1987/{}",nm),"why":"segments not in joback1987"}));
            continue;
        };
        let m = &j.records().0[0].model_record;
        let co = vec![m.a, m.b, m.c, m.d, m.e];
        let j = Arc::new(j);
        let j2 = j.clone();
        record_ig(tr, &format!("joback1987/{}", nm), "joback", vec![co], IdealGasModel::Joback(j),
            &move |t, x| jmk(j2.molar_isobaric_heat_capacity(t * KELVIN, x).unwrap()), &[1.0], &temps(args.thorough, rng));
    }
    // the Joback group sum itself: random group coefficients (all five non-zero) with counts 1..4, and the shipped groups of the shipped substances
    let jco = |r: &JobackRecord| { let v = serde_json::to_value(r).unwrap(); ["a", "b", "c", "d", "e"].iter().map(|k| v[*k].as_f64().unwrap()).collect::<Vec<f64>>() };
    for k in 0..(if args.thorough { 200 } else { 30 }) {
        let ng = 1 + rng.below(4);
        let groups: Vec<(JobackRecord, usize)> = (0..ng).map(|_| (JobackRecord::new(rng.range(-40.0, 60.0), rng.range(-0.1, 0.4), rng.range(-4e-4, 4e-4), rng.range(-2e-7, 2e-7), rng.range(-1e-10, 1e-10)), 1 + rng.below(4))).collect();
        if let Ok(rec) = JobackRecord::from_segments(&groups) {
            tr.ev(json!({"ev":"JobackSegments","case":format!("random{}", k),"segments":groups.iter().map(|(g, n)| json!({"c": fv(jco(g).iter()), "n": n})).collect::<Vec<_>>(),"record":fv(jco(&rec).iter())}));
        }
    }
    {
        let table: Vec<Value> = serde_json::from_str(&std::fs::read_to_string(ppath("ideal_gas/joback1987.json")).unwrap()).unwrap();
        for (i, nm) in names.iter().enumerate().step_by(stepj) {
            let Ok(j) = Joback::from_json_segments(&[nm.as_str()], ppath("pcsaft/gc_substances.json"), ppath("ideal_gas/joback1987.json"), None, IdentifierOption::Name) else { continue };
            let segs: Vec<String> = subs[i]["segments"].as_array().unwrap().iter().map(|v| v.as_str().unwrap().to_owned()).collect();
            let mut uniq: Vec<String> = segs.clone(); uniq.sort(); uniq.dedup();
            let groups: Vec<Value> = uniq.iter().filter_map(|u| table.iter().find(|t| t["identifier"].as_str() == Some(u.as_str())).map(|t| {
                let m = &t["model_record"];
                json!({"c": fv(["a", "b", "c", "d", "e"].iter().map(|k| m[*k].as_f64().unwrap_or(0.0)).collect::<Vec<f64>>().iter()), "n": segs.iter().filter(|q| *q == u).count()})
            })).collect();
            if groups.len() == uniq.len() {
                tr.ev(json!({"ev":"JobackSegments","case":format!("joback1987/{}", nm),"segments":groups,"record":fv(jco(&j.records().0[0].model_record).iter())}));
            }
        }
    }
    // random coefficient sets of every form, pure and mixtures (mole-fraction average)
    let nrand = if args.thorough { 60 } else { 6 };
    for k in 0..nrand {
        let n = 1 + k % 3;
        let x = rng.simplex(n);
        for form in ["joback", "dippr100", "dippr107", "dippr127"] {
            let mut coefs = vec![];
            for _ in 0..n {
                coefs.push(match form {
                    "joback" => vec![rng.range(-40.0, 60.0), rng.range(-0.1, 0.4), rng.range(-4e-4, 4e-4), rng.range(-2e-7, 2e-7), rng.range(-1e-11, 1e-11)],
                    "dippr100" => (0..(2 + rng.below(4))).map(|i| rng.range(-1.0, 1.0) * 3.0e4 / 600f64.powi(i as i32)).collect(),
                    "dippr107" => vec![rng.range(3e4, 9e4), rng.range(2e4, 3e5), rng.range(500.0, 2500.0), rng.range(1e4, 2e5), rng.range(300.0, 1200.0)],
                    _ => vec![rng.range(3e4, 5e4), rng.range(1e4, 2e5), rng.range(400.0, 1500.0), rng.range(1e4, 2e5), rng.range(1200.0, 3000.0), rng.range(1e4, 1e5), rng.range(2500.0, 6000.0)],
                });
            }
            let case = format!("random/{}/{}", form, k);
            if form == "joback" {
                let recs = coefs.iter().map(|c| PureRecord::new(Identifier::default(), 1.0, JobackRecord::new(c[0], c[1], c[2], c[3], c[4]))).collect();
                let j = Arc::new(Joback::from_records(recs, None).unwrap());
                let j2 = j.clone();
                record_ig(tr, &case, form, coefs.clone(), IdealGasModel::Joback(j),
                    &move |t, x| jmk(j2.molar_isobaric_heat_capacity(t * KELVIN, x).unwrap()), &x, &temps(args.thorough, rng));
            } else {
                let recs = coefs.iter().map(|c| PureRecord::new(Identifier::default(), 1.0, match form {
                    "dippr100" => DipprRecord::eq100(c),
                    "dippr107" => DipprRecord::eq107(c[0], c[1], c[2], c[3], c[4]),
                    _ => DipprRecord::eq127(c[0], c[1], c[2], c[3], c[4], c[5], c[6]),
                })).collect();
                let d = Arc::new(Dippr::from_records(recs, None).unwrap());
                let d2 = d.clone();
                record_ig(tr, &case, form, coefs.clone(), IdealGasModel::Dippr(d),
                    &move |t, x| jmk(d2.molar_isobaric_heat_capacity(t * KELVIN, x).unwrap()), &x, &temps(args.thorough, rng));
            }
        }
    }
}

fn dippr_coefs(r: &DipprRecord) -> (&'static str, Vec<f64>) {
    match r {
        DipprRecord::DIPPR100(c) => ("dippr100", c.clone()),
        DipprRecord::DIPPR107(c) => ("dippr107", c.to_vec()),
        DipprRecord::DIPPR127(c) => ("dippr127", c.to_vec()),
    }
}

/// residual properties along rho_k = rho_0 * 10^-k
pub fn run_low_density(tr: &mut Tr, args: &Args, rng: &mut Rng) {
    for m in zoo::zoo(args.thorough) {
        let reps = if args.thorough { 6 } else { 2 };
        for r in 0..reps {
            let mut x = crate::thermo::sample_x(&m, rng, 1);
            let n = m.n;
            // every other series: one component in trace amount (ideal mixing must hold for all compositions down to 1e-12 of the maximum density)
            if n > 1 && r % 2 == 0 {
                let tot: f64 = x[2..].iter().sum();
                let k = 2 + rng.below(n);
                x[k] = tot * [1e-3, 1e-6, 1e-9][rng.below(3)];
            }
            let t0 = x[1];
            let eos_ig = if m.family == "ElectrolytePcSaft" { None } else { Some(zoo::with_ideal_gas(&m.eos, n)) };
            let ntot: f64 = x[2..].iter().sum();
            let rmax = m.eos.compute_max_density(&Array1::from_vec(x[2..].to_vec()));
            let rho0 = 0.3 * rmax;
            let mut series = vec![];
            for k in 0..13 {
                let rho = rho0 * 10f64.powi(-k);
                let st = State::new_nvt(&m.eos, Temperature::from_reduced(x[1]), Volume::from_reduced(ntot / rho),
                    &Moles::from_reduced(Array1::from_vec(x[2..].to_vec())));
                let Ok(st) = st else { continue };
                let t = x[1];
                // ideal mixing along the ladder: ideal-gas chemical potentials of the mixture and of each pure component at the same T and total density
                let (mut ig_mu, mut ig_pure): (Vec<f64>, Vec<f64>) = (vec![], vec![]);
                if let Some(eos_ig) = eos_ig.as_ref() {
                    use feos_core::Components;
                    if let Ok(sti) = State::new_nvt(eos_ig, Temperature::from_reduced(t0), Volume::from_reduced(ntot / rho), &Moles::from_reduced(Array1::from_vec(x[2..].to_vec()))) {
                        ig_mu = r1(sti.chemical_potential(Contributions::IdealGas)).to_vec();
                        for i in 0..n {
                            let sub = Arc::new(eos_ig.subset(&[i]));
                            let v = State::new_nvt(&sub, Temperature::from_reduced(t0), Volume::from_reduced(ntot / rho), &Moles::from_reduced(Array1::from_vec(vec![ntot])))
                                .map(|s| r1(s.chemical_potential(Contributions::IdealGas))[0]).unwrap_or(f64::NAN);
                            ig_pure.push(v);
                        }
                    }
                }
                series.push(json!({"rho": fs(rho), "rho_rel": fs(rho / rmax), "ig_mu": fv(ig_mu.iter()), "ig_mu_pure": fv(ig_pure.iter()),
                    "a": fs(r0(st.residual_helmholtz_energy()) / (ntot * t)),
                    "zm1": fs(st.compressibility(Contributions::Residual)),
                    "Z": fs(st.compressibility(Contributions::Total)),
                    "s": fs(r0(st.residual_entropy()) / ntot),
                    "mu": fv(r1(st.residual_chemical_potential()).iter().map(|v| v / t).collect::<Vec<_>>().iter()),
                    "ln_phi": fv(st.ln_phi().iter())}));
            }
            tr.ev(json!({"ev":"LowDensity","case":format!("{}#{}",m.name,r),"family":m.family,"n":n,"T":fs(x[1]),"N":fv(x[2..].iter()),"series":series}));
        }
    }
}

pub fn run(args: &Args) {
    let mut tr = Tr::create(&args.out);
    let mut rng = Rng::new(args.seed ^ 0x10);
    run_igcp(&mut tr, args, &mut rng);
    run_low_density(&mut tr, args, &mut rng);
    let n = tr.finish();
    println!("igcp trace: {} lines", n);
}
