//! C16 recorder: a profile equal to the bulk density everywhere, no external potential, on every grid type.
use crate::dftzoo::*;
use crate::util::*;
use feos_core::{Contributions, ReferenceSystem, State};
use feos_dft::{Axis, DFTProfile, Grid};
use ndarray::prelude::*;
use quantity::*;
use serde_json::{json, Value};

fn minmax<'a, I: Iterator<Item = &'a f64>>(it: I) -> (f64, f64) {
    it.fold((f64::INFINITY, f64::NEG_INFINITY), |(a, b), &x| (a.min(x), b.max(x)))
}

macro_rules! uniform_event {
    ($dim:ty, $grid:expr, $bulk:expr, $lanczos:expr, $meta:expr) => {{
        let bulk: &State<F> = $bulk;
        let profile: DFTProfile<$dim, F> = DFTProfile::new($grid, bulk, None, None, $lanczos);
        let mut ev: Value = $meta;
        let rho = profile.density.to_reduced();
        let (dmin, dmax) = minmax(rho.iter());
        ev["density_minmax"] = fv([dmin, dmax].iter());
        ev["rho_bulk_minmax"] = { let pd = bulk.partial_density.to_reduced(); let (a, b) = minmax(pd.iter()); fv([a, b].iter()) };
        // weighted densities: per contribution, per weighted density the min and max over the grid
        if let Ok(wd) = profile.weighted_densities() {
            let rows: Vec<Value> = wd.iter().map(|w| {
                Value::Array(w.outer_iter().map(|row| { let (a, b) = minmax(row.iter()); fv([a, b].iter()) }).collect())
            }).collect();
            ev["weighted_densities"] = Value::Array(rows);
        }
        match profile.residual(false) {
            Ok((res, res_bulk, norm)) => {
                let (a, b) = minmax(res.iter());
                ev["residual"] = json!({"ok": true, "min": fs(a), "max": fs(b), "norm": fs(norm), "bulk": fv(res_bulk.iter())});
            }
            Err(e) => ev["residual"] = json!({"ok": false, "err": e.to_string()}),
        }
        let p = bulk.pressure(Contributions::Total).to_reduced();
        ev["p_bulk"] = fs(p);
        if let Ok(om) = profile.grand_potential_density() {
            let (a, b) = minmax(om.to_reduced().iter());
            ev["omega_minmax"] = fv([a, b].iter());
        }
        let ones = Dimensionless::new(rho.index_axis(ndarray::Axis(0), 0).mapv(|_| 1.0));
        let v_int = profile.integrate(&ones).to_reduced();
        let v_rep = profile.volume().to_reduced();
        ev["volume_reported"] = fs(v_rep);
        ev["volume_integrated"] = fs(v_int);
        ev["moles"] = fv(profile.moles().to_reduced().iter());
        ev["rho_bulk"] = fv(bulk.partial_density.to_reduced().iter());
        if let Ok(o) = profile.grand_potential() {
            ev["grand_potential"] = fs(o.to_reduced());
        }
        ev
    }};
}

pub fn run(args: &Args) {
    let mut tr = Tr::create(&args.out);
    let mut rng = Rng::new(args.seed ^ 0x16);
    let n1: Vec<usize> = if args.thorough { vec![16, 64, 256, 1024, 4096] } else { vec![64, 256, 1024] };
    for fu in functionals(args.thorough) {
        let sig = if fu.name.starts_with("FMT") { 1.0 } else { 3.5 };
        for (sname, bulk) in bulk_states(&fu) {
            for &n in &n1 {
                for lz in [None, Some(1)] {
                    
                    let len = Length::from_reduced(sig * rng.range(8.0, 25.0));
                    for kind in ["cartesian", "spherical", "polar"] {
                        let axis = match kind { "cartesian" => Axis::new_cartesian(n, len, None), "spherical" => Axis::new_spherical(n, len), _ => Axis::new_polar(n, len) };
                        let grid = match kind { "cartesian" => Grid::Cartesian1(axis), "spherical" => Grid::Spherical(axis), _ => Grid::Polar(axis) };
                        let meta = json!({"ev":"Uniform","functional":fu.name,"state":sname,"grid":kind,"points":[n],"lanczos":lz.is_some(),"length":fs(len.to_reduced())});
                        let r = guarded(std::panic::AssertUnwindSafe(|| uniform_event!(Ix1, grid, &bulk, lz, meta.clone())));
                        match r { Ok(ev) => tr.ev(ev), Err(m) => tr.ev(json!({"ev":"Panic","functional":fu.name,"grid":kind,"msg":m})) }
                    }
                }
            }
            // 2-D and 3-D grids (small)
            
            let l = Length::from_reduced(sig * 10.0);
            let nn = if args.thorough { 32 } else { 16 };
            let ax = |n: usize| Axis::new_cartesian(n, l, None);
            let grids2: Vec<(&str, Grid)> = vec![
                ("cartesian2", Grid::Cartesian2(ax(nn), ax(nn))),
                ("periodical2(90)", Grid::Periodical2(ax(nn), ax(nn), 90.0 * DEGREES)),
                ("periodical2(60)", Grid::Periodical2(ax(nn), ax(nn), 60.0 * DEGREES)),
                ("cylindrical", Grid::Cylindrical { r: Axis::new_polar(2 * nn, l), z: ax(nn) }),
            ];
            for (kind, grid) in grids2 {
                let meta = json!({"ev":"Uniform","functional":fu.name,"state":sname,"grid":kind,"points":[nn, nn],"lanczos":false,"length":fs(l.to_reduced())});
                let r = guarded(std::panic::AssertUnwindSafe(|| uniform_event!(Ix2, grid, &bulk, None, meta.clone())));
                match r { Ok(ev) => tr.ev(ev), Err(m) => tr.ev(json!({"ev":"Panic","functional":fu.name,"grid":kind,"msg":m})) }
            }
            let n3 = if args.thorough { 16 } else { 8 };
            let grids3: Vec<(&str, Grid)> = vec![
                ("cartesian3", Grid::Cartesian3(ax(n3), ax(n3), ax(n3))),
                ("periodical3(90,90,90)", Grid::Periodical3(ax(n3), ax(n3), ax(n3), [90.0 * DEGREES, 90.0 * DEGREES, 90.0 * DEGREES])),
                ("periodical3(80,70,60)", Grid::Periodical3(ax(n3), ax(n3), ax(n3), [80.0 * DEGREES, 70.0 * DEGREES, 60.0 * DEGREES])),
            ];
            for (kind, grid) in grids3 {
                let meta = json!({"ev":"Uniform","functional":fu.name,"state":sname,"grid":kind,"points":[n3, n3, n3],"lanczos":false,"length":fs(l.to_reduced())});
                let r = guarded(std::panic::AssertUnwindSafe(|| uniform_event!(Ix3, grid, &bulk, None, meta.clone())));
                match r { Ok(ev) => tr.ev(ev), Err(m) => tr.ev(json!({"ev":"Panic","functional":fu.name,"grid":kind,"msg":m})) }
            }
        }
    }
    let n = tr.finish();
    println!("C16 trace: {} lines", n);
}
