//! Trace writer, deterministic PRNG, small helpers. No oracle logic lives in the harness:
//! it records observables as ndjson; TLC evaluates the specification on them.
use serde_json::{json, Value};
use std::fs::File;
use std::io::{BufWriter, Write};

pub fn repo() -> String {
    std::env::var("FEOS_REPO").unwrap_or_else(|_| "/repo".to_owned())
}

/// A double as a JSON string that round-trips through Java's Double.parseDouble.
pub fn fs(x: f64) -> Value {
    if x.is_nan() {
        json!("NaN")
    } else if x.is_infinite() {
        if x > 0.0 {
            json!("Infinity")
        } else {
            json!("-Infinity")
        }
    } else {
        Value::String(format!("{:e}", x))
    }
}

pub fn fv<'a, I: IntoIterator<Item = &'a f64>>(xs: I) -> Value {
    Value::Array(xs.into_iter().map(|x| fs(*x)).collect())
}

pub fn fm(a: &ndarray::Array2<f64>) -> Value {
    Value::Array(a.rows().into_iter().map(|r| fv(r.iter())).collect())
}

pub struct Tr {
    w: BufWriter<File>,
    pub lines: usize,
}

impl Tr {
    pub fn create(path: &str) -> Tr {
        if let Some(p) = std::path::Path::new(path).parent() {
            std::fs::create_dir_all(p).ok();
        }
        Tr {
            w: BufWriter::new(File::create(path).expect("cannot create trace file")),
            lines: 0,
        }
    }
    pub fn ev(&mut self, v: Value) {
        serde_json::to_writer(&mut self.w, &v).unwrap();
        self.w.write_all(b"\n").unwrap();
        self.lines += 1;
    }
    pub fn raw(&mut self, s: &str) {
        self.w.write_all(s.as_bytes()).unwrap();
        self.w.write_all(b"\n").unwrap();
        self.lines += 1;
    }
    /// move everything the hooks recorded so far into the trace (in sequence order)
    pub fn drain_hooks(&mut self) {
        let mut v = feos_core::verif::take();
        v.sort_by_key(|l| seq_of(l));
        for l in v {
            self.raw(&l);
        }
    }
    pub fn finish(mut self) -> usize {
        self.w.flush().unwrap();
        self.lines
    }
}

pub fn seq_of(line: &str) -> u64 {
    // {"ev":"..","seq":N,...
    line.find("\"seq\":")
        .map(|i| {
            line[i + 6..]
                .chars()
                .take_while(|c| c.is_ascii_digit())
                .collect::<String>()
                .parse()
                .unwrap_or(0)
        })
        .unwrap_or(0)
}

/// splitmix64
#[derive(Clone)]
pub struct Rng(pub u64);
impl Rng {
    pub fn new(seed: u64) -> Rng {
        Rng(seed.wrapping_mul(0x9E3779B97F4A7C15).wrapping_add(0x1234_5678_9abc_def1))
    }
    pub fn next(&mut self) -> u64 {
        self.0 = self.0.wrapping_add(0x9E3779B97F4A7C15);
        let mut z = self.0;
        z = (z ^ (z >> 30)).wrapping_mul(0xBF58476D1CE4E5B9);
        z = (z ^ (z >> 27)).wrapping_mul(0x94D049BB133111EB);
        z ^ (z >> 31)
    }
    pub fn f(&mut self) -> f64 {
        (self.next() >> 11) as f64 / (1u64 << 53) as f64
    }
    pub fn range(&mut self, a: f64, b: f64) -> f64 {
        a + (b - a) * self.f()
    }
    /// log-uniform
    pub fn lrange(&mut self, a: f64, b: f64) -> f64 {
        (a.ln() + (b.ln() - a.ln()) * self.f()).exp()
    }
    pub fn below(&mut self, n: usize) -> usize {
        (self.next() % n as u64) as usize
    }
    pub fn pick<'a, T>(&mut self, v: &'a [T]) -> &'a T {
        &v[self.below(v.len())]
    }
    pub fn shuffle<T>(&mut self, v: &mut [T]) {
        for i in (1..v.len()).rev() {
            let j = self.below(i + 1);
            v.swap(i, j);
        }
    }
    /// random point in the open simplex, bounded away from the faces
    pub fn simplex(&mut self, n: usize) -> Vec<f64> {
        let mut x: Vec<f64> = (0..n).map(|_| 0.08 + self.f()).collect();
        let s: f64 = x.iter().sum();
        x.iter_mut().for_each(|v| *v /= s);
        x
    }
}

pub struct Args {
    pub cmd: String,
    pub out: String,
    pub seed: u64,
    pub thorough: bool,
    pub plan: Option<String>,
    pub extra: Vec<String>,
}

pub fn parse_args() -> Args {
    let a: Vec<String> = std::env::args().collect();
    let mut r = Args {
        cmd: a.get(1).cloned().unwrap_or_default(),
        out: "out/trace.ndjson".to_owned(),
        seed: 1,
        thorough: false,
        plan: None,
        extra: vec![],
    };
    let mut i = 2;
    while i < a.len() {
        match a[i].as_str() {
            "--out" => {
                r.out = a[i + 1].clone();
                i += 1;
            }
            "--seed" => {
                r.seed = a[i + 1].parse().unwrap_or(1);
                i += 1;
            }
            "--tier" => {
                r.thorough = a[i + 1] == "thorough";
                i += 1;
            }
            "--plan" => {
                r.plan = Some(a[i + 1].clone());
                i += 1;
            }
            x => r.extra.push(x.to_owned()),
        }
        i += 1;
    }
    r
}

/// run a closure, turning a panic of the code under test into data
pub fn guarded<T, F: FnOnce() -> T + std::panic::UnwindSafe>(f: F) -> Result<T, String> {
    std::panic::catch_unwind(f).map_err(|e| {
        if let Some(s) = e.downcast_ref::<&str>() {
            s.to_string()
        } else if let Some(s) = e.downcast_ref::<String>() {
            s.clone()
        } else {
            "panic".to_owned()
        }
    })
}
