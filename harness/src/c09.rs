//! C09 driver: TLC-generated component transformations (permute / ordered subset / pad / split) applied to model
//! specifications of every family, base and image recorded at corresponding states.
use crate::mspec::{specs, MSpec};
use crate::red::*;
use crate::util::*;
use feos::ResidualModel;
use feos_core::{Components, Contributions, PhaseEquilibrium, ReferenceSystem, Residual, SolverOptions, State};
use ndarray::Array1;
use quantity::*;
use serde_json::{json, Value};
use std::sync::Arc;

type M = ResidualModel;
const R: Contributions = Contributions::Residual;

pub fn obs(eos: &Arc<M>, t: f64, v: f64, n: &[f64]) -> Value {
    let st = State::new_nvt(eos, Temperature::from_reduced(t), Volume::from_reduced(v), &Moles::from_reduced(Array1::from_vec(n.to_vec())));
    match st {
        Ok(s) => json!({"ok": true, "A": fs(r0(s.residual_helmholtz_energy())), "p": fs(r0(s.pressure(R))), "S": fs(r0(s.residual_entropy())),
            "mu": fv(r1(s.residual_chemical_potential()).iter()), "dp_dni": fv(r1(s.dp_dni(R)).iter()), "dmu_dni": fm(&r2(s.dmu_dni(R))),
            "dmu_dt": fv(r1(s.dmu_res_dt()).iter()), "maxdens": fs(eos.compute_max_density(&Array1::from_vec(n.to_vec())))}),
        Err(_) => json!({"ok": false}),
    }
}

fn usv(v: &Value) -> Vec<usize> {
    v.as_array().unwrap().iter().map(|x| x.as_u64().unwrap() as usize).collect()
}

pub fn run(args: &Args) {
    let mut tr = Tr::create(&args.out);
    let mut rng = Rng::new(args.seed ^ 0x09);
    let plan: Vec<Value> = std::fs::read_to_string(args.plan.as_ref().expect("--plan")).unwrap().lines().map(|l| serde_json::from_str(l).unwrap()).collect();
    for sp in specs() {
        let nfull = sp.n();
        for p in &plan {
            let n = p["n"].as_u64().unwrap() as usize;
            if n > nfull {
                continue;
            }
            // the base model: the first n components of the specification
            let base_spec = sp.subset(&(0..n).collect::<Vec<_>>());
            let kind = p["kind"].as_str().unwrap();
            let map = usv(&p["map"]);
            let arg = p["arg"].as_u64().unwrap() as usize;
            for _rep in 0..(if args.thorough { 4 } else { 1 }) {
                let res = guarded(std::panic::AssertUnwindSafe(|| event(&sp, &base_spec, n, kind, &map, arg, &mut rng.clone())));
                match res {
                    Ok(ev) => tr.ev(ev),
                    Err(m) => tr.ev(json!({"ev":"Panic","model":sp.name,"kind":kind,"map":map,"msg":m})),
                }
                rng.next();
            }
        }
    }
    // pure-component and solvent quantities derived inside mixture algorithms: activity coefficients (pure liquid reference) and Henry constants
    for sp in specs() {
        if sp.n() < 2 { continue }
        for rep in 0..(if args.thorough { 3 } else { 1 }) {
            let res = guarded(std::panic::AssertUnwindSafe(|| derived_event(&sp, rep, &mut rng.clone())));
            match res {
                Ok(ev) => tr.ev(ev),
                Err(m) => tr.ev(json!({"ev":"Panic","model":sp.name,"kind":"derived","map":[0],"msg":m})),
            }
            rng.next();
        }
    }
    let n = tr.finish();
    println!("C09 trace: {} lines", n);
}

fn event(sp: &MSpec, base_spec: &MSpec, n: usize, kind: &str, map: &[usize], arg: usize, rng: &mut Rng) -> Value {
    let base = Arc::new(base_spec.build());
    let x = rng.simplex(n);
    let ntot = rng.lrange(0.5, 4.0);
    let moles: Vec<f64> = x.iter().map(|v| v * ntot).collect();
    let rmax = base.compute_max_density(&Array1::from_vec(moles.clone()));
    let v = ntot / (rmax * rng.range(0.05, 0.8));
    let t = sp.tscale * rng.range(0.7, 1.6);
    let mut ev = json!({"ev":"Transform","model":sp.name,"family":sp.family,"opt":sp.opt,"n":n,"kind":kind,"map":map,"arg":arg,"T":fs(t),"V":fs(v),"N":fv(moles.iter())});
    match kind {
        "perm" => {
            let perm0: Vec<usize> = map.iter().map(|k| k - 1).collect();
            let img = Arc::new(base_spec.permuted(&perm0).build());
            let m2: Vec<f64> = perm0.iter().map(|&i| moles[i]).collect();
            ev["base"] = obs(&base, t, v, &moles);
            ev["img"] = obs(&img, t, v, &m2);
        }
        "subset" => {
            // library sub-model of the n-component base vs the model built directly from the same records and options
            let list0: Vec<usize> = map.iter().map(|k| k - 1).collect();
            let lib = Arc::new(base.subset(&list0));
            let direct = Arc::new(base_spec.subset(&list0).build());
            let m2: Vec<f64> = list0.iter().map(|&i| moles[i]).collect();
            let vv = m2.iter().sum::<f64>() / (direct.compute_max_density(&Array1::from_vec(m2.clone())) * 0.4);
            ev["base"] = obs(&direct, t, vv, &m2);
            ev["img"] = obs(&lib, t, vv, &m2);
            ev["map"] = json!((1..=list0.len()).collect::<Vec<_>>()); // identity between the two sub-models
            ev["list"] = json!(map);
            if list0.len() == 1 {
                // pure-component quantities derived inside mixture algorithms are those of the pure model
                let i = list0[0];
                let tt = Temperature::from_reduced(sp.tscale * 0.75);
                let psat_lib = PhaseEquilibrium::vapor_pressure(&base, tt)[i].map(|p| p.to_reduced());
                let psat_dir = PhaseEquilibrium::pure(&direct, tt, None, SolverOptions::default()).ok().map(|pe| pe.vapor().pressure(Contributions::Total).to_reduced());
                let tc_lib = State::critical_point_pure(&base, None, SolverOptions::default()).ok().map(|v| v[i].temperature.to_reduced());
                let tc_dir = State::critical_point(&direct, None, None, SolverOptions::default()).ok().map(|s| s.temperature.to_reduced());
                ev["derived"] = json!({"psat_lib": fs(psat_lib.unwrap_or(f64::NAN)), "psat_direct": fs(psat_dir.unwrap_or(f64::NAN)),
                                       "tc_lib": fs(tc_lib.unwrap_or(f64::NAN)), "tc_direct": fs(tc_dir.unwrap_or(f64::NAN))});
            }
        }
        "pad" => {
            // the foreign component: the next record of the full specification (or the first one again)
            let extra = sp.records[if n < sp.n() { n } else { 0 }].clone();
            let img = Arc::new(base_spec.padded(arg - 1, extra).build());
            let mut m2 = moles.clone();
            m2.insert(arg - 1, 0.0);
            ev["base"] = obs(&base, t, v, &moles);
            ev["img"] = obs(&img, t, v, &m2);
        }
        _ => {
            let c = arg - 1;
            let img = Arc::new(base_spec.split(c).build());
            let alpha = rng.range(0.2, 0.8);
            let mut m2 = moles.clone();
            m2[c] = alpha * moles[c];
            m2.push((1.0 - alpha) * moles[c]);
            ev["base"] = obs(&base, t, v, &moles);
            ev["img"] = obs(&img, t, v, &m2);
        }
    }
    ev
}


fn nanv(n: usize) -> Vec<f64> { vec![f64::NAN; n] }

/// Activity coefficients and Henry constants of the full model, next to the same quantities assembled from sub-models that are built directly
/// from the records (never through `subset`), and the Henry constants of the model with its components in reversed order.
fn derived_event(sp: &MSpec, rep: usize, rng: &mut Rng) -> Value {
    let n = sp.n();
    let base = Arc::new(sp.build());
    let rev: Vec<usize> = (0..n).rev().collect();
    let img = Arc::new(sp.permuted(&rev).build());
    let t = Temperature::from_reduced(sp.tscale * [0.75, 0.65, 0.85][rep % 3]);
    let x = rng.simplex(n);
    let one = Moles::from_reduced(Array1::from_vec(vec![1.0]));
    let mut ev = json!({"ev":"Derived","model":sp.name,"family":sp.family,"n":n,"T":fs(t.to_reduced()),"x":fv(x.iter())});
    // a liquid state of the mixture at 100 bar
    let p = 1.0e7 * PASCAL;
    if let Ok(st) = State::new_npt(&base, t, p, &Moles::from_reduced(Array1::from_vec(x.clone())), feos_core::DensityInitialization::Liquid) {
        let direct: Vec<f64> = (0..n).map(|i| {
            let pure = Arc::new(sp.subset(&[i]).build());
            State::new_npt(&pure, t, st.pressure(Contributions::Total), &one, feos_core::DensityInitialization::Liquid).map(|s| s.ln_phi()[0]).unwrap_or(f64::NAN)
        }).collect();
        ev["activity"] = json!({"ln_phi": fv(st.ln_phi().iter()),
            "ln_phi_pure_lib": fv(st.ln_phi_pure_liquid().map(|a| a.to_vec()).unwrap_or(nanv(n)).iter()),
            "ln_gamma_lib": fv(st.ln_symmetric_activity_coefficient().map(|a| a.to_vec()).unwrap_or(nanv(n)).iter()),
            "ln_phi_pure_direct": fv(direct.iter())});
    }
    // Henry constants: every single solvent, and the first two components as a mixed solvent when there is a third one
    let mut solvents: Vec<(Vec<usize>, Vec<f64>)> = (0..n).map(|j| (vec![j], vec![1.0])).collect();
    if n >= 3 { solvents.push((vec![0, 1], vec![0.4, 0.6])); solvents.push((vec![n - 1, 0], vec![0.7, 0.3])); }
    let mut hs = vec![];
    // a mixed solvent is used only where each of its components has a vapor pressure at T: with a (far) supercritical "solvent" component the bubble point of
    // the solvent is ill-conditioned and its convergence depends on starting values, which is not what C09 is about
    let subcritical: Vec<bool> = (0..n).map(|i| {
        let pure = Arc::new(sp.subset(&[i]).build());
        PhaseEquilibrium::pure(&pure, t, None, SolverOptions::default()).is_ok()
    }).collect();
    for (sv, xs) in solvents {
        if sv.len() > 1 && sv.iter().any(|&i| !subcritical[i]) { continue; }
        let mut sorted: Vec<(usize, f64)> = sv.iter().cloned().zip(xs.iter().cloned()).collect();
        sorted.sort_by_key(|a| a.0);
        let mut mf = vec![0.0; n];
        for (i, xi) in &sorted { mf[*i] = *xi; }
        let lib = State::henrys_law_constant(&base, t, &Array1::from_vec(mf.clone())).map(|h| h.to_reduced().to_vec());
        let mf_rev: Vec<f64> = rev.iter().map(|&i| mf[i]).collect();
        let lib_rev = State::henrys_law_constant(&img, t, &Array1::from_vec(mf_rev)).map(|h| h.to_reduced().to_vec());
        // the solvent model built directly from its records, in index order
        let idx: Vec<usize> = sorted.iter().map(|a| a.0).collect();
        let xsol: Vec<f64> = sorted.iter().map(|a| a.1).collect();
        let solvent = Arc::new(sp.subset(&idx).build());
        let vle = if idx.len() == 1 { PhaseEquilibrium::pure(&solvent, t, None, SolverOptions::default()) }
                  else { PhaseEquilibrium::bubble_point(&solvent, t, &Array1::from_vec(xsol.clone()), None, None, Default::default()) };
        let mut h = json!({"solvent": idx.iter().map(|i| i + 1).collect::<Vec<_>>(), "x_solvent": fv(xsol.iter()), "lib_ok": lib.is_ok(), "lib": fv(lib.unwrap_or_default().iter()),
            "rev_ok": lib_rev.is_ok(), "lib_reversed_model": fv(lib_rev.unwrap_or_default().iter()), "direct_ok": false});
        if let Ok(vle) = vle {
            let mut mv = mf.clone();
            for (k, &i) in idx.iter().enumerate() { mv[i] = vle.vapor().molefracs[k]; }
            let liq = State::new_nvt(&base, t, vle.liquid().volume, &(Moles::from_reduced(Array1::from_vec(mf.clone())) * vle.liquid().total_moles.to_reduced()));
            let vap = State::new_nvt(&base, t, vle.vapor().volume, &(Moles::from_reduced(Array1::from_vec(mv)) * vle.vapor().total_moles.to_reduced()));
            if let (Ok(liq), Ok(vap)) = (liq, vap) {
                h["direct_ok"] = json!(true);
                h["p"] = fs(vle.vapor().pressure(Contributions::Total).to_reduced());
                h["ln_phi_liquid"] = fv(liq.ln_phi().iter());
                h["ln_phi_vapor"] = fv(vap.ln_phi().iter());
            }
        }
        hs.push(h);
    }
    ev["henry"] = json!(hs);
    ev
}
