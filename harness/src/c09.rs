//! C09 driver: TLC-generated component transformations (permute / ordered subset / pad / split) applied to model
//! specifications of every family, base and image recorded at corresponding states.
use crate::mspec::{specs, MSpec};
use crate::red::*;
use crate::util::*;
use feos::ResidualModel;
use feos_core::{Components, Contributions, PhaseEquilibrium, ReferenceSystem, Residual, SolverOptions, State};
use ndarray::Array1;
use quantity::*;
use serde_json::{json, Value};
use std::sync::Arc;

type M = ResidualModel;
const R: Contributions = Contributions::Residual;

pub fn obs(eos: &Arc<M>, t: f64, v: f64, n: &[f64]) -> Value {
    let st = State::new_nvt(eos, Temperature::from_reduced(t), Volume::from_reduced(v), &Moles::from_reduced(Array1::from_vec(n.to_vec())));
    match st {
        Ok(s) => json!({"ok": true, "A": fs(r0(s.residual_helmholtz_energy())), "p": fs(r0(s.pressure(R))), "S": fs(r0(s.residual_entropy())),
            "mu": fv(r1(s.residual_chemical_potential()).iter()), "dp_dni": fv(r1(s.dp_dni(R)).iter()), "dmu_dni": fm(&r2(s.dmu_dni(R))),
            "dmu_dt": fv(r1(s.dmu_res_dt()).iter()), "maxdens": fs(eos.compute_max_density(&Array1::from_vec(n.to_vec())))}),
        Err(_) => json!({"ok": false}),
    }
}

fn usv(v: &Value) -> Vec<usize> {
    v.as_array().unwrap().iter().map(|x| x.as_u64().unwrap() as usize).collect()
}

pub fn run(args: &Args) {
    let mut tr = Tr::create(&args.out);
    let mut rng = Rng::new(args.seed ^ 0x09);
    let plan: Vec<Value> = std::fs::read_to_string(args.plan.as_ref().expect("--plan")).unwrap().lines().map(|l| serde_json::from_str(l).unwrap()).collect();
    for sp in specs() {
        let nfull = sp.n();
        for p in &plan {
            let n = p["n"].as_u64().unwrap() as usize;
            if n > nfull {
                continue;
            }
            // the base model: the first n components of the specification
            let base_spec = sp.subset(&(0..n).collect::<Vec<_>>());
            let kind = p["kind"].as_str().unwrap();
            let map = usv(&p["map"]);
            let arg = p["arg"].as_u64().unwrap() as usize;
            for _rep in 0..(if args.thorough { 4 } else { 1 }) {
                let res = guarded(std::panic::AssertUnwindSafe(|| event(&sp, &base_spec, n, kind, &map, arg, &mut rng.clone())));
                match res {
                    Ok(ev) => tr.ev(ev),
                    Err(m) => tr.ev(json!({"ev":"Panic","model":sp.name,"kind":kind,"map":map,"msg":m})),
                }
                rng.next();
            }
        }
    }
    let n = tr.finish();
    println!("C09 trace: {} lines", n);
}

fn event(sp: &MSpec, base_spec: &MSpec, n: usize, kind: &str, map: &[usize], arg: usize, rng: &mut Rng) -> Value {
    let base = Arc::new(base_spec.build());
    let x = rng.simplex(n);
    let ntot = rng.lrange(0.5, 4.0);
    let moles: Vec<f64> = x.iter().map(|v| v * ntot).collect();
    let rmax = base.compute_max_density(&Array1::from_vec(moles.clone()));
    let v = ntot / (rmax * rng.range(0.05, 0.8));
    let t = sp.tscale * rng.range(0.7, 1.6);
    let mut ev = json!({"ev":"Transform","model":sp.name,"family":sp.family,"opt":sp.opt,"n":n,"kind":kind,"map":map,"arg":arg,"T":fs(t),"V":fs(v),"N":fv(moles.iter())});
    match kind {
        "perm" => {
            let perm0: Vec<usize> = map.iter().map(|k| k - 1).collect();
            let img = Arc::new(base_spec.permuted(&perm0).build());
            let m2: Vec<f64> = perm0.iter().map(|&i| moles[i]).collect();
            ev["base"] = obs(&base, t, v, &moles);
            ev["img"] = obs(&img, t, v, &m2);
        }
        "subset" => {
            // library sub-model of the n-component base vs the model built directly from the same records and options
            let list0: Vec<usize> = map.iter().map(|k| k - 1).collect();
            let lib = Arc::new(base.subset(&list0));
            let direct = Arc::new(base_spec.subset(&list0).build());
            let m2: Vec<f64> = list0.iter().map(|&i| moles[i]).collect();
            let vv = m2.iter().sum::<f64>() / (direct.compute_max_density(&Array1::from_vec(m2.clone())) * 0.4);
            ev["base"] = obs(&direct, t, vv, &m2);
            ev["img"] = obs(&lib, t, vv, &m2);
            ev["map"] = json!((1..=list0.len()).collect::<Vec<_>>()); // identity between the two sub-models
            ev["list"] = json!(map);
            if list0.len() == 1 {
                // pure-component quantities derived inside mixture algorithms are those of the pure model
                let i = list0[0];
                let tt = Temperature::from_reduced(sp.tscale * 0.75);
                let psat_lib = PhaseEquilibrium::vapor_pressure(&base, tt)[i].map(|p| p.to_reduced());
                let psat_dir = PhaseEquilibrium::pure(&direct, tt, None, SolverOptions::default()).ok().map(|pe| pe.vapor().pressure(Contributions::Total).to_reduced());
                let tc_lib = State::critical_point_pure(&base, None, SolverOptions::default()).ok().map(|v| v[i].temperature.to_reduced());
                let tc_dir = State::critical_point(&direct, None, None, SolverOptions::default()).ok().map(|s| s.temperature.to_reduced());
                ev["derived"] = json!({"psat_lib": fs(psat_lib.unwrap_or(f64::NAN)), "psat_direct": fs(psat_dir.unwrap_or(f64::NAN)),
                                       "tc_lib": fs(tc_lib.unwrap_or(f64::NAN)), "tc_direct": fs(tc_dir.unwrap_or(f64::NAN))});
            }
        }
        "pad" => {
            // the foreign component: the next record of the full specification (or the first one again)
            let extra = sp.records[if n < sp.n() { n } else { 0 }].clone();
            let img = Arc::new(base_spec.padded(arg - 1, extra).build());
            let mut m2 = moles.clone();
            m2.insert(arg - 1, 0.0);
            ev["base"] = obs(&base, t, v, &moles);
            ev["img"] = obs(&img, t, v, &m2);
        }
        _ => {
            let c = arg - 1;
            let img = Arc::new(base_spec.split(c).build());
            let alpha = rng.range(0.2, 0.8);
            let mut m2 = moles.clone();
            m2[c] = alpha * moles[c];
            m2.push((1.0 - alpha) * moles[c]);
            ev["base"] = obs(&base, t, v, &moles);
            ev["img"] = obs(&img, t, v, &m2);
        }
    }
    ev
}
