//! Replay of the TLC-generated Rachford-Rice plan against the real function (hook H7) plus seeded random inputs.
//! Records what the code returned next to what the specification predicted; TLC compares (TraceRachfordRice.tla).
use crate::util::*;
use ndarray::Array1;
use serde_json::{json, Value};

fn pf(v: &Value) -> f64 {
    match v.as_str().unwrap() {
        "NaN" => f64::NAN,
        "Infinity" => f64::INFINITY,
        "-Infinity" => f64::NEG_INFINITY,
        s => s.parse().unwrap(),
    }
}

fn call(z: &[f64], k: &[f64], b: Option<f64>) -> Value {
    let r = guarded(std::panic::AssertUnwindSafe(|| feos_core::verif_rachford_rice(&Array1::from_vec(z.to_vec()), &Array1::from_vec(k.to_vec()), b)));
    match r {
        Ok(Ok(beta)) => json!({"status": "Ok", "beta": fs(beta)}),
        Ok(Err(_)) => json!({"status": "Err", "beta": "NaN"}),
        Err(m) => json!({"status": format!("Panic:{}", m), "beta": "NaN"}),
    }
}

pub fn run(args: &Args) {
    std::panic::set_hook(Box::new(|_| {}));
    let mut tr = Tr::create(&args.out);
    let mut rng = Rng::new(args.seed ^ 0x55);
    let plan = std::fs::read_to_string(args.plan.as_ref().expect("--plan")).unwrap();
    for line in plan.lines() {
        let c: Value = serde_json::from_str(line).unwrap();
        let z: Vec<f64> = c["z"].as_array().unwrap().iter().map(pf).collect();
        let k: Vec<f64> = c["k"].as_array().unwrap().iter().map(pf).collect();
        let b = if c["betaIn"] == json!("none") { None } else { Some(pf(&c["betaIn"])) };
        tr.ev(json!({"ev":"RachfordRice","z":c["z"],"k":c["k"],"betaIn":c["betaIn"],
            "predicted":{"status":c["status"],"beta":c["beta"],"iterations":c["iterations"]},"code":call(&z, &k, b)}));
    }
    let nrand = if args.thorough { 20000 } else { 1500 };
    for i in 0..nrand {
        let n = 2 + rng.below(4);
        let mut z: Vec<f64> = (0..n).map(|_| if rng.below(5) == 0 { rng.lrange(1e-10, 1e-3) } else { rng.range(0.05, 1.0) }).collect();
        let s: f64 = z.iter().sum();
        z.iter_mut().for_each(|v| *v /= s);
        let span = [1.5, 10.0, 1e3, 1e8][i % 4];
        let k: Vec<f64> = (0..n).map(|_| rng.lrange(1.0 / span, span)).collect();
        // two thirds of the cases: a feed that does have a root (z = x (1 - b + b K) for a random liquid composition x and vapor fraction b)
        if i % 3 != 0 {
            let b0 = if i % 2 == 0 { rng.f() } else { rng.lrange(1e-9, 0.5) };
            let zz: Vec<f64> = z.iter().zip(&k).map(|(x, kk)| x * (1.0 - b0 + b0 * kk)).collect();
            let s: f64 = zz.iter().sum();
            z = zz.iter().map(|v| v / s).collect();
        }
        let b = match rng.below(3) { 0 => None, 1 => Some(rng.f()), _ => Some(rng.range(-0.2, 1.2)) };
        tr.ev(json!({"ev":"RachfordRice","z":fv(z.iter()),"k":fv(k.iter()),"betaIn":b.map(fs).unwrap_or(json!("none")),"code":call(&z, &k, b)}));
    }
    let n = tr.finish();
    println!("Rachford-Rice trace: {} lines", n);
}
