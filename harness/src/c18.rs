//! C18 recorder: solved density profiles (planar interfaces, pores) for TLC-generated solver chains, initial profiles
//! and specifications. Records the solver log, the recomputed residual and observables; the laws are in TraceDft.tla.
use crate::dftzoo::*;
use crate::util::*;
use feos_core::{Contributions, PhaseEquilibrium, ReferenceSystem, SolverOptions, State};
use feos_dft::adsorption::{ExternalPotential, Pore1D, PoreSpecification};
use feos_dft::interface::PlanarInterface;
use feos_dft::solvation::{PairCorrelation, SolvationProfile};
use feos_dft::{DFTProfile, DFTSolver, DFTSpecifications, Geometry};
use ndarray::{Ix1, Ix3};
use quantity::*;
use serde_json::{json, Value};
use std::sync::Arc;

pub fn solver_of(chain: &Value) -> DFTSolver {
    let mut s = DFTSolver::new(None);
    for st in chain.as_array().unwrap() {
        let tol = Some(10f64.powi(-(st["tol"].as_i64().unwrap() as i32)));
        let log = Some(st["log"].as_bool().unwrap());
        s = match st["algo"].as_str().unwrap() {
            "picard" => s.picard_iteration(log, Some(400), tol, None),
            "anderson" => s.anderson_mixing(log, Some(300), tol, None, None),
            _ => s.newton(log, Some(40), None, tol),
        };
    }
    s
}

macro_rules! def_observe {
    ($name:ident, $dim:ty) => {
        fn $name(profile: &DFTProfile<$dim, F>, bulk_before: &State<F>) -> Value {
    let rho = profile.density.to_reduced();
    let (mn, mx) = rho.iter().fold((f64::INFINITY, f64::NEG_INFINITY), |(a, b), &x| (a.min(x), b.max(x)));
    let finite = rho.iter().all(|x| x.is_finite());
    let res = profile.residual(false).map(|r| r.2).unwrap_or(f64::NAN);
    let log = profile.solver_log.as_ref();
    let names: Vec<String> = log.map(|l| l.solver().iter().map(|s| s.to_string()).collect()).unwrap_or_default();
    let resid: Vec<f64> = log.map(|l| l.residual().to_vec()).unwrap_or_default();
    // compress the log: per contiguous run of one solver name: (name, entries, first residual, last residual)
    let mut runs: Vec<Value> = vec![];
    let mut i = 0;
    while i < names.len() {
        let mut j = i;
        while j + 1 < names.len() && names[j + 1] == names[i] { j += 1; }
        runs.push(json!({"solver": names[i], "entries": j - i + 1, "first": fs(resid[i]), "last": fs(resid[j])}));
        i = j + 1;
    }
    json!({"density_min": fs(mn), "density_max": fs(mx), "finite": finite, "residual": fs(res), "runs": runs,
        "moles": fv(profile.moles().to_reduced().iter()), "omega": fs(profile.grand_potential().map(|o| o.to_reduced()).unwrap_or(f64::NAN)),
        "bulk_rho_before": fv(bulk_before.partial_density.to_reduced().iter()), "bulk_rho_after": fv(profile.bulk.partial_density.to_reduced().iter())})
}
    };
}
def_observe!(observe, Ix1);
def_observe!(observe3, Ix3);

pub fn run(args: &Args) {
    let mut tr = Tr::create(&args.out);
    let mut rng = Rng::new(args.seed ^ 0x18);
    let plan: Vec<Value> = std::fs::read_to_string(args.plan.as_ref().expect("--plan")).unwrap().lines().map(|l| serde_json::from_str(l).unwrap()).collect();
    let nchains = if args.thorough { 40 } else { 12 };
    let n_grid = 512;
    for fu in functionals(false) {
        if !["PcSaft/propane", "PcSaft/butane+pentane", "GcPcSaft/butane", "Pets", "FMT(WhiteBear)"].contains(&fu.name.as_str()) { continue; }
        // quick tier: all systems for three functionals; the binary mixture only with the particle-number specifications (several segments)
        let quick_full = ["PcSaft/propane", "FMT(WhiteBear)", "Pets"].contains(&fu.name.as_str());
        if !args.thorough && !quick_full && fu.name != "PcSaft/butane+pentane" { continue; }
        let systems_wanted = args.thorough || quick_full;
        // ---- systems
        let mut systems: Vec<(String, Box<dyn Fn(&str) -> Option<(DFTProfile<Ix1, F>, Option<PhaseEquilibrium<F, 2>>)>>)> = vec![];
        if fu.name.starts_with("FMT") {
            let f = fu.f.clone();
            systems.push(("hard-wall slit pore".into(), Box::new(move |_init| {
                let bulk = State::new_pure(&f, Temperature::from_reduced(1.0), Density::from_reduced(0.6)).ok()?;
                let pore = Pore1D::new(Geometry::Cartesian, Length::from_reduced(8.0), ExternalPotential::HardWall { sigma_ss: 1.0 }, Some(n_grid), None);
                pore.initialize(&bulk, None, None).ok().map(|p| (p.profile, None))
            })));
        } else {
            let t = Temperature::from_reduced(fu.t);
            let vle = if fu.n == 1 { PhaseEquilibrium::pure(&fu.f, t, None, SolverOptions::default()) }
                      else { PhaseEquilibrium::bubble_point(&fu.f, t, &ndarray::arr1(&[0.5, 0.5]), None, None, (SolverOptions::default(), SolverOptions::default())) };
            let Ok(vle) = vle else { continue };
            let tc = State::critical_point(&fu.f, Some(&vle.liquid().moles), None, SolverOptions::default()).map(|s| s.temperature).unwrap_or(t * 1.4);
            let v2 = vle.clone();
            systems.push(("planar interface".into(), Box::new(move |init| {
                let pi = match init {
                    "pdgt" => PlanarInterface::from_pdgt(&v2, n_grid, false).ok()?,
                    _ => PlanarInterface::from_tanh(&v2, n_grid, Length::from_reduced(100.0), tc, false),
                };
                Some((pi.profile, Some(v2.clone())))
            })));
            let v3 = vle.clone();
            systems.push(("planar interface (total moles fixed)".into(), Box::new(move |_init| {
                let pi = PlanarInterface::from_tanh(&v3, n_grid, Length::from_reduced(100.0), tc, true);
                Some((pi.profile, Some(v3.clone())))
            })));
            let f = fu.f.clone();
            let v4 = vle.clone();
            for (gname, geom, size) in [("slit", Geometry::Cartesian, 20.0), ("cylindrical", Geometry::Cylindrical, 15.0), ("spherical", Geometry::Spherical, 15.0)] {
                let f = f.clone();
                let v4 = v4.clone();
                systems.push((format!("LJ93 {} pore, bulk at 0.2 rho_vap", gname), Box::new(move |_init| {
                    let pd = &v4.vapor().partial_density * 0.2;
                    let bulk = feos_core::StateBuilder::new(&f).temperature(t).partial_density(&pd).build().ok()?;
                    let pore = Pore1D::new(geom, Length::from_reduced(size), ExternalPotential::LJ93 { sigma_ss: 3.0, epsilon_k_ss: 100.0, rho_s: 0.08 }, Some(n_grid), None);
                    pore.initialize(&bulk, None, None).ok().map(|p| (p.profile, None))
                })));
            }
        }
        if !systems_wanted { systems.clear(); }
        for (sname, make) in &systems {
            // reference chain first (default solver), then TLC-generated chains
            let mut chains: Vec<Value> = vec![json!("default")];
            let mut idx: Vec<usize> = (0..plan.len()).collect();
            rng.shuffle(&mut idx);
            chains.extend(idx.iter().take(nchains).map(|&i| plan[i]["chain"].clone()));
            let inits: Vec<&str> = if sname == "planar interface" && fu.n == 1 && !fu.name.starts_with("GcPcSaft") { vec!["tanh", "pdgt"] } else { vec!["tanh"] };
            let mut previous: Option<quantity::Density<ndarray::Array2<f64>>> = None;
            for init in &inits {
                for chain in &chains {
                    let Some((mut profile, vle)) = make(init) else {
                        tr.ev(json!({"ev":"Skip","functional":fu.name,"system":sname,"why":"initialisation failed"}));
                        continue;
                    };
                    let spec = if sname.contains("total moles") { "TotalMoles" } else { "ChemicalPotential" };
                    let spec_moles: f64 = profile.moles().to_reduced().sum();
                    let bulk_before = profile.bulk.clone();
                    let solver = if chain.is_string() { None } else { Some(solver_of(chain)) };
                    let r = guarded(std::panic::AssertUnwindSafe(|| profile.solve(solver.as_ref(), false)));
                    let (ok, err) = match &r { Ok(Ok(())) => (true, String::new()), Ok(Err(e)) => (false, e.to_string()), Err(m) => (false, format!("Panic:{}", m)) };
                    let mut ev = json!({"ev":"Solve","functional":fu.name,"system":sname,"init":init,"chain":if chain.is_string() { json!([]) } else { chain.clone() },"default_solver":chain.is_string(),"spec":spec,"spec_total_moles":fs(spec_moles),
                        "ok":ok,"err":err,"obs":observe(&profile, &bulk_before)});
                    if ok {
                        if let Some(vle) = &vle {
                            // surface tension as PlanarInterface computes it
                            let g = profile.grand_potential_density().map(|o| profile.integrate(&(o + vle.vapor().pressure(Contributions::Total))).to_reduced()).unwrap_or(f64::NAN);
                            ev["surface_tension"] = fs(g);
                        }
                        if chain.is_string() && previous.is_none() { previous = Some(profile.density.clone()); }
                    }
                    tr.ev(ev);
                }
            }
            // initial profile = previous solution
            if let (Some(prev), Some((mut profile, vle))) = (previous, make("tanh")) {
                profile.density = prev;
                let bulk_before = profile.bulk.clone();
                let spec_moles: f64 = profile.moles().to_reduced().sum();
                let ok = profile.solve(None, false).is_ok();
                let mut ev = json!({"ev":"Solve","functional":fu.name,"system":sname,"init":"previous solution","chain":[],"default_solver":true,"spec":"ChemicalPotential","spec_total_moles":fs(spec_moles),
                    "ok":ok,"err":"","obs":observe(&profile, &bulk_before)});
                if let (true, Some(vle)) = (ok, &vle) {
                    let g = profile.grand_potential_density().map(|o| profile.integrate(&(o + vle.vapor().pressure(Contributions::Total))).to_reduced()).unwrap_or(f64::NAN);
                    ev["surface_tension"] = fs(g);
                }
                if !sname.contains("total moles") { tr.ev(ev); }
            }
        }
        // ---- Moles specification on a pore (per component), every chain of the plan subset + default
        if !fu.name.starts_with("FMT") {
            let t = Temperature::from_reduced(fu.t);
            let sname = "LJ93 slit pore, moles specified";
            let vle = if fu.n == 1 { PhaseEquilibrium::pure(&fu.f, t, None, SolverOptions::default()) }
                      else { PhaseEquilibrium::bubble_point(&fu.f, t, &ndarray::arr1(&[0.5, 0.5]), None, None, (SolverOptions::default(), SolverOptions::default())) };
            let p0 = vle.and_then(|vle| {
                let pd = &vle.vapor().partial_density * 0.2;
                let bulk = feos_core::StateBuilder::new(&fu.f).temperature(t).partial_density(&pd).build()?;
                let pore = Pore1D::new(Geometry::Cartesian, Length::from_reduced(20.0), ExternalPotential::LJ93 { sigma_ss: 3.0, epsilon_k_ss: 100.0, rho_s: 0.08 }, Some(n_grid), None);
                pore.initialize(&bulk, None, None)?.solve(None)
            });
            match p0 {
                Err(e) => tr.ev(json!({"ev":"Skip","functional":fu.name,"system":sname,"why":e.to_string()})),
                Ok(p0) => {
                    let n0 = p0.profile.moles().to_reduced();
                    let mut chains: Vec<Value> = vec![json!("default")];
                    let mut idx: Vec<usize> = (0..plan.len()).collect();
                    rng.shuffle(&mut idx);
                    chains.extend(idx.iter().take(nchains).map(|&i| plan[i]["chain"].clone()));
                    for factor in [1.15, 0.8] {
                        for chain in &chains {
                            let mut prof = p0.profile.clone();
                            let target = &n0 * factor;
                            prof.specification = Arc::new(DFTSpecifications::Moles { moles: target.clone() });
                            let bulk_before = prof.bulk.clone();
                            let solver = if chain.is_string() { None } else { Some(solver_of(chain)) };
                            let r = guarded(std::panic::AssertUnwindSafe(|| prof.solve(solver.as_ref(), false)));
                            let (ok, err) = match &r { Ok(Ok(())) => (true, String::new()), Ok(Err(e)) => (false, e.to_string()), Err(m) => (false, format!("Panic:{}", m)) };
                            tr.ev(json!({"ev":"Solve","functional":fu.name,"system":sname,"init":"previous solution","chain":if chain.is_string() { json!([]) } else { chain.clone() },
                                "default_solver":chain.is_string(),"spec":"Moles","spec_moles":fv(target.iter()),
                                "spec_total_moles":fs(target.sum()),"ok":ok,"err":err,"obs":observe(&prof, &bulk_before)}));
                        }
                        // the total number of particles specified (composition follows the bulk)
                        for chain in chains.iter().take(if args.thorough { chains.len() } else { 5 }) {
                            let mut prof = p0.profile.clone();
                            let total = n0.sum() * factor;
                            prof.specification = Arc::new(DFTSpecifications::TotalMoles { total_moles: total });
                            let bulk_before = prof.bulk.clone();
                            let solver = if chain.is_string() { None } else { Some(solver_of(chain)) };
                            let r = guarded(std::panic::AssertUnwindSafe(|| prof.solve(solver.as_ref(), false)));
                            let (ok, err) = match &r { Ok(Ok(())) => (true, String::new()), Ok(Err(e)) => (false, e.to_string()), Err(m) => (false, format!("Panic:{}", m)) };
                            tr.ev(json!({"ev":"Solve","functional":fu.name,"system":"LJ93 slit pore, total moles specified","init":"previous solution","chain":if chain.is_string() { json!([]) } else { chain.clone() },
                                "default_solver":chain.is_string(),"spec":"TotalMoles","spec_total_moles":fs(total),"ok":ok,"err":err,"obs":observe(&prof, &bulk_before)}));
                        }
                    }
                }
            }
        }
    }
    // ---- solvation: a Lennard-Jones solute in the saturated liquid on a 3-D Cartesian grid, and the test-particle route to the pair correlation
    // function on a spherical grid; solved through SolvationProfile / PairCorrelation with the default solver and TLC-generated chains
    for fu in functionals(false) {
        if !["PcSaft/propane", "Pets"].contains(&fu.name.as_str()) { continue; }
        if !args.thorough && fu.name != "Pets" { continue; }
        let t = Temperature::from_reduced(fu.t);
        let Ok(vle) = PhaseEquilibrium::pure(&fu.f, t, None, SolverOptions::default()) else { continue };
        let Ok(bulk) = State::new_pure(&fu.f, t, vle.liquid().density) else { continue };
        let (sig, eps) = if fu.name == "Pets" { (1.0, 1.0) } else { (3.5, 150.0) };
        let len = if fu.name == "Pets" { 8.0 } else { 24.0 };
        let ng = if args.thorough { 32 } else { 24 };
        let solutes: Vec<(&str, Vec<[f64; 3]>)> = vec![("1 site", vec![[0.0, 0.0, 0.0]]), ("2 sites", vec![[-0.3 * sig, 0.0, 0.0], [0.3 * sig, 0.1 * sig, 0.0]])];
        let mut idx: Vec<usize> = (0..plan.len()).collect();
        rng.shuffle(&mut idx);
        let mut chains: Vec<Value> = vec![json!("default")];
        chains.extend(idx.iter().take(if args.thorough { 8 } else { 3 }).map(|&i| plan[i]["chain"].clone()));
        for (solname, sites) in solutes.iter().take(if args.thorough { 2 } else { 1 }) {
            let sname = format!("solvation 3D ({})", solname);
            for chain in &chains {
                let coords = ndarray::Array2::from_shape_fn((3, sites.len()), |(i, j)| sites[j][i]) * ANGSTROM;
                let n_sites = sites.len();
                let sp = SolvationProfile::new(&bulk, [ng, ng, ng], coords, ndarray::Array1::from_elem(n_sites, sig), ndarray::Array1::from_elem(n_sites, eps),
                    Some([Length::from_reduced(len); 3]), None, None);
                let Ok(mut sp) = sp else { tr.ev(json!({"ev":"Skip","functional":fu.name,"system":sname,"why":"initialisation failed"})); continue };
                let bulk_before = sp.profile.bulk.clone();
                let solver = if chain.is_string() { None } else { Some(solver_of(chain)) };
                let r = guarded(std::panic::AssertUnwindSafe(|| sp.solve_inplace(solver.as_ref(), false)));
                let (ok, err) = match &r { Ok(Ok(())) => (true, String::new()), Ok(Err(e)) => (false, e.to_string()), Err(m) => (false, format!("Panic:{}", m)) };
                let obs = observe3(&sp.profile, &bulk_before);
                let mut ev = json!({"ev":"Solve","functional":fu.name,"system":sname,"init":"bulk density","chain":if chain.is_string() { json!([]) } else { chain.clone() },"default_solver":chain.is_string(),
                    "spec":"ChemicalPotential","spec_total_moles":fs(0.0),"ok":ok,"err":err,"obs":obs.clone()});
                if ok {
                    let pv = (sp.profile.bulk.pressure(Contributions::Total) * sp.profile.volume()).to_reduced();
                    let om: f64 = obs["omega"].as_str().unwrap().parse().unwrap();
                    ev["stored"] = json!([["grand potential", fs(sp.grand_potential.map(|o| o.to_reduced()).unwrap_or(f64::NAN)), obs["omega"]],
                        ["solvation free energy", fs(sp.solvation_free_energy.map(|o| o.to_reduced()).unwrap_or(f64::NAN)), fs(om + pv)]]);
                    ev["observables"] = json!([["solvation free energy", fs(om + pv), fs(om.abs())]]);
                }
                tr.ev(ev);
            }
        }
        // pair correlation function (test particle = component 0)
        let sname = "pair correlation (spherical)".to_string();
        for chain in &chains {
            let mut pc = PairCorrelation::new(&bulk, 0, 256, Length::from_reduced(if fu.name == "Pets" { 8.0 } else { 25.0 }));
            let bulk_before = pc.profile.bulk.clone();
            let solver = if chain.is_string() { None } else { Some(solver_of(chain)) };
            let r = guarded(std::panic::AssertUnwindSafe(|| pc.solve_inplace(solver.as_ref(), false)));
            let (ok, err) = match &r { Ok(Ok(())) => (true, String::new()), Ok(Err(e)) => (false, e.to_string()), Err(m) => (false, format!("Panic:{}", m)) };
            let obs = observe(&pc.profile, &bulk_before);
            let mut ev = json!({"ev":"Solve","functional":fu.name,"system":sname,"init":"bulk density","chain":if chain.is_string() { json!([]) } else { chain.clone() },"default_solver":chain.is_string(),
                "spec":"ChemicalPotential","spec_total_moles":fs(0.0),"ok":ok,"err":err,"obs":obs.clone()});
            if ok {
                let om: f64 = obs["omega"].as_str().unwrap().parse().unwrap();
                let pv = (pc.profile.bulk.pressure(Contributions::Total) * pc.profile.volume()).to_reduced();
                let excess = (pc.profile.total_moles() - pc.profile.bulk.density * pc.profile.volume()).to_reduced() + 1.0;
                let g = pc.pair_correlation_function.as_ref().unwrap();
                let rho = pc.profile.density.to_reduced();
                let rb = pc.profile.bulk.partial_density.to_reduced();
                let gdev = g.iter().zip(rho.iter()).map(|(a, b)| (a - b / rb[0]).abs()).fold(0.0, f64::max);
                ev["stored"] = json!([["self solvation free energy", fs(pc.self_solvation_free_energy.map(|o| o.to_reduced()).unwrap_or(f64::NAN)), fs(om + pv)],
                    ["structure factor", fs(pc.structure_factor.unwrap_or(f64::NAN)), fs(excess)], ["g(r) - rho(r)/rho_bulk (max)", fs(gdev + 1.0), fs(1.0)]]);
                ev["observables"] = json!([["self solvation free energy", fs(om + pv), fs(om.abs())], ["structure factor", fs(excess), fs(obs["moles"][0].as_str().unwrap().parse::<f64>().unwrap())]]);
            }
            tr.ev(ev);
        }
    }
    // ---- PoreProfile / PlanarInterface wrappers: what they store after solving belongs to the profile they hold, whatever was solved before
    for fu in functionals(false) {
        if !["PcSaft/propane", "Pets"].contains(&fu.name.as_str()) { continue; }
        let t = Temperature::from_reduced(fu.t);
        let Ok(vle) = PhaseEquilibrium::pure(&fu.f, t, None, SolverOptions::default()) else { continue };
        let bulk_of = |frac: f64| State::new_pure(&fu.f, t, vle.vapor().density * frac).ok();
        let eps_ss = if fu.name == "Pets" { 30.0 } else { 100.0 };
        let pore = Pore1D::new(Geometry::Cartesian, Length::from_reduced(20.0), ExternalPotential::LJ93 { sigma_ss: 3.0, epsilon_k_ss: eps_ss, rho_s: 0.08 }, Some(n_grid), None);
        let stored = |p: &feos_dft::adsorption::PoreProfile1D<F>, step: &str| -> Value {
            let recomputed = p.profile.grand_potential().map(|o| o.to_reduced()).unwrap_or(f64::NAN);
            let pv = (p.profile.bulk.pressure(Contributions::Total) * p.profile.volume()).to_reduced();
            json!({"step": step, "omega_stored": fs(p.grand_potential.map(|o| o.to_reduced()).unwrap_or(f64::NAN)), "omega_recomputed": fs(recomputed),
                "tension_stored": fs(p.interfacial_tension.map(|o| o.to_reduced()).unwrap_or(f64::NAN)), "tension_recomputed": fs(recomputed + pv),
                "residual": fs(p.profile.residual(false).map(|r| r.2).unwrap_or(f64::NAN))})
        };
        let (Some(b1), Some(b2)) = (bulk_of(0.2), bulk_of(0.23)) else { continue };
        // history 1: solve, solve again with another solver; history 2: pre-relaxation in debug mode, then the real solve;
        // history 3: solve, replace the bulk state directly (not through update_bulk), solve again; history 4: update_bulk, solve
        let histories: Vec<(&str, Vec<&str>)> = vec![("solve twice", vec!["default", "newton"]), ("debug pre-relaxation then solve", vec!["debug-picard", "default"]),
            ("bulk replaced directly", vec!["default", "set-bulk", "default"]), ("update_bulk", vec!["default", "update_bulk", "default"])];
        for (hname, steps) in histories {
            let Ok(mut p) = pore.initialize(&b1, None, None) else { continue };
            let mut log = vec![];
            let mut ok = true;
            for st in &steps {
                let r = guarded(std::panic::AssertUnwindSafe(|| match *st {
                    "default" => p.solve_inplace(None, false),
                    "newton" => p.solve_inplace(Some(&DFTSolver::new(None).newton(None, Some(30), None, Some(1e-11))), false),
                    "debug-picard" => p.solve_inplace(Some(&DFTSolver::new(None).picard_iteration(None, Some(5), Some(1e-11), None)), true),
                    "set-bulk" => { p.profile.bulk = b2.clone(); Ok(()) }
                    _ => { p = p.clone().update_bulk(&b2); Ok(()) }
                }));
                match r { Ok(Ok(())) => {}, _ => { ok = false; break; } }
                if *st != "set-bulk" && *st != "update_bulk" { log.push(stored(&p, st)); }
            }
            tr.ev(json!({"ev":"Resolve","functional":fu.name,"history":hname,"ok":ok,"after":log}));
        }
    }
    let n = tr.finish();
    println!("C18 trace: {} lines", n);
}
