//! Tp flashes with hook H8 switched on: every call is recorded as the hook's own account of the control flow (TF* events, one per action of
//! TpFlash.tla) followed by a TFCall event with what the API returned. TLC replays the events as a behaviour of the module (TraceTpFlash.tla).
use crate::util::*;
use crate::zoo;
use feos::pcsaft::{PcSaft, PcSaftParameters};
use feos::ResidualModel;
use feos_core::parameter::{IdentifierOption, Parameter};
use feos_core::{Contributions, EosError, PhaseEquilibrium, ReferenceSystem, SolverOptions};
use ndarray::{arr1, Array1};
use quantity::*;
use serde_json::{json, Value};
use std::sync::Arc;

type M = ResidualModel;

fn status(r: &Result<Result<PhaseEquilibrium<M, 2>, EosError>, String>) -> String {
    match r {
        Ok(Ok(_)) => "Ok".into(),
        Ok(Err(EosError::NoPhaseSplit)) => "NoPhaseSplit".into(),
        Ok(Err(EosError::NotConverged(_))) => "NotConverged".into(),
        Ok(Err(_)) => "Error".into(),
        Err(m) => format!("Panic:{}", m),
    }
}

#[allow(clippy::too_many_arguments)]
fn flash(tr: &mut Tr, case: &str, grid: &str, guess: &str, eos: &Arc<M>, t: Temperature, p: Pressure, feed: &Moles<Array1<f64>>,
         init: Option<&PhaseEquilibrium<M, 2>>, opts: SolverOptions, nvc: Option<Vec<usize>>) -> Option<PhaseEquilibrium<M, 2>> {
    feos_core::verif::take();
    feos_core::verif::enable(true);
    let r = guarded(std::panic::AssertUnwindSafe(|| PhaseEquilibrium::tp_flash(eos, t, p, feed, init, opts, nvc)));
    feos_core::verif::enable(false);
    let mut lines = feos_core::verif::take();
    lines.sort_by_key(|l| seq_of(l));
    for l in lines.iter().filter(|l| l.contains("\"ev\":\"TF")) { tr.raw(l); }
    let st = status(&r);
    let (vn, ln) = match &r {
        Ok(Ok(v)) => (v.vapor().moles.to_reduced().to_vec(), v.liquid().moles.to_reduced().to_vec()),
        _ => (vec![], vec![]),
    };
    tr.ev(json!({"ev":"TFCall","case":case,"grid":grid,"guess":guess,"status":st,"feed":fv(feed.to_reduced().iter()),"vN":fv(vn.iter()),"lN":fv(ln.iter()),
        "T":fs(t.to_reduced()),"p":fs(p.to_reduced())}));
    match r { Ok(Ok(v)) => Some(v), _ => None }
}

pub fn run(args: &Args) {
    std::panic::set_hook(Box::new(|_| {}));
    let mut tr = Tr::create(&args.out);
    let mut rng = Rng::new(args.seed ^ 0x7f);
    let d = SolverOptions::default;
    let mut systems: Vec<(String, Arc<M>, Vec<Vec<f64>>)> = vec![];
    let mk = |names: Vec<&str>| -> Option<Arc<M>> {
        PcSaftParameters::from_json(names, ppath_("pcsaft/gross2001.json"), None, IdentifierOption::Name).ok().map(|p| Arc::new(M::PcSaft(PcSaft::new(Arc::new(p)))))
    };
    if let Some(e) = mk(vec!["propane", "butane"]) { systems.push(("propane+butane".into(), e, vec![vec![0.5, 0.5], vec![0.1, 0.9], vec![0.85, 0.15]])); }
    if let Some(e) = mk(vec!["ethane", "hexane"]) { systems.push(("ethane+hexane".into(), e, vec![vec![0.5, 0.5], vec![0.95, 0.05], vec![0.2, 0.8]])); }
    if let Some(e) = mk(vec!["propane", "butane", "pentane"]) { systems.push(("propane+butane+pentane".into(), e, vec![vec![0.4, 0.3, 0.3], vec![0.1, 0.2, 0.7]])); }
    if args.thorough {
        if let Some(e) = mk(vec!["methane", "propane"]) { systems.push(("methane+propane".into(), e, vec![vec![0.3, 0.7], vec![0.7, 0.3]])); }
        if let Some(e) = mk(vec!["hexane", "heptane", "octane"]) { systems.push(("hexane+heptane+octane".into(), e, vec![vec![0.3, 0.3, 0.4]])); }
    }
    for (name, eos, comps) in &systems {
        let Ok(tcs) = feos_core::State::critical_point_pure(eos, None, d()) else { continue };
        let tc_lo = tcs.iter().map(|s| s.temperature.to_reduced()).fold(f64::INFINITY, f64::min);
        for z in comps {
            let za = Array1::from_vec(z.clone());
            for tf in if args.thorough { vec![0.65, 0.75, 0.85, 0.92] } else { vec![0.7, 0.88] } {
                let t = Temperature::from_reduced(tc_lo * tf);
                let (Ok(b), Ok(dw)) = (PhaseEquilibrium::bubble_point(eos, t, &za, None, None, (d(), d())), PhaseEquilibrium::dew_point(eos, t, &za, None, None, (d(), d()))) else { continue };
                let (pb, pd) = (b.vapor().pressure(Contributions::Total), dw.vapor().pressure(Contributions::Total));
                let feed = Moles::from_reduced(&za * 1.7);
                for w in [-0.1, 0.02, 0.3, 0.7, 0.98, 1.1] {
                    let p = pd + (pb - pd) * w;
                    let grid = format!("z={:?},T/Tc={},w={}", z, tf, w);
                    let f0 = flash(&mut tr, name, &grid, "none", eos, t, p, &feed, None, d(), None);
                    if let Some(f0) = &f0 {
                        flash(&mut tr, name, &grid, "own solution", eos, t, p, &feed, Some(f0), d(), None);
                        // another feed at the same (T, p), converged tighter than the tolerance of the flash it initialises
                        let zo = &f0.vapor().molefracs * 0.4 + &f0.liquid().molefracs * 0.6;
                        if let Some(fo) = flash(&mut tr, name, &grid, "none", eos, t, p, &Moles::from_reduced(&zo * 1.7), None, d().tol(1e-12), None) {
                            flash(&mut tr, name, &grid, "flash of another feed at the same T and p", eos, t, p, &feed, Some(&fo), d(), None);
                        }
                        flash(&mut tr, name, &grid, "bubble point", eos, t, p, &feed, Some(&b), d(), None);
                        // few iterations allowed: NotConverged and the fall-back to the stability-based initialisation
                        flash(&mut tr, name, &grid, "none", eos, t, p, &feed, None, d().max_iter(1), None);
                        if let Some(f2) = flash(&mut tr, name, &grid, "none", eos, t * rng.range(0.97, 1.03), p, &feed, None, d(), None) {
                            flash(&mut tr, name, &grid, "flash at a neighbouring temperature", eos, t, p, &feed, Some(&f2), d(), None);
                            flash(&mut tr, name, &grid, "flash at a neighbouring temperature", eos, t, p, &feed, Some(&f2), d().max_iter(1), None);
                        }
                    } else {
                        // outside the envelope: a two-phase initial state from inside it
                        let pin = pd + (pb - pd) * 0.5;
                        if let Some(fi) = flash(&mut tr, name, &grid, "none", eos, t, pin, &feed, None, d(), None) {
                            flash(&mut tr, name, &grid, "flash from inside the envelope", eos, t, p, &feed, Some(&fi), d(), None);
                        }
                    }
                }
            }
        }
    }
    // non-volatile components (the plain steps and the tangent-plane repair are skipped)
    if let Some(m) = zoo::zoo(false).into_iter().find(|m| m.name == "epcsaft/water+NaCl") {
        let eos = m.eos.clone();
        for tk in [353.15, 393.15] {
            let t = Temperature::from_reduced(tk);
            let Some(Some(psat)) = PhaseEquilibrium::vapor_pressure(&eos, t).first().cloned() else { continue };
            for xs in [0.005, 0.03] {
                let z = arr1(&[1.0 - 2.0 * xs, xs, xs]);
                let feed = Moles::from_reduced(&z * 2.0);
                for f in [0.8, 0.9, 0.96, 0.99] {
                    let p = psat * f;
                    let Ok(init) = PhaseEquilibrium::new_npt(&eos, t, p, &Moles::from_reduced(arr1(&[1.0, 1e-10, 1e-10])), &Moles::from_reduced(z.clone())) else { continue };
                    flash(&mut tr, "epcsaft/water+NaCl", &format!("T={},x_salt={},p/psat={}", tk, xs, f), "vapor of water + feed liquid", &eos, t, p, &feed, Some(&init), d(), Some(vec![1, 2]));
                }
            }
        }
    }
    let n = tr.finish();
    println!("tpflash trace: {} lines", n);
}

fn ppath_(rel: &str) -> String {
    crate::zoo::ppath(rel)
}
