//! Pure-component phase equilibria with hook H10 switched on: every call is recorded as the hook's own account of the control flow (PV* events, one
//! per action of VlePure.tla) followed by a PVCall event with what the API returned. TLC replays the events as a behaviour of the module
//! (TraceVlePure.tla).
use crate::util::*;
use crate::zoo;
use feos::pcsaft::{PcSaft, PcSaftParameters};
use feos::ResidualModel;
use feos_core::parameter::{IdentifierOption, Parameter};
use feos_core::{Contributions, EosError, PhaseEquilibrium, ReferenceSystem, SolverOptions, State};
use quantity::*;
use serde_json::json;
use std::sync::Arc;

type M = ResidualModel;

fn status(r: &Result<Result<PhaseEquilibrium<M, 2>, EosError>, String>) -> String {
    match r {
        Ok(Ok(_)) => "Ok".into(),
        Ok(Err(EosError::TrivialSolution)) => "TrivialSolution".into(),
        Ok(Err(EosError::NotConverged(_))) => "NotConverged".into(),
        Ok(Err(EosError::IterationFailed(_))) => "IterationFailed".into(),
        Ok(Err(_)) => "Error".into(),
        Err(m) => format!("Panic:{}", m),
    }
}

#[derive(Clone, Copy)]
enum Sp {
    T(f64),
    P(f64),
}

#[allow(clippy::too_many_arguments)]
fn call(tr: &mut Tr, case: &str, grid: &str, guess: &str, eos: &Arc<M>, sp: Sp, init: Option<&PhaseEquilibrium<M, 2>>, opts: SolverOptions, default: bool)
        -> Option<PhaseEquilibrium<M, 2>> {
    call_(tr, case, grid, guess, eos, sp, init, opts, default, false)
}

#[allow(clippy::too_many_arguments)]
fn call_(tr: &mut Tr, case: &str, grid: &str, guess: &str, eos: &Arc<M>, sp: Sp, init: Option<&PhaseEquilibrium<M, 2>>, opts: SolverOptions, default: bool, expect: bool)
        -> Option<PhaseEquilibrium<M, 2>> {
    feos_core::verif::take();
    feos_core::verif::enable(true);
    let r = guarded(std::panic::AssertUnwindSafe(|| match sp {
        Sp::T(t) => PhaseEquilibrium::pure(eos, Temperature::from_reduced(t), init, opts),
        Sp::P(p) => PhaseEquilibrium::pure(eos, Pressure::from_reduced(p), init, opts),
    }));
    feos_core::verif::enable(false);
    let mut lines = feos_core::verif::take();
    lines.sort_by_key(|l| seq_of(l));
    for l in lines.iter().filter(|l| l.contains("\"ev\":\"PV")) { tr.raw(l); }
    let st = status(&r);
    let (spec, val) = match sp { Sp::T(t) => ("T", t), Sp::P(p) => ("p", p) };
    let mut ev = json!({"ev":"PVCall","case":case,"grid":grid,"guess":guess,"status":st,"spec":spec,"val":fs(val),"default":default,"expect":expect});
    if let Ok(Ok(v)) = &r {
        let (sv, sl) = (v.vapor(), v.liquid());
        let t = sv.temperature.to_reduced();
        ev["Tv"] = fs(t);
        ev["Tl"] = fs(sl.temperature.to_reduced());
        ev["pv"] = fs(sv.pressure(Contributions::Total).to_reduced());
        ev["pl"] = fs(sl.pressure(Contributions::Total).to_reduced());
        ev["rhov"] = fs(sv.density.to_reduced());
        ev["rhol"] = fs(sl.density.to_reduced());
        let dmu = (sv.residual_chemical_potential().to_reduced()[0] - sl.residual_chemical_potential().to_reduced()[0]) / t
            + (sv.density.to_reduced() / sl.density.to_reduced()).ln();
        ev["dmu"] = fs(dmu);
        ev["K"] = fs((sl.dp_drho(Contributions::Total) * sl.density).to_reduced().abs().max((sv.dp_drho(Contributions::Total) * sv.density).to_reduced().abs()));
    }
    tr.ev(ev);
    match r { Ok(Ok(v)) => Some(v), _ => None }
}

pub fn run(args: &Args) {
    std::panic::set_hook(Box::new(|_| {}));
    let mut tr = Tr::create(&args.out);
    let mut rng = Rng::new(args.seed ^ 0x9c);
    let d = SolverOptions::default;
    let mk = |file: &str, name: &str| -> Option<Arc<M>> {
        PcSaftParameters::from_json(vec![name], zoo::ppath(file), None, IdentifierOption::Name).ok().map(|p| Arc::new(M::PcSaft(PcSaft::new(Arc::new(p)))))
    };
    let mut subs: Vec<(String, Arc<M>)> = vec![];
    let mut names = vec![("pcsaft/gross2001.json", "propane"), ("pcsaft/gross2001.json", "methane"), ("pcsaft/gross2001.json", "eicosane"),
                         ("pcsaft/gross2002.json", "methanol"), ("pcsaft/gross2006.json", "acetone"), ("pcsaft/gross2005_fit.json", "carbon dioxide")];
    if args.thorough {
        names.extend([("pcsaft/gross2001.json", "benzene"), ("pcsaft/gross2001.json", "nitrogen"), ("pcsaft/gross2002.json", "water"), ("pcsaft/gross2001.json", "decane"),
                      ("pcsaft/gross2001.json", "ethane"), ("pcsaft/gross2006.json", "dimethyl ether")]);
    }
    for (f, n) in names { if let Some(e) = mk(f, n) { subs.push((n.to_string(), e)); } }
    for (name, eos) in &subs {
        let Ok(cp) = State::critical_point(eos, None, None, d()) else { continue };
        let (tc, pc) = (cp.temperature.to_reduced(), cp.pressure(Contributions::Total).to_reduced());
        let trs = if args.thorough { vec![0.4, 0.5, 0.6, 0.7, 0.8, 0.9, 0.97, 0.995, 0.9995, 1.02] } else { vec![0.45, 0.7, 0.9, 0.99, 0.9995, 1.02] };
        let mut prev: Option<PhaseEquilibrium<M, 2>> = None;
        for tr_ in trs {
            let t = tc * tr_;
            let grid = format!("T/Tc={}", tr_);
            let r0 = call(&mut tr, name, &grid, "none", eos, Sp::T(t), None, d(), true);
            call(&mut tr, name, &grid, "none, max_iter 2", eos, Sp::T(t), None, d().max_iter(2), true);
            call(&mut tr, name, &grid, "none, max_iter 0", eos, Sp::T(t), None, d().max_iter(0), true);
            call(&mut tr, name, &grid, "none, tol 1e-6", eos, Sp::T(t), None, d().tol(1e-6), false);
            // the previous temperature's result as the start (as the phase-diagram driver does), also with very few iterations
            if let Some(p) = &prev {
                call(&mut tr, name, &grid, "previous temperature", eos, Sp::T(t), Some(p), d(), true);
                call(&mut tr, name, &grid, "previous temperature, max_iter 1", eos, Sp::T(t), Some(p), d().max_iter(1), true);
            }
            if let Some(v) = &r0 {
                call(&mut tr, name, &grid, "own solution", eos, Sp::T(t), Some(v), d(), true);
                // a start far away: the solution at a random other temperature
                let t2 = tc * rng.range(0.45, 0.98);
                if let Ok(o) = PhaseEquilibrium::pure(eos, Temperature::from_reduced(t2), None, d()) {
                    call(&mut tr, name, &grid, &format!("solution at T/Tc={:.3}", t2 / tc), eos, Sp::T(t), Some(&o), d(), true);
                }
                // pressure specification at the saturation pressure just found
                let p = v.vapor().pressure(Contributions::Total).to_reduced();
                let gp = format!("p=psat(T/Tc={})", tr_);
                call(&mut tr, name, &gp, "none", eos, Sp::P(p), None, d(), true);
                call(&mut tr, name, &gp, "none, max_iter 3", eos, Sp::P(p), None, d().max_iter(3), true);
                call(&mut tr, name, &gp, "own solution", eos, Sp::P(p), Some(v), d(), true);
                if let Some(pv) = &prev {
                    call(&mut tr, name, &gp, "previous temperature", eos, Sp::P(p), Some(pv), d(), true);
                    call(&mut tr, name, &gp, "previous temperature, max_iter 1", eos, Sp::P(p), Some(pv), d().max_iter(1), true);
                }
                prev = Some(v.clone());
            }
        }
        // pressures above the critical one, and far below the triple-point region
        call(&mut tr, name, "p/pc=1.3", "none", eos, Sp::P(pc * 1.3), None, d(), true);
        if let Some(pv) = &prev { call(&mut tr, name, "p/pc=1.3", "subcritical solution", eos, Sp::P(pc * 1.3), Some(pv), d(), true); }
        call(&mut tr, name, "p/pc=1e-9", "none", eos, Sp::P(pc * 1e-9), None, d(), true);
    }
    // the success clause of C04 on the shipped PC-SAFT records: a cold start (no initial state, default options) between 0.45 and 0.99 T_c finds the
    // equilibrium; the temperatures of the quick tier are those where the fall-back from the ideal-gas to the spinodal start is needed most often
    let files = ["pcsaft/gross2001.json", "pcsaft/gross2002.json", "pcsaft/gross2005_fit.json", "pcsaft/gross2005_literature.json", "pcsaft/gross2006.json",
        "pcsaft/esper2023.json", "pcsaft/loetgeringlin2018.json", "pcsaft/rehner2020.json", "pcsaft/eller2022.json"];
    let mut all: Vec<(String, feos_core::parameter::PureRecord<feos::pcsaft::PcSaftRecord>)> = vec![];
    for f in files {
        let recs: Vec<feos_core::parameter::PureRecord<feos::pcsaft::PcSaftRecord>> = serde_json::from_str(&std::fs::read_to_string(zoo::ppath(f)).unwrap()).unwrap();
        for (i, r) in recs.into_iter().enumerate() { all.push((format!("{}[{}]", f, i), r)); }
    }
    let mut idx: Vec<usize> = (0..all.len()).collect();
    rng.shuffle(&mut idx);
    let keep = if args.thorough { all.len() } else { 300 };
    let trs: Vec<f64> = if args.thorough { vec![0.45, 0.6, 0.75, 0.85, 0.9, 0.93, 0.96, 0.99] } else { vec![0.9, 0.93, 0.96] };
    for &i in idx.iter().take(keep) {
        let (name, rec) = &all[i];
        let Ok(p) = PcSaftParameters::new_pure(rec.clone()) else { continue };
        let eos = Arc::new(M::PcSaft(PcSaft::new(Arc::new(p))));
        let Ok(cp) = State::critical_point(&eos, None, None, d()) else { continue };
        let tc = cp.temperature.to_reduced();
        for &tr_ in &trs {
            call_(&mut tr, name, &format!("T/Tc={}", tr_), "none", &eos, Sp::T(tc * tr_), None, d(), true, true);
        }
    }
    let n = tr.finish();
    println!("vlepure trace: {} lines", n);
}
