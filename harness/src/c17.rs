//! C17 recorder: non-uniform smooth density profiles on every grid type, perturbed by smooth compactly supported
//! variations. Records raw values of the functional, its derivative and the linearised operators of the Newton
//! solver; the finite-difference and adjointness laws are in TraceDft.tla (no comparison happens here).
use crate::dftzoo::*;
use crate::util::*;
use feos_core::{ReferenceSystem, State};
use feos_dft::{Axis, DFTProfile, Grid, HelmholtzEnergyFunctional};
use ndarray::prelude::*;
use ndarray::{ArrayD, IxDyn};
use quantity::*;
use serde_json::{json, Value};

/// coordinates of the grid points per axis and the axis lengths
fn coords(grid: &Grid) -> (Vec<Vec<f64>>, Vec<f64>) {
    let g: Vec<Vec<f64>> = grid.grids().iter().map(|a| a.to_vec()).collect();
    let l: Vec<f64> = grid.axes().iter().map(|a| a.length()).collect();
    (g, l)
}

fn bump(x: f64, c: f64, w: f64) -> f64 {
    (-(x - c) * (x - c) / (2.0 * w * w)).exp()
}

/// smooth positive density: kind "tanh": interface between the two bulk densities along axis 0, modulated along the others;
/// kind "oscillating": damped layering around 0.6 rho_hi
fn density_field(kind: &str, g: &[Vec<f64>], l: &[f64], hi: &[f64], lo: &[f64], seg_comp: &[usize], sig: f64) -> ArrayD<f64> {
    let mut shape = vec![seg_comp.len()];
    shape.extend(g.iter().map(|a| a.len()));
    ArrayD::from_shape_fn(IxDyn(&shape), |ix| {
        let s = ix[0];
        let c = seg_comp[s];
        let x = g[0][ix[1]];
        let mut m = 1.0;
        for d in 1..g.len() {
            m *= 1.0 + 0.2 * (2.0 * std::f64::consts::PI * g[d][ix[d + 1]] / l[d]).cos();
        }
        match kind {
            "tanh" => (lo[c] + (hi[c] - lo[c]) * 0.5 * (1.0 - ((x - 0.5 * l[0]) / (1.2 * sig) + 0.3 * s as f64).tanh())) * m,
            _ => 0.6 * hi[c] * (1.0 + 0.5 * (2.0 * std::f64::consts::PI * x / (1.03 * sig)).cos() * (1.0 - 0.2 * s as f64) * (-x * x / (2.0 * 9.0 * sig * sig)).exp()) * (0.8 + 0.2 * m),
        }
    })
}

/// smooth bump supported away from the boundaries (relative to the local density), different per segment
fn perturbation(which: usize, rho: &ArrayD<f64>, g: &[Vec<f64>], l: &[f64]) -> ArrayD<f64> {
    let c0 = if which == 0 { 0.42 } else { 0.58 };
    ArrayD::from_shape_fn(rho.raw_dim(), |ix| {
        let s = ix[0];
        let mut b = 1.0;
        for d in 0..g.len() {
            let c = (c0 + 0.03 * s as f64 - 0.05 * d as f64) * l[d];
            b *= bump(g[d][ix[d + 1]], c, 0.055 * l[d]);
        }
        let sign = if which == 1 && s % 2 == 1 { -0.6 } else { 1.0 };
        rho[&ix] * b * sign * (1.0 + 0.5 * s as f64)
    })
}

fn flat(a: &ArrayD<f64>) -> Value {
    fv(a.iter())
}

macro_rules! variation_events {
    ($dim:ty, $grid:expr, $bulk_hi:expr, $bulk_lo:expr, $lanczos:expr, $meta:expr, $kind:expr, $sig:expr, $arrays:expr, $tr:expr) => {{
        type DL = <$dim as Dimension>::Larger;
        let bulk: &State<F> = $bulk_hi;
        let mut profile: DFTProfile<$dim, F> = DFTProfile::new($grid, bulk, None, None, $lanczos);
        let t = profile.temperature.to_reduced();
        let (g, l) = coords(&profile.grid);
        let seg_comp: Vec<usize> = profile.dft.component_index().to_vec();
        let hi: Vec<f64> = $bulk_hi.partial_density.to_reduced().to_vec();
        let lo: Vec<f64> = $bulk_lo.partial_density.to_reduced().to_vec();
        let rho_d = density_field($kind, &g, &l, &hi, &lo, &seg_comp, $sig);
        let eta_d = perturbation(0, &rho_d, &g, &l);
        let zeta_d = perturbation(1, &rho_d, &g, &l);
        let rho: Array<f64, DL> = rho_d.clone().into_dimensionality().unwrap();
        let eta: Array<f64, DL> = eta_d.clone().into_dimensionality().unwrap();
        let zeta: Array<f64, DL> = zeta_d.clone().into_dimensionality().unwrap();
        profile.density = Density::from_reduced(rho.clone());
        let meta: Value = $meta;
        let integ = |f: &Array<f64, $dim>| profile.integrate(&Dimensionless::new(f.clone())).to_reduced();
        let integ_s = |f: &Array<f64, DL>| profile.integrate_comp(&Dimensionless::new(f.clone())).to_reduced().sum();
        let eps = [1e-3, 5e-4];

        // ---- first variation
        let (_, g0) = profile.dft.functional_derivative(t, &rho, &profile.convolver).unwrap();
        let mut fp = vec![];
        let mut fm_ = vec![];
        let mut gp: Vec<Array<f64, DL>> = vec![];
        let mut gm: Vec<Array<f64, DL>> = vec![];
        for e in eps {
            let (f1, g1) = profile.dft.functional_derivative(t, &(&rho + &(&eta * e)), &profile.convolver).unwrap();
            let (f2, g2) = profile.dft.functional_derivative(t, &(&rho - &(&eta * e)), &profile.convolver).unwrap();
            fp.push(integ(&f1));
            fm_.push(integ(&f2));
            gp.push(g1);
            gm.push(g2);
        }
        let mut ev = meta.clone();
        ev["ev"] = json!("Var1");
        ev["eps"] = fv(eps.iter());
        ev["F_plus"] = fv(fp.iter());
        ev["F_minus"] = fv(fm_.iter());
        ev["inner"] = fs(integ_s(&(&g0 * &eta)));
        ev["inner_abs"] = fs(integ_s(&(&g0 * &eta).mapv(f64::abs)));
        ev["rho_min"] = fs(rho.iter().cloned().fold(f64::INFINITY, f64::min));
        $tr.ev(ev);

        // ---- second variation: H eta against the difference quotient of the functional derivative (pointwise), symmetry of H
        let h_eta = profile.verif_delta_functional_derivative(&rho, &eta).unwrap();
        let h_zeta = profile.verif_delta_functional_derivative(&rho, &zeta).unwrap();
        let mut ev = meta.clone();
        ev["ev"] = json!("Var2");
        ev["eps"] = fv(eps.iter());
        ev["sym_ab"] = fs(integ_s(&(&zeta * &h_eta)));
        ev["sym_ba"] = fs(integ_s(&(&eta * &h_zeta)));
        ev["sym_scale"] = fs(integ_s(&(&zeta * &h_eta).mapv(f64::abs)));
        // projections of the difference quotient on zeta (always) and the full fields (when the grid is small)
        ev["proj_g_plus"] = fv(gp.iter().map(|x| integ_s(&(&zeta * x))).collect::<Vec<_>>().iter());
        ev["proj_g_minus"] = fv(gm.iter().map(|x| integ_s(&(&zeta * x))).collect::<Vec<_>>().iter());
        ev["has_fields"] = json!($arrays);
        if $arrays {
            ev["H_eta"] = flat(&h_eta.clone().into_dyn());
            ev["g_plus"] = Value::Array(gp.iter().map(|x| flat(&x.clone().into_dyn())).collect());
            ev["g_minus"] = Value::Array(gm.iter().map(|x| flat(&x.clone().into_dyn())).collect());
        }
        $tr.ev(ev);

        // ---- adjointness of the two convolutions, one weighted density at a time
        let wd = profile.convolver.weighted_densities(&eta);
        let shapes: Vec<Vec<usize>> = wd.iter().map(|w| w.shape().to_vec()).collect();
        for (ci, w) in wd.iter().enumerate() {
            for a in 0..shapes[ci][0] {
                // test field q: a bump (different centre per weighted density) in slot (ci, a), zero elsewhere
                let pds: Vec<Array<f64, DL>> = shapes.iter().enumerate().map(|(cj, sh)| {
                    let q = ArrayD::from_shape_fn(IxDyn(sh), |ix| {
                        if cj != ci || ix[0] != a { return 0.0; }
                        let mut b = 1.0;
                        for d in 0..g.len() {
                            b *= bump(g[d][ix[d + 1]], (0.5 + 0.02 * a as f64 - 0.03 * ci as f64) * l[d], 0.07 * l[d]);
                        }
                        b
                    });
                    q.into_dimensionality().unwrap()
                }).collect();
                let lhs = integ(&(&w.index_axis(ndarray::Axis(0), a) * &pds[ci].index_axis(ndarray::Axis(0), a)).to_owned());
                let lhs_abs = integ(&(&w.index_axis(ndarray::Axis(0), a) * &pds[ci].index_axis(ndarray::Axis(0), a)).mapv(f64::abs));
                let back = profile.convolver.functional_derivative(&pds);
                let rhs = integ_s(&(&back * &eta));
                let rhs_abs = integ_s(&(&back * &eta).mapv(f64::abs));
                let mut ev = meta.clone();
                ev["ev"] = json!("Adjoint");
                ev["contribution"] = json!(ci);
                ev["weighted_density"] = json!(a);
                ev["n_weighted"] = json!(shapes[ci][0]);
                ev["lhs"] = fs(lhs);
                ev["rhs"] = fs(rhs);
                ev["scale"] = fs(lhs_abs.max(rhs_abs));
                $tr.ev(ev);
            }
        }

        // ---- bond integrals of chains: d ln I / d(-delta) against the difference quotient
        if profile.dft.bond_lengths(t).edge_count() > 0 {
            let e0: Array<f64, DL> = rho.mapv(|_| 1.0) + &(&zeta / &rho) * 0.5 + 0.2;
            let delta: Array<f64, DL> = &eta / &rho;
            let di = profile.verif_delta_bond_integrals(&e0, &delta);
            let mut ip = vec![];
            let mut im = vec![];
            for e in eps {
                let ep = &e0 * &delta.mapv(|d| (-e * d).exp());
                let em = &e0 * &delta.mapv(|d| (e * d).exp());
                ip.push(profile.dft.bond_integrals(t, &ep, &profile.convolver).mapv(f64::ln));
                im.push(profile.dft.bond_integrals(t, &em, &profile.convolver).mapv(f64::ln));
            }
            let mut ev = meta.clone();
            ev["ev"] = json!("BondVar");
            ev["eps"] = fv(eps.iter());
            ev["proj_delta_i"] = fs(integ_s(&(&zeta * &di)));
            ev["proj_scale"] = fs(integ_s(&(&zeta * &di).mapv(f64::abs)));
            ev["proj_lnI_plus"] = fv(ip.iter().map(|x| integ_s(&(&zeta * x))).collect::<Vec<_>>().iter());
            ev["proj_lnI_minus"] = fv(im.iter().map(|x| integ_s(&(&zeta * x))).collect::<Vec<_>>().iter());
            ev["has_fields"] = json!($arrays);
            if $arrays {
                ev["delta_i"] = flat(&di.clone().into_dyn());
                ev["lnI_plus"] = Value::Array(ip.iter().map(|x| flat(&x.clone().into_dyn())).collect());
                ev["lnI_minus"] = Value::Array(im.iter().map(|x| flat(&x.clone().into_dyn())).collect());
            }
            $tr.ev(ev);
        }
    }};
}

pub fn run(args: &Args) {
    let mut tr = Tr::create(&args.out);
    let mut rng = Rng::new(args.seed ^ 0x17);
    let n1: Vec<usize> = if args.thorough { vec![64, 128, 512, 2048] } else { vec![128, 512] };
    for fu in functionals(args.thorough) {
        let sig = if fu.name.starts_with("FMT") { 1.0 } else { 3.5 };
        let states = bulk_states(&fu);
        if states.len() < 2 { continue; }
        // FMT: states are (eta = 0.05, eta = 0.35); others: (liquid, vapor)
        let (hi, lo) = if fu.name.starts_with("FMT") { (&states[1].1, &states[0].1) } else { (&states[0].1, &states[1].1) };
        for kind in ["tanh", "oscillating"] {
            for &n in &n1 {
                let lz = if rng.below(3) == 0 { Some(1) } else { None };
                let len = Length::from_reduced(sig * rng.range(12.0, 20.0));
                for gk in ["cartesian", "spherical", "polar"] {
                    if !args.thorough && kind == "oscillating" && gk != "cartesian" && rng.below(2) == 0 { continue; }
                    let axis = match gk { "cartesian" => Axis::new_cartesian(n, len, None), "spherical" => Axis::new_spherical(n, len), _ => Axis::new_polar(n, len) };
                    let grid = match gk { "cartesian" => Grid::Cartesian1(axis), "spherical" => Grid::Spherical(axis), _ => Grid::Polar(axis) };
                    let meta = json!({"functional":fu.name,"grid":gk,"points":[n],"profile":kind,"lanczos":lz.is_some(),"length":fs(len.to_reduced())});
                    let arrays = n <= 128;
                    let r = guarded(std::panic::AssertUnwindSafe(|| variation_events!(Ix1, grid, hi, lo, lz, meta.clone(), kind, sig, arrays, tr)));
                    if let Err(m) = r { tr.ev(json!({"ev":"Panic","functional":fu.name,"grid":gk,"msg":m})); }
                }
            }
            // 2-D and 3-D grids (small)
            if !args.thorough && (kind == "oscillating" || rng.below(2) != 0) { continue; }
            let l = Length::from_reduced(sig * 10.0);
            let nn = if args.thorough { 32 } else { 16 };
            let ax = |n: usize| Axis::new_cartesian(n, l, None);
            let grids2: Vec<(&str, Grid)> = vec![
                ("cartesian2", Grid::Cartesian2(ax(nn), ax(nn))),
                ("periodical2(90)", Grid::Periodical2(ax(nn), ax(nn), 90.0 * DEGREES)),
                ("periodical2(60)", Grid::Periodical2(ax(nn), ax(nn), 60.0 * DEGREES)),
                ("cylindrical", Grid::Cylindrical { r: Axis::new_polar(512, l), z: ax(nn / 2) }),
            ];
            for (gk, grid) in grids2 {
                let meta = json!({"functional":fu.name,"grid":gk,"points":if gk == "cylindrical" { [512, nn / 2] } else { [nn, nn] },"profile":kind,"lanczos":false,"length":fs(l.to_reduced())});
                let r = guarded(std::panic::AssertUnwindSafe(|| variation_events!(Ix2, grid, hi, lo, None, meta.clone(), kind, sig, nn <= 16 && gk != "cylindrical", tr)));
                if let Err(m) = r { tr.ev(json!({"ev":"Panic","functional":fu.name,"grid":gk,"msg":m})); }
            }
            let n3 = if args.thorough { 16 } else { 8 };
            let grids3: Vec<(&str, Grid)> = vec![
                ("cartesian3", Grid::Cartesian3(ax(n3), ax(n3), ax(n3))),
                ("periodical3(90,90,90)", Grid::Periodical3(ax(n3), ax(n3), ax(n3), [90.0 * DEGREES, 90.0 * DEGREES, 90.0 * DEGREES])),
                ("periodical3(80,70,60)", Grid::Periodical3(ax(n3), ax(n3), ax(n3), [80.0 * DEGREES, 70.0 * DEGREES, 60.0 * DEGREES])),
            ];
            for (gk, grid) in grids3 {
                let meta = json!({"functional":fu.name,"grid":gk,"points":[n3, n3, n3],"profile":kind,"lanczos":false,"length":fs(l.to_reduced())});
                let r = guarded(std::panic::AssertUnwindSafe(|| variation_events!(Ix3, grid, hi, lo, None, meta.clone(), kind, sig, n3 <= 8, tr)));
                if let Err(m) = r { tr.ev(json!({"ev":"Panic","functional":fu.name,"grid":gk,"msg":m})); }
            }
        }
    }
    let n = tr.finish();
    println!("C17 trace: {} lines", n);
}

/// debugging aid: weighted density n0 of the first contribution near the axis of a polar grid
pub fn debug(_args: &Args) {
    for fu in functionals(false) {
        if fu.name != "PcSaft/methanol" && fu.name != "FMT(WhiteBear)" { continue; }
        let states = bulk_states(&fu);
        let (hi, lo) = if fu.name.starts_with("FMT") { (&states[1].1, &states[0].1) } else { (&states[0].1, &states[1].1) };
        let sig = if fu.name.starts_with("FMT") { 1.0 } else { 3.5 };
        for (n, len) in [(512usize, 60.911030726078245 / 3.5 * sig), (512, 61.5 / 3.5 * sig), (512, 60.0 / 3.5 * sig), (2048, 60.911030726078245 / 3.5 * sig)] {
            let grid = Grid::Polar(Axis::new_polar(n, Length::from_reduced(len)));
            let mut profile: DFTProfile<Ix1, F> = DFTProfile::new(grid, hi, None, None, None);
            let (g, l) = coords(&profile.grid);
            let seg_comp: Vec<usize> = profile.dft.component_index().to_vec();
            let h: Vec<f64> = hi.partial_density.to_reduced().to_vec();
            let lo_: Vec<f64> = lo.partial_density.to_reduced().to_vec();
            let rho_d = density_field("oscillating", &g, &l, &h, &lo_, &seg_comp, sig);
            let rho: Array2<f64> = rho_d.into_dimensionality().unwrap();
            profile.density = Density::from_reduced(rho.clone());
            let wd = profile.weighted_densities().unwrap();
            let w = &wd[0];
            let step = n / 512;
            println!("{} n={} len={}: r, rho, n0(first weighted density), last weighted density", fu.name, n, len);
            for k in (0..24 * step).step_by(step) {
                println!("   {:.3} {:.5e} {:.5e} {:.5e}", g[0][k], rho[[0, k]], w[[0, k]], w[[w.shape()[0] - 1, k]]);
            }
        }
    }
}
