//! C17 recorder: non-uniform smooth density profiles on every grid type, perturbed by smooth compactly supported
//! variations. Records raw values of the functional, its derivative and the linearised operators of the Newton
//! solver; the finite-difference and adjointness laws are in TraceDft.tla (no comparison happens here).
use crate::dftzoo::*;
use crate::util::*;
use feos_core::{ReferenceSystem, State};
use feos_dft::{Axis, DFTProfile, Grid, HelmholtzEnergyFunctional};
use ndarray::prelude::*;
use ndarray::{ArrayD, IxDyn};
use quantity::*;
use serde_json::{json, Value};

/// coordinates of the grid points per axis and the axis lengths
fn coords(grid: &Grid) -> (Vec<Vec<f64>>, Vec<f64>) {
    let g: Vec<Vec<f64>> = grid.grids().iter().map(|a| a.to_vec()).collect();
    let l: Vec<f64> = grid.axes().iter().map(|a| a.length()).collect();
    (g, l)
}

fn bump(x: f64, c: f64, w: f64) -> f64 {
    (-(x - c) * (x - c) / (2.0 * w * w)).exp()
}

/// largest spacing between neighbouring grid points of axis d (polar axes are logarithmic: the spacing grows with r)
fn max_spacing(g: &[Vec<f64>], d: usize) -> f64 {
    g[d].windows(2).map(|w| (w[1] - w[0]).abs()).fold(0.0, f64::max)
}

/// smooth positive density, every feature resolved by the grid (widths and wavelengths are at least 5 / 12 grid spacings):
/// "tanh": interface between the two bulk densities along axis 0; "oscillating": damped layering around 0.6 rho_hi next to
/// the origin; "pore": fluid confined to x < 0.7 L with layering towards the wall; "wave": single Fourier modes (periodic)
fn density_field(kind: &str, g: &[Vec<f64>], l: &[f64], hi: &[f64], lo: &[f64], seg_comp: &[usize], sig: f64) -> ArrayD<f64> {
    let mut shape = vec![seg_comp.len()];
    shape.extend(g.iter().map(|a| a.len()));
    let dx = max_spacing(g, 0);
    let w_int = (1.2 * sig).max(5.0 * dx);
    let w_wall = (0.5 * sig).max(5.0 * dx);
    let lambda = (1.03 * sig).max(12.0 * dx);
    let env = (3.0 * sig).max(2.5 * lambda);
    ArrayD::from_shape_fn(IxDyn(&shape), |ix| {
        let s = ix[0];
        let c = seg_comp[s];
        let x = g[0][ix[1]];
        let mut m = 1.0;
        for d in 1..g.len() {
            m *= 1.0 + 0.2 * (2.0 * std::f64::consts::PI * g[d][ix[d + 1]] / l[d]).cos();
        }
        match kind {
            "tanh" => (lo[c] + (hi[c] - lo[c]) * 0.5 * (1.0 - ((x - 0.5 * l[0]) / w_int + 0.3 * s as f64).tanh())) * m,
            "wave" => hi[c] * (0.55 + 0.35 * (2.0 * std::f64::consts::PI * x / l[0] + 0.4 * s as f64).cos()) * m,
            "pore" => {
                let xw = 0.7 * l[0];
                let wall = 0.5 * (1.0 - ((x - xw) / w_wall).tanh());
                (0.5 * hi[c] * (1.0 + 0.6 * (2.0 * std::f64::consts::PI * (xw - x) / lambda).cos() * (1.0 - 0.2 * s as f64) * (-(xw - x) * (xw - x) / (2.0 * env * env)).exp()) * wall + 1e-7 * hi[c]) * (0.8 + 0.2 * m)
            }
            _ => 0.6 * hi[c] * (1.0 + 0.5 * (2.0 * std::f64::consts::PI * x / lambda).cos() * (1.0 - 0.2 * s as f64) * (-x * x / (2.0 * env * env)).exp()) * (0.8 + 0.2 * m),
        }
    })
}

/// smooth bump supported away from the boundaries (relative to the local density), different per segment
fn perturbation(which: usize, rho: &ArrayD<f64>, g: &[Vec<f64>], l: &[f64]) -> ArrayD<f64> {
    let c0 = if which == 0 { 0.42 } else { 0.58 };
    let w: Vec<f64> = (0..g.len()).map(|d| (0.055 * l[d]).max(4.0 * max_spacing(g, d)).min(0.09 * l[d])).collect();
    ArrayD::from_shape_fn(rho.raw_dim(), |ix| {
        let s = ix[0];
        let mut b = 1.0;
        for d in 0..g.len() {
            let c = (c0 + 0.03 * s as f64 - 0.05 * d as f64) * l[d];
            b *= bump(g[d][ix[d + 1]], c, w[d]);
        }
        let sign = if which == 1 && s % 2 == 1 { -0.6 } else { 1.0 };
        rho[&ix] * b * sign * (1.0 + 0.5 * s as f64)
    })
}

fn flat(a: &ArrayD<f64>) -> Value {
    fv(a.iter())
}

macro_rules! variation_events {
    ($dim:ty, $grid:expr, $bulk_hi:expr, $bulk_lo:expr, $lanczos:expr, $meta:expr, $kind:expr, $sig:expr, $arrays:expr, $tr:expr) => {{
        type DL = <$dim as Dimension>::Larger;
        let bulk: &State<F> = $bulk_hi;
        let mut profile: DFTProfile<$dim, F> = DFTProfile::new($grid, bulk, None, None, $lanczos);
        let t = profile.temperature.to_reduced();
        let (g, l) = coords(&profile.grid);
        let seg_comp: Vec<usize> = profile.dft.component_index().to_vec();
        let hi: Vec<f64> = $bulk_hi.partial_density.to_reduced().to_vec();
        let lo: Vec<f64> = $bulk_lo.partial_density.to_reduced().to_vec();
        let rho_d = density_field($kind, &g, &l, &hi, &lo, &seg_comp, $sig);
        let eta_d = perturbation(0, &rho_d, &g, &l);
        let zeta_d = perturbation(1, &rho_d, &g, &l);
        let rho: Array<f64, DL> = rho_d.clone().into_dimensionality().unwrap();
        let eta: Array<f64, DL> = eta_d.clone().into_dimensionality().unwrap();
        let zeta: Array<f64, DL> = zeta_d.clone().into_dimensionality().unwrap();
        profile.density = Density::from_reduced(rho.clone());
        let meta: Value = $meta;
        let integ = |f: &Array<f64, $dim>| profile.integrate(&Dimensionless::new(f.clone())).to_reduced();
        let integ_s = |f: &Array<f64, DL>| profile.integrate_comp(&Dimensionless::new(f.clone())).to_reduced().sum();
        let eps = [1e-3, 5e-4];

        // ---- first variation
        let (_, g0) = profile.dft.functional_derivative(t, &rho, &profile.convolver).unwrap();
        let mut fp = vec![];
        let mut fm_ = vec![];
        let mut gp: Vec<Array<f64, DL>> = vec![];
        let mut gm: Vec<Array<f64, DL>> = vec![];
        for e in eps {
            let (f1, g1) = profile.dft.functional_derivative(t, &(&rho + &(&eta * e)), &profile.convolver).unwrap();
            let (f2, g2) = profile.dft.functional_derivative(t, &(&rho - &(&eta * e)), &profile.convolver).unwrap();
            fp.push(integ(&f1));
            fm_.push(integ(&f2));
            gp.push(g1);
            gm.push(g2);
        }
        let mut ev = meta.clone();
        ev["ev"] = json!("Var1");
        ev["eps"] = fv(eps.iter());
        ev["F_plus"] = fv(fp.iter());
        ev["F_minus"] = fv(fm_.iter());
        ev["inner"] = fs(integ_s(&(&g0 * &eta)));
        ev["inner_abs"] = fs(integ_s(&(&g0 * &eta).mapv(f64::abs)));
        ev["rho_min"] = fs(rho.iter().cloned().fold(f64::INFINITY, f64::min));
        $tr.ev(ev);

        // ---- second variation: H eta against the difference quotient of the functional derivative (pointwise), symmetry of H
        let h_eta = profile.verif_delta_functional_derivative(&rho, &eta).unwrap();
        let h_zeta = profile.verif_delta_functional_derivative(&rho, &zeta).unwrap();
        let mut ev = meta.clone();
        ev["ev"] = json!("Var2");
        ev["eps"] = fv(eps.iter());
        ev["sym_ab"] = fs(integ_s(&(&zeta * &h_eta)));
        ev["sym_ba"] = fs(integ_s(&(&eta * &h_zeta)));
        ev["sym_scale"] = fs(integ_s(&(&zeta * &h_eta).mapv(f64::abs)));
        // projections of the difference quotient on zeta (always) and the full fields (when the grid is small)
        ev["proj_g_plus"] = fv(gp.iter().map(|x| integ_s(&(&zeta * x))).collect::<Vec<_>>().iter());
        ev["proj_g_minus"] = fv(gm.iter().map(|x| integ_s(&(&zeta * x))).collect::<Vec<_>>().iter());
        ev["has_fields"] = json!($arrays);
        if $arrays {
            ev["H_eta"] = flat(&h_eta.clone().into_dyn());
            ev["g_plus"] = Value::Array(gp.iter().map(|x| flat(&x.clone().into_dyn())).collect());
            ev["g_minus"] = Value::Array(gm.iter().map(|x| flat(&x.clone().into_dyn())).collect());
        }
        $tr.ev(ev);

        // ---- adjointness of the two convolutions, one weighted density at a time
        let wd = profile.convolver.weighted_densities(&eta);
        let shapes: Vec<Vec<usize>> = wd.iter().map(|w| w.shape().to_vec()).collect();
        for (ci, w) in wd.iter().enumerate() {
            for a in 0..shapes[ci][0] {
                // test field q: a bump (different centre per weighted density) in slot (ci, a), zero elsewhere
                let pds: Vec<Array<f64, DL>> = shapes.iter().enumerate().map(|(cj, sh)| {
                    let q = ArrayD::from_shape_fn(IxDyn(sh), |ix| {
                        if cj != ci || ix[0] != a { return 0.0; }
                        let mut b = 1.0;
                        for d in 0..g.len() {
                            b *= bump(g[d][ix[d + 1]], (0.5 + 0.02 * a as f64 - 0.03 * ci as f64) * l[d], 0.07 * l[d]);
                        }
                        b
                    });
                    q.into_dimensionality().unwrap()
                }).collect();
                let lhs = integ(&(&w.index_axis(ndarray::Axis(0), a) * &pds[ci].index_axis(ndarray::Axis(0), a)).to_owned());
                let lhs_abs = integ(&(&w.index_axis(ndarray::Axis(0), a) * &pds[ci].index_axis(ndarray::Axis(0), a)).mapv(f64::abs));
                let back = profile.convolver.functional_derivative(&pds);
                let rhs = integ_s(&(&back * &eta));
                let rhs_abs = integ_s(&(&back * &eta).mapv(f64::abs));
                let mut ev = meta.clone();
                ev["ev"] = json!("Adjoint");
                ev["contribution"] = json!(ci);
                ev["weighted_density"] = json!(a);
                ev["n_weighted"] = json!(shapes[ci][0]);
                ev["lhs"] = fs(lhs);
                ev["rhs"] = fs(rhs);
                ev["scale"] = fs(lhs_abs.max(rhs_abs));
                $tr.ev(ev);
            }
        }

        // ---- bond integrals of chains: d ln I / d(-delta) against the difference quotient
        if profile.dft.bond_lengths(t).edge_count() > 0 {
            let e0: Array<f64, DL> = rho.mapv(|_| 1.0) + &(&zeta / &rho) * 0.5 + 0.2;
            let delta: Array<f64, DL> = &eta / &rho;
            let di = profile.verif_delta_bond_integrals(&e0, &delta);
            let mut ip = vec![];
            let mut im = vec![];
            for e in eps {
                let ep = &e0 * &delta.mapv(|d| (-e * d).exp());
                let em = &e0 * &delta.mapv(|d| (e * d).exp());
                ip.push(profile.dft.bond_integrals(t, &ep, &profile.convolver).mapv(f64::ln));
                im.push(profile.dft.bond_integrals(t, &em, &profile.convolver).mapv(f64::ln));
            }
            let mut ev = meta.clone();
            ev["ev"] = json!("BondVar");
            ev["eps"] = fv(eps.iter());
            ev["proj_delta_i"] = fs(integ_s(&(&zeta * &di)));
            ev["proj_scale"] = fs(integ_s(&(&zeta * &di).mapv(f64::abs)));
            ev["proj_lnI_plus"] = fv(ip.iter().map(|x| integ_s(&(&zeta * x))).collect::<Vec<_>>().iter());
            ev["proj_lnI_minus"] = fv(im.iter().map(|x| integ_s(&(&zeta * x))).collect::<Vec<_>>().iter());
            ev["has_fields"] = json!($arrays);
            if $arrays {
                ev["delta_i"] = flat(&di.clone().into_dyn());
                ev["lnI_plus"] = Value::Array(ip.iter().map(|x| flat(&x.clone().into_dyn())).collect());
                ev["lnI_minus"] = Value::Array(im.iter().map(|x| flat(&x.clone().into_dyn())).collect());
            }
            $tr.ev(ev);
        }
    }};
}

/// box lengths in units of sigma: a fixed list, so that every case of the quick tier is also a case of the thorough tier
const LENGTHS: [f64; 4] = [12.0, 15.7, 17.403151636022354, 20.0];

pub fn run(args: &Args) {
    let mut tr = Tr::create(&args.out);
    let mut rng = Rng::new(args.seed ^ 0x17);
    let n1: Vec<usize> = if args.thorough { vec![64, 128, 512, 2048] } else { vec![128, 512] };
    for (fi, fu) in functionals(args.thorough).into_iter().enumerate() {
        let sig = if fu.name.starts_with("FMT") { 1.0 } else { 3.5 };
        let states = bulk_states(&fu);
        if states.len() < 2 { continue; }
        // FMT: states are (eta = 0.05, eta = 0.35); others: (liquid, vapor)
        let (hi, lo) = if fu.name.starts_with("FMT") { (&states[1].1, &states[0].1) } else { (&states[0].1, &states[1].1) };
        for (ki, kind) in ["tanh", "oscillating", "pore"].into_iter().enumerate() {
            for (ni, &n) in n1.iter().enumerate() {
                for (li, &lsig) in LENGTHS.iter().enumerate() {
                    // quick tier: one length per (functional, profile, n), chosen by the seed
                    if !args.thorough && li != (fi + ki + ni + args.seed as usize) % LENGTHS.len() { continue; }
                    let lz = if (fi + li + ni) % 3 == 0 { Some(1) } else { None };
                    let len = Length::from_reduced(sig * lsig);
                    for gk in ["cartesian", "spherical", "polar"] {
                        let axis = match gk { "cartesian" => Axis::new_cartesian(n, len, None), "spherical" => Axis::new_spherical(n, len), _ => Axis::new_polar(n, len) };
                        let grid = match gk { "cartesian" => Grid::Cartesian1(axis), "spherical" => Grid::Spherical(axis), _ => Grid::Polar(axis) };
                        let meta = json!({"functional":fu.name,"grid":gk,"points":[n],"profile":kind,"lanczos":lz.is_some(),"length":fs(len.to_reduced()),"length_sigma":fs(lsig)});
                        let arrays = n <= 128 && (args.thorough || li % 2 == 0);
                        let r = guarded(std::panic::AssertUnwindSafe(|| variation_events!(Ix1, grid, hi, lo, lz, meta.clone(), kind, sig, arrays, tr)));
                        if let Err(m) = r { tr.ev(json!({"ev":"Panic","functional":fu.name,"grid":gk,"msg":m})); }
                    }
                }
            }
        }
        // 2-D and 3-D grids (small): the profile has to be smooth on the grid's topology (periodic) and resolved by 8-32 points
        {
            let kind = "wave";
            // quick tier: every multi-segment functional (mixtures, heterosegmented chains), a seeded half of the single-segment ones
            let multi = fu.n > 1 || fu.name.starts_with("GcPcSaft");
            if !args.thorough && !multi && rng.below(2) != 0 { continue; }
            let l = Length::from_reduced(sig * 10.0);
            let nn = if args.thorough { 32 } else { 16 };
            let ax = |n: usize| Axis::new_cartesian(n, l, None);
            let grids2: Vec<(&str, Grid)> = vec![
                ("cartesian2", Grid::Cartesian2(ax(nn), ax(nn))),
                ("periodical2(90)", Grid::Periodical2(ax(nn), ax(nn), 90.0 * DEGREES)),
                ("periodical2(60)", Grid::Periodical2(ax(nn), ax(nn), 60.0 * DEGREES)),
                ("cylindrical", Grid::Cylindrical { r: Axis::new_polar(512, l), z: ax(nn / 2) }),
            ];
            for (gk, grid) in grids2 {
                let meta = json!({"functional":fu.name,"grid":gk,"points":if gk == "cylindrical" { [512, nn / 2] } else { [nn, nn] },"profile":kind,"lanczos":false,"length":fs(l.to_reduced()),"length_sigma":fs(10.0)});
                let r = guarded(std::panic::AssertUnwindSafe(|| variation_events!(Ix2, grid, hi, lo, None, meta.clone(), kind, sig, nn <= 16 && gk != "cylindrical", tr)));
                if let Err(m) = r { tr.ev(json!({"ev":"Panic","functional":fu.name,"grid":gk,"msg":m})); }
            }
            let n3 = if args.thorough { 16 } else { 8 };
            let grids3: Vec<(&str, Grid)> = vec![
                ("cartesian3", Grid::Cartesian3(ax(n3), ax(n3), ax(n3))),
                ("periodical3(90,90,90)", Grid::Periodical3(ax(n3), ax(n3), ax(n3), [90.0 * DEGREES, 90.0 * DEGREES, 90.0 * DEGREES])),
                ("periodical3(80,70,60)", Grid::Periodical3(ax(n3), ax(n3), ax(n3), [80.0 * DEGREES, 70.0 * DEGREES, 60.0 * DEGREES])),
            ];
            for (gk, grid) in grids3 {
                let meta = json!({"functional":fu.name,"grid":gk,"points":[n3, n3, n3],"profile":kind,"lanczos":false,"length":fs(l.to_reduced()),"length_sigma":fs(10.0)});
                let r = guarded(std::panic::AssertUnwindSafe(|| variation_events!(Ix3, grid, hi, lo, None, meta.clone(), kind, sig, n3 <= 8, tr)));
                if let Err(m) = r { tr.ev(json!({"ev":"Panic","functional":fu.name,"grid":gk,"msg":m})); }
            }
        }
    }
    let n = tr.finish();
    println!("C17 trace: {} lines", n);
}

/// debugging aid: weighted densities of FMT for a structureless pore filling (constant inside, zero outside) on polar grids
pub fn debug(_args: &Args) {
    for fu in functionals(false) {
        if fu.name != "FMT(WhiteBear)" { continue; }
        let states = bulk_states(&fu);
        let hi = &states[1].1;
        for (n, len, w) in [(512usize, 15.7, 0.5), (512, 12.0, 0.5), (512, 20.0, 0.5), (2048, 15.7, 0.5), (128, 15.7, 0.5), (512, 15.7, 1.5)] {
            let grid = Grid::Polar(Axis::new_polar(n, Length::from_reduced(len)));
            let mut profile: DFTProfile<Ix1, F> = DFTProfile::new(grid, hi, None, None, None);
            let (g, _l) = coords(&profile.grid);
            let rho0 = 0.3;
            let rho: Array2<f64> = Array2::from_shape_fn((1, n), |(_, k)| rho0 * 0.5 * (1.0 - ((g[0][k] - 0.7 * len) / w).tanh()) + 1e-7);
            profile.density = Density::from_reduced(rho.clone());
            let wd = profile.weighted_densities().unwrap();
            let w0 = &wd[0];
            let nw = w0.shape()[0];
            println!("n={} len={} wall width {}: exact n3 inside = {:.6e}; rows: r, rho, then the {} weighted densities", n, len, w, rho0 * std::f64::consts::PI / 6.0, nw);
            for k in [0, 1, 2, 5, 10, 20, 40, 80, n / 4, n / 2, 3 * n / 4, n - 1] {
                if k >= n { continue; }
                let row: Vec<String> = (0..nw).map(|a| format!("{:.4e}", w0[[a, k]])).collect();
                println!("   {:.4} {:.4e} | {}", g[0][k], rho[[0, k]], row.join(" "));
            }
        }
    }
}
