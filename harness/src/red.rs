//! Projection of library quantities onto plain doubles in the library's reduced units
//! (Angstrom, Kelvin, k_B K, particle numbers).
use feos_core::ReferenceSystem;
use ndarray::{Array1, Array2};
use quantity::{Quantity, SIUnit};
use typenum::Integer;

pub fn r0<T: Integer, L: Integer, M: Integer, I: Integer, TH: Integer, N: Integer, J: Integer>(
    q: Quantity<f64, SIUnit<T, L, M, I, TH, N, J>>,
) -> f64 {
    q.to_reduced()
}
pub fn r1<T: Integer, L: Integer, M: Integer, I: Integer, TH: Integer, N: Integer, J: Integer>(
    q: Quantity<Array1<f64>, SIUnit<T, L, M, I, TH, N, J>>,
) -> Vec<f64> {
    q.to_reduced().to_vec()
}
pub fn r2<T: Integer, L: Integer, M: Integer, I: Integer, TH: Integer, N: Integer, J: Integer>(
    q: Quantity<Array2<f64>, SIUnit<T, L, M, I, TH, N, J>>,
) -> Array2<f64> {
    q.to_reduced()
}
pub fn flat(a: &Array2<f64>) -> Vec<f64> {
    a.iter().cloned().collect()
}
