//! C14 driver: replays the TLC-generated case space of ParameterDB.tla through the real constructors of every
//! Parameter implementation, with real JSON files materialised in a scratch directory, and records what came back.
use crate::util::*;
use feos::epcsaft::ElectrolytePcSaftParameters;
use feos::ideal_gas::{Dippr, Joback};
use feos::pcsaft::PcSaftParameters;
use feos::pets::PetsParameters;
use feos::saftvrmie::SaftVRMieParameters;
use feos::saftvrqmie::SaftVRQMieParameters;
use feos::uvtheory::UVTheoryParameters;
use feos_core::cubic::PengRobinsonParameters;
use feos_core::parameter::{IdentifierOption, Parameter, ParameterError};
use serde::Serialize;
use serde_json::{json, Value};
use std::collections::HashMap;

const KINDS: [(&str, IdentifierOption, &str); 6] = [
    ("cas", IdentifierOption::Cas, "c"),
    ("name", IdentifierOption::Name, "n"),
    ("iupac_name", IdentifierOption::IupacName, "i"),
    ("smiles", IdentifierOption::Smiles, "s"),
    ("inchi", IdentifierOption::Inchi, "h"),
    ("formula", IdentifierOption::Formula, "f"),
];

struct Tmpl {
    name: &'static str,
    pure: fn(usize) -> Value,
    binary: Option<fn(f64) -> Value>,
}

fn templates() -> Vec<Tmpl> {
    vec![
        Tmpl { name: "PcSaft", pure: |s| json!({"m": 1.0 + 0.1 * s as f64, "sigma": 3.5, "epsilon_k": 200.0 + s as f64}), binary: Some(|t| json!({"k_ij": t})) },
        Tmpl { name: "ElectrolytePcSaft", pure: |s| json!({"m": 1.0 + 0.1 * s as f64, "sigma": 3.5, "epsilon_k": 200.0 + s as f64}), binary: Some(|t| json!({"k_ij": [t, 0.0, 0.0, 0.0]})) },
        Tmpl { name: "SaftVRMie", pure: |s| json!({"m": 1.0 + 0.1 * s as f64, "sigma": 3.5, "epsilon_k": 200.0 + s as f64, "lr": 12.0, "la": 6.0}), binary: Some(|t| json!({"k_ij": t})) },
        Tmpl { name: "SaftVRQMie", pure: |s| json!({"m": 1.0, "sigma": 3.0 + 0.1 * s as f64, "epsilon_k": 30.0 + s as f64, "lr": 12.0, "la": 6.0, "fh": 1}), binary: Some(|t| json!({"k_ij": t, "l_ij": 0.0})) },
        Tmpl { name: "Pets", pure: |s| json!({"sigma": 3.0 + 0.1 * s as f64, "epsilon_k": 100.0 + s as f64}), binary: Some(|t| json!({"k_ij": t})) },
        Tmpl { name: "UVTheory", pure: |s| json!({"rep": 12.0, "att": 6.0, "sigma": 3.0 + 0.1 * s as f64, "epsilon_k": 100.0 + s as f64}), binary: Some(|t| json!({"k_ij": t})) },
        Tmpl { name: "PengRobinson", pure: |s| json!({"tc": 300.0 + 10.0 * s as f64, "pc": 4.0e6, "acentric_factor": 0.1}), binary: Some(|t| json!(t)) },
        Tmpl { name: "Joback", pure: |s| json!({"a": 10.0 + s as f64, "b": 0.1, "c": 1e-4, "d": 1e-8, "e": 0.0}), binary: None },
        Tmpl { name: "Dippr", pure: |s| json!({"DIPPR100": [3.0e4 + s as f64, 10.0]}), binary: None },
    ]
}

fn ident(s: usize, kind: Option<usize>, visible: bool) -> Value {
    ident_masked(s, kind, visible, 0x3f)
}

/// `others`: bit k set = the record carries identifier kind k (applies to the kinds that are NOT queried; which of those a record
/// carries must not matter: the specification looks records up by the queried kind only)
fn ident_masked(s: usize, kind: Option<usize>, visible: bool, others: u8) -> Value {
    let mut m = serde_json::Map::new();
    for (k, (field, _, pre)) in KINDS.iter().enumerate() {
        if Some(k) == kind && !visible {
            continue; // this record does not carry the queried kind of identifier
        }
        if Some(k) != kind && others & (1 << k) == 0 {
            continue;
        }
        m.insert(field.to_string(), json!(format!("{}{}", pre, s)));
    }
    Value::Object(m)
}

fn qname(s: usize, kind: usize) -> String {
    format!("{}{}", KINDS[kind].2, s)
}

struct Scratch {
    dir: String,
    cache: HashMap<String, String>,
}
impl Scratch {
    fn file(&mut self, key: String, content: impl FnOnce() -> String) -> String {
        if let Some(p) = self.cache.get(&key) {
            return p.clone();
        }
        let p = format!("{}/f{}.json", self.dir, self.cache.len());
        std::fs::write(&p, content()).unwrap();
        self.cache.insert(key, p.clone());
        p
    }
}

fn pure_file(sc: &mut Scratch, t: &Tmpl, file: &[usize], vis: &[usize], kind: usize) -> String {
    pure_file_masked(sc, t, file, vis, kind, 0x3f)
}

fn pure_file_masked(sc: &mut Scratch, t: &Tmpl, file: &[usize], vis: &[usize], kind: usize, others: u8) -> String {
    let key = format!("P/{}/{:?}/{:?}/{}/{}", t.name, file, vis, kind, others);
    sc.file(key, || {
        let recs: Vec<Value> = file
            .iter()
            .map(|&s| json!({"identifier": ident_masked(s, Some(kind), vis.contains(&s), others), "molarweight": 10.0 + s as f64, "model_record": (t.pure)(s)}))
            .collect();
        serde_json::to_string(&recs).unwrap()
    })
}

fn tag(a: usize, b: usize) -> f64 {
    0.01 * a.min(b) as f64 + 0.001 * a.max(b) as f64
}

fn err_kind(e: &ParameterError) -> String {
    match e {
        ParameterError::ComponentsNotFound(_) => "Missing".into(),
        ParameterError::IncompatibleParameters(m) if m.contains("more than once") => "Duplicate".into(),
        other => format!("Other:{}", other),
    }
}

fn first_number(v: &Value) -> f64 {
    match v {
        Value::Number(n) => n.as_f64().unwrap_or(f64::NAN),
        Value::Array(a) => a.first().map(first_number).unwrap_or(0.0),
        Value::Object(o) => o.get("k_ij").map(first_number).unwrap_or(0.0),
        _ => 0.0,
    }
}

fn order_of<P: Parameter>(p: &P) -> Vec<i64> {
    p.records().0.iter().map(|r| (r.molarweight - 10.0).round() as i64).collect()
}

fn matrix_of<P: Parameter>(p: &P) -> Value
where
    P::Binary: Serialize,
{
    let (pure, bin) = p.records();
    let n = pure.len();
    Value::Array(
        (0..n)
            .map(|i| {
                Value::Array(
                    (0..n)
                        .map(|j| match bin {
                            Some(b) => fs(first_number(&serde_json::to_value(&b[(i, j)]).unwrap())),
                            None => fs(0.0),
                        })
                        .collect(),
                )
            })
            .collect(),
    )
}

fn usv(v: &Value) -> Vec<usize> {
    v.as_array().unwrap().iter().map(|x| x.as_u64().unwrap() as usize).collect()
}

fn run_model<P: Parameter>(tr: &mut Tr, sc: &mut Scratch, t: &Tmpl, plans: &[Vec<Value>; 3], args: &Args, rng: &mut Rng)
where
    P::Binary: Serialize,
{
    // (1) single file lookups
    let frac = if args.thorough { 1 } else { 12 };
    for (pi, p) in plans[0].iter().enumerate() {
        if rng.below(frac) != 0 {
            continue;
        }
        let (q, file, vis) = (usv(&p["q"]), usv(&p["file"]), usv(&p["vis"]));
        let kind = (pi + t.name.len()) % 6;
        let path = pure_file(sc, t, &file, &vis, kind);
        let names: Vec<String> = q.iter().map(|&s| qname(s, kind)).collect();
        let r = guarded(std::panic::AssertUnwindSafe(|| P::from_json(names.iter().map(|s| s.as_str()).collect(), &path, None, KINDS[kind].1)));
        let res = match r {
            Ok(Ok(p)) => json!({"ok": true, "order": order_of(&p)}),
            Ok(Err(e)) => json!({"ok": false, "err": err_kind(&e)}),
            Err(m) => json!({"ok": false, "err": format!("Panic:{}", m)}),
        };
        tr.ev(json!({"ev":"Lookup","model":t.name,"kind":KINDS[kind].0,"q":q,"file":file,"vis":vis,"res":res}));
    }
    // (2) binary matrix: all substances in one pure file, binary file with the given stored orientations
    if let Some(bt) = t.binary {
        let fracb = if args.thorough { 1 } else { 10 };
        for (pi, p) in plans[1].iter().enumerate() {
            if rng.below(fracb) != 0 {
                continue;
            }
            let q = usv(&p["q"]);
            let bfile: Vec<Vec<usize>> = p["bfile"].as_array().unwrap().iter().map(usv).collect();
            let kind = (pi + t.name.len()) % 6;
            let mut all = vec![1usize, 2, 3, 4];
            rng.shuffle(&mut all);
            // which of the NON-queried identifier kinds the pure and the binary records carry: all, none, or a random subset
            let masks: (u8, u8) = match pi % 3 { 0 => (0x3f, 0x3f), 1 => (0, 0), _ => (rng.below(64) as u8, rng.below(64) as u8) };
            let path = pure_file_masked(sc, t, &all, &[1, 2, 3, 4], kind, masks.0);
            let mut order: Vec<usize> = (0..bfile.len()).collect();
            rng.shuffle(&mut order);
            let key = format!("B/{}/{:?}/{:?}/{}/{}", t.name, bfile, order, kind, masks.1);
            let bpath = sc.file(key, || {
                let recs: Vec<Value> = order
                    .iter()
                    .map(|&k| {
                        let (a, b) = (bfile[k][0], bfile[k][1]);
                        json!({"id1": ident_masked(a, Some(kind), true, masks.1), "id2": ident_masked(b, Some(kind), true, masks.1), "model_record": bt(tag(a, b))})
                    })
                    .collect();
                serde_json::to_string(&recs).unwrap()
            });
            let names: Vec<String> = q.iter().map(|&s| qname(s, kind)).collect();
            let r = guarded(std::panic::AssertUnwindSafe(|| P::from_json(names.iter().map(|s| s.as_str()).collect(), &path, Some(&bpath), KINDS[kind].1)));
            let res = match r {
                Ok(Ok(p)) => json!({"ok": true, "order": order_of(&p), "kij": matrix_of(&p)}),
                Ok(Err(e)) => json!({"ok": false, "err": err_kind(&e)}),
                Err(m) => json!({"ok": false, "err": format!("Panic:{}", m)}),
            };
            tr.ev(json!({"ev":"Binary","model":t.name,"kind":KINDS[kind].0,"q":q,"bfile":bfile,"res":res}));
        }
    }
    // (3) two files
    let fracm = if args.thorough { 3 } else { 20 };
    for (pi, p) in plans[2].iter().enumerate() {
        if rng.below(fracm) != 0 {
            continue;
        }
        let (q1, f1, q2, f2) = (usv(&p["q1"]), usv(&p["f1"]), usv(&p["q2"]), usv(&p["f2"]));
        let kind = (pi + t.name.len()) % 6;
        let p1 = pure_file(sc, t, &f1, &[1, 2, 3, 4], kind);
        let p2 = pure_file(sc, t, &f2, &[1, 2, 3, 4], kind);
        let n1: Vec<String> = q1.iter().map(|&s| qname(s, kind)).collect();
        let n2: Vec<String> = q2.iter().map(|&s| qname(s, kind)).collect();
        let r = guarded(std::panic::AssertUnwindSafe(|| {
            P::from_multiple_json(
                &[(n1.iter().map(|s| s.as_str()).collect(), p1.as_str()), (n2.iter().map(|s| s.as_str()).collect(), p2.as_str())],
                None,
                KINDS[kind].1,
            )
        }));
        let res = match r {
            Ok(Ok(p)) => json!({"ok": true, "order": order_of(&p)}),
            Ok(Err(e)) => json!({"ok": false, "err": err_kind(&e)}),
            Err(m) => json!({"ok": false, "err": format!("Panic:{}", m)}),
        };
        tr.ev(json!({"ev":"Multi","model":t.name,"kind":KINDS[kind].0,"q1":q1,"f1":f1,"q2":q2,"f2":f2,"res":res}));
    }
}

fn read_plan(path: &str) -> Vec<Value> {
    std::fs::read_to_string(path).expect("plan").lines().map(|l| serde_json::from_str(l).unwrap()).collect()
}

pub fn run(args: &Args) {
    let mut tr = Tr::create(&args.out);
    let mut rng = Rng::new(args.seed ^ 0x14);
    let base = args.plan.clone().expect("--plan prefix");
    let plans = [read_plan(&format!("{}_single.ndjson", base)), read_plan(&format!("{}_binary.ndjson", base)), read_plan(&format!("{}_multi.ndjson", base))];
    let dir = format!("{}.scratch", args.out);
    std::fs::remove_dir_all(&dir).ok();
    std::fs::create_dir_all(&dir).unwrap();
    let mut sc = Scratch { dir: dir.clone(), cache: HashMap::new() };
    for t in templates() {
        match t.name {
            "PcSaft" => run_model::<PcSaftParameters>(&mut tr, &mut sc, &t, &plans, args, &mut rng),
            "ElectrolytePcSaft" => run_model::<ElectrolytePcSaftParameters>(&mut tr, &mut sc, &t, &plans, args, &mut rng),
            "SaftVRMie" => run_model::<SaftVRMieParameters>(&mut tr, &mut sc, &t, &plans, args, &mut rng),
            "SaftVRQMie" => run_model::<SaftVRQMieParameters>(&mut tr, &mut sc, &t, &plans, args, &mut rng),
            "Pets" => run_model::<PetsParameters>(&mut tr, &mut sc, &t, &plans, args, &mut rng),
            "UVTheory" => run_model::<UVTheoryParameters>(&mut tr, &mut sc, &t, &plans, args, &mut rng),
            "PengRobinson" => run_model::<PengRobinsonParameters>(&mut tr, &mut sc, &t, &plans, args, &mut rng),
            "Joback" => run_model::<Joback>(&mut tr, &mut sc, &t, &plans, args, &mut rng),
            _ => run_model::<Dippr>(&mut tr, &mut sc, &t, &plans, args, &mut rng),
        }
    }
    // binary records that carry association parameters (SAFT-VR Mie has its own binary record type): whatever the order of the query and the orientation
    // in which the record is stored, BOTH cross entries of the association matrices of the built parameters are the record's values
    {
        let pure = crate::zoo::ppath("saftvrmie/lafitte2013.json");
        for (a, b) in [("methanol", "ethanol"), ("ethanol", "1-butanol"), ("methanol", "1-propanol")] {
            for stored_swapped in [false, true] {
                let (eps, rc) = (2600.0 + rng.range(-300.0, 300.0), 1.3 + rng.range(-0.1, 0.1));
                let (i1, i2) = if stored_swapped { (b, a) } else { (a, b) };
                let file = format!("{}/assoc_binary_{}_{}_{}.json", dir, a, b, stored_swapped);
                std::fs::write(&file, json!([{"id1": {"name": i1}, "id2": {"name": i2}, "model_record": {"k_ij": 0.01, "rc_ab": rc, "epsilon_k_ab": eps}}]).to_string()).unwrap();
                for query_swapped in [false, true] {
                    let q = if query_swapped { vec![b, a] } else { vec![a, b] };
                    let r = guarded(std::panic::AssertUnwindSafe(|| SaftVRMieParameters::from_json(q.clone(), &pure, Some(&file), IdentifierOption::Name)));
                    let ev = match r {
                        Ok(Ok(p)) => json!({"ev":"AssocBinary","model":"SaftVRMie","pair":[a, b],"stored_swapped":stored_swapped,"query_swapped":query_swapped,"ok":true,
                            "eps_record":fs(eps),"rc_record":fs(rc),"eps":fm(&p.association.epsilon_k_ab),"rc":fm(&p.association.rc_ab)}),
                        Ok(Err(e)) => json!({"ev":"AssocBinary","model":"SaftVRMie","pair":[a, b],"stored_swapped":stored_swapped,"query_swapped":query_swapped,"ok":false,"err":err_kind(&e),
                            "eps_record":fs(eps),"rc_record":fs(rc),"eps":[],"rc":[]}),
                        Err(m) => json!({"ev":"AssocBinary","model":"SaftVRMie","pair":[a, b],"stored_swapped":stored_swapped,"query_swapped":query_swapped,"ok":false,"err":format!("Panic:{}", m),
                            "eps_record":fs(eps),"rc_record":fs(rc),"eps":[],"rc":[]}),
                    };
                    tr.ev(ev);
                }
            }
        }
    }
    crate::c14seg::run(&mut tr, args, &mut rng);
    std::fs::remove_dir_all(&dir).ok();
    let n = tr.finish();
    println!("C14 trace: {} lines", n);
}
