//! C11 driver: history / clone / thread-schedule independence of State properties, par_pure vs pure.
use crate::red::*;
use crate::util::*;
use crate::zoo::{self, Eos};
use feos_core::{Contributions, Derivative, PhaseDiagram, Residual, SolverOptions, State};
use ndarray::arr1;
use num_dual::*;
use quantity::*;
use serde_json::{json, Value};
use std::sync::Arc;

type S = State<Eos>;
type Getter = (&'static str, fn(&S) -> Vec<f64>);

const T: Contributions = Contributions::Total;
const R: Contributions = Contributions::Residual;
const IG: Contributions = Contributions::IdealGas;

pub fn getters() -> Vec<Getter> {
    vec![
        ("residual_helmholtz_energy", |s| vec![r0(s.residual_helmholtz_energy())]),
        ("residual_entropy", |s| vec![r0(s.residual_entropy())]),
        ("pressure(T)", |s| vec![r0(s.pressure(T))]),
        ("pressure(R)", |s| vec![r0(s.pressure(R))]),
        ("residual_chemical_potential", |s| r1(s.residual_chemical_potential())),
        ("compressibility(T)", |s| vec![s.compressibility(T)]),
        ("dp_dv(T)", |s| vec![r0(s.dp_dv(T))]),
        ("dp_drho(R)", |s| vec![r0(s.dp_drho(R))]),
        ("dp_dt(T)", |s| vec![r0(s.dp_dt(T))]),
        ("dp_dni(T)", |s| r1(s.dp_dni(T))),
        ("d2p_dv2(T)", |s| vec![r0(s.d2p_dv2(T))]),
        ("d2p_drho2(R)", |s| vec![r0(s.d2p_drho2(R))]),
        ("structure_factor", |s| vec![s.structure_factor()]),
        ("partial_molar_volume", |s| r1(s.partial_molar_volume())),
        ("dmu_dni(T)", |s| flat(&r2(s.dmu_dni(T)))),
        ("dmu_dni(R)", |s| flat(&r2(s.dmu_dni(R)))),
        ("isothermal_compressibility", |s| vec![r0(s.isothermal_compressibility())]),
        ("ds_res_dt", |s| vec![r0(s.ds_res_dt())]),
        ("d2s_res_dt2", |s| vec![r0(s.d2s_res_dt2())]),
        ("dmu_res_dt", |s| r1(s.dmu_res_dt())),
        ("ln_phi", |s| s.ln_phi().to_vec()),
        ("dln_phi_dt", |s| r1(s.dln_phi_dt())),
        ("dln_phi_dp", |s| r1(s.dln_phi_dp())),
        ("dln_phi_dnj", |s| flat(&r2(s.dln_phi_dnj()))),
        ("residual_molar_isochoric_heat_capacity", |s| vec![r0(s.residual_molar_isochoric_heat_capacity())]),
        ("dc_v_res_dt", |s| vec![r0(s.dc_v_res_dt())]),
        ("residual_molar_isobaric_heat_capacity", |s| vec![r0(s.residual_molar_isobaric_heat_capacity())]),
        ("residual_enthalpy", |s| vec![r0(s.residual_enthalpy())]),
        ("residual_internal_energy", |s| vec![r0(s.residual_internal_energy())]),
        ("residual_gibbs_energy", |s| vec![r0(s.residual_gibbs_energy())]),
        ("chemical_potential(T)", |s| r1(s.chemical_potential(T))),
        ("chemical_potential(IG)", |s| r1(s.chemical_potential(IG))),
        ("dmu_dt(T)", |s| r1(s.dmu_dt(T))),
        ("molar_isochoric_heat_capacity(T)", |s| vec![r0(s.molar_isochoric_heat_capacity(T))]),
        ("dc_v_dt(T)", |s| vec![r0(s.dc_v_dt(T))]),
        ("molar_isobaric_heat_capacity(T)", |s| vec![r0(s.molar_isobaric_heat_capacity(T))]),
        ("entropy(T)", |s| vec![r0(s.entropy(T))]),
        ("partial_molar_entropy", |s| r1(s.partial_molar_entropy())),
        ("ds_dt(T)", |s| vec![r0(s.ds_dt(T))]),
        ("d2s_dt2(T)", |s| vec![r0(s.d2s_dt2(T))]),
        ("enthalpy(T)", |s| vec![r0(s.enthalpy(T))]),
        ("partial_molar_enthalpy", |s| r1(s.partial_molar_enthalpy())),
        ("helmholtz_energy(T)", |s| vec![r0(s.helmholtz_energy(T))]),
        ("internal_energy(T)", |s| vec![r0(s.internal_energy(T))]),
        ("gibbs_energy(T)", |s| vec![r0(s.gibbs_energy(T))]),
        ("joule_thomson", |s| vec![r0(s.joule_thomson())]),
        ("isentropic_compressibility", |s| vec![r0(s.isentropic_compressibility())]),
        ("thermal_expansivity", |s| vec![r0(s.thermal_expansivity())]),
        ("grueneisen_parameter", |s| vec![s.grueneisen_parameter()]),
        ("speed_of_sound", |s| vec![r0(s.speed_of_sound())]),
    ]
}

fn dir_name(d: Derivative) -> String {
    match d {
        Derivative::DV => "V".into(),
        Derivative::DT => "T".into(),
        Derivative::DN(i) => format!("N{}", i + 1),
    }
}
fn parse_dir(s: &str) -> Derivative {
    match s {
        "V" => Derivative::DV,
        "T" => Derivative::DT,
        n => Derivative::DN(n[1..].parse::<usize>().unwrap() - 1),
    }
}

/// reference value of every stored key, by direct (hyper-)dual evaluation: no cache involved
fn key_refs(s: &S) -> Value {
    let n = s.moles.len();
    let mut dirs = vec![Derivative::DV, Derivative::DT];
    dirs.extend((0..n).map(Derivative::DN));
    let t = s.temperature.to_reduced();
    let mut out = vec![];
    let a0 = s.eos.residual_helmholtz_energy(&s.derive0()) * t;
    out.push(json!([["Z"], fs(a0)]));
    for &d in &dirs {
        let st = s.derive3(d);
        let a: Dual3_64 = s.eos.residual_helmholtz_energy(&st) * st.temperature;
        out.push(json!([["F", dir_name(d)], fs(a.v1)]));
        out.push(json!([["T3", dir_name(d)], fs(a.v3)]));
    }
    for &d1 in &dirs {
        for &d2 in &dirs {
            let st = s.derive2_mixed(d1, d2);
            let a: HyperDual64 = s.eos.residual_helmholtz_energy(&st) * st.temperature;
            out.push(json!([["M", dir_name(d1), dir_name(d2)], fs(a.eps1eps2)]));
        }
    }
    Value::Array(out)
}

use feos_core::ReferenceSystem;

fn getter_refs(base: &S, gs: &[Getter]) -> Value {
    Value::Array(
        gs.iter()
            .map(|(name, g)| {
                let fresh = State::new_nvt(&base.eos, base.temperature, base.volume, &base.moles).unwrap();
                json!([name, fv(g(&fresh).iter())])
            })
            .collect(),
    )
}

fn req_key(req: &Value) -> (u8, Derivative, Derivative) {
    let a = req.as_array().unwrap();
    let k = a[0].as_str().unwrap();
    let d = |i: usize| parse_dir(a[i].as_str().unwrap());
    match k {
        "Z" => (0, Derivative::DV, Derivative::DV),
        "F" => (1, d(1), d(1)),
        "S" => (2, d(1), d(1)),
        "M" => (3, d(1), d(2)),
        _ => (4, d(1), d(1)),
    }
}

fn base_states(thorough: bool, rng: &mut Rng) -> Vec<(String, S)> {
    // binary systems (the TLC plan is generated for two components)
    let mut out = vec![];
    for m in zoo::zoo(false) {
        if m.n != 2 {
            continue;
        }
        if !thorough && !["pr/propane+butane(kij)", "pcsaft/methanol+ethanol(cross-assoc)", "saftvrmie/methane+ethane(kij)"].contains(&m.name.as_str()) {
            continue;
        }
        let eos = zoo::with_ideal_gas(&m.eos, 2);
        let x = rng.range(0.2, 0.8);
        let moles = arr1(&[x * 1.7, (1.0 - x) * 1.7]);
        let rho = m.eos.compute_max_density(&moles) * rng.range(0.2, 0.7);
        let t = m.tscale * rng.range(0.7, 1.3);
        let s = State::new_nvt(
            &eos,
            Temperature::from_reduced(t),
            Volume::from_reduced(1.7 / rho),
            &Moles::from_reduced(moles),
        )
        .unwrap();
        out.push((m.name.clone(), s));
    }
    out
}

fn fresh(b: &S) -> S {
    State::new_nvt(&b.eos, b.temperature, b.volume, &b.moles).unwrap()
}

pub fn run(args: &Args) {
    let mut tr = Tr::create(&args.out);
    let mut rng = Rng::new(args.seed);
    feos_core::verif::enable(true);
    let gs = getters();
    let bases = base_states(args.thorough, &mut rng);

    // plan from TLC: histories of requests with a clone position
    let plan: Vec<Value> = args
        .plan
        .as_ref()
        .map(|p| {
            std::fs::read_to_string(p)
                .expect("plan")
                .lines()
                .map(|l| serde_json::from_str(l).unwrap())
                .collect()
        })
        .unwrap_or_default();
    let mut case = 0u64;
    for (name, base) in &bases {
        tr.ev(json!({"ev":"Refs","model":name,"keys":key_refs(base),"getters":getter_refs(base,&gs)}));
        feos_core::verif::take();
        // (1) request-level replay of the TLC-generated histories
        for (pi, p) in plan.iter().enumerate() {
            let h = p["h"].as_array().unwrap();
            let c = p["c"].as_i64().unwrap();
            if !args.thorough && h.len() >= 3 && (rng.next() % 16 != 0) {
                continue;
            }
            case += 1;
            tr.ev(json!({"ev":"Begin","case":case,"plan":pi,"model":name}));
            let o1 = fresh(base);
            let mut o2: Option<S> = None;
            if c == 0 {
                o2 = Some(o1.clone());
                tr.ev(json!({"ev":"Clone","src":"o1","dst":"o2"}));
            }
            for (i, req) in h.iter().enumerate() {
                let (obj, label) = match &o2 {
                    Some(o) => (o, "o2"),
                    None => (&o1, "o1"),
                };
                feos_core::verif::set_context(label);
                let (k, d1, d2) = req_key(req);
                let hits_before = 0;
                let _ = hits_before;
                let v = obj.verif_request(k, d1, d2);
                let hooks = feos_core::verif::take();
                let hit = hooks.last().map(|l| l.contains("\"hit\":true")).unwrap_or(false);
                for l in hooks {
                    tr.raw(&l);
                }
                tr.ev(json!({"ev":"Req","obj":label,"req":req,"v":fs(v),"hit":hit}));
                if c == (i as i64) + 1 && o2.is_none() && i + 1 < h.len() {
                    o2 = Some(o1.clone());
                    tr.ev(json!({"ev":"Clone","src":"o1","dst":"o2"}));
                }
            }
        }
        // (2) getter-level: every ordered pair (quick) / sampled triples, then the probed getter
        let ng = gs.len();
        let reps = if args.thorough { 40000 } else { 1500 };
        for i in 0..ng {
            for j in 0..ng {
                case += 1;
                tr.ev(json!({"ev":"Begin","case":case,"model":name,"kind":"pair"}));
                let o = fresh(base);
                feos_core::verif::set_context("o1");
                let _ = (gs[i].1)(&o);
                let v = (gs[j].1)(&o);
                tr.drain_hooks();
                tr.ev(json!({"ev":"Get","obj":"o1","g":gs[j].0,"v":fv(v.iter()),"after":[gs[i].0]}));
            }
        }
        for _ in 0..reps {
            case += 1;
            tr.ev(json!({"ev":"Begin","case":case,"model":name,"kind":"triple"}));
            let o = fresh(base);
            feos_core::verif::set_context("o1");
            let (a, b, c) = (rng.below(ng), rng.below(ng), rng.below(ng));
            let _ = (gs[a].1)(&o);
            let _ = (gs[b].1)(&o);
            let v = (gs[c].1)(&o);
            feos_core::verif::take();
            tr.ev(json!({"ev":"Get","obj":"o1","g":gs[c].0,"v":fv(v.iter()),"after":[gs[a].0,gs[b].0]}));
        }
        // (3) long random histories with clones; every getter result is recorded
        let nlong = if args.thorough { 60 } else { 8 };
        for _ in 0..nlong {
            case += 1;
            tr.ev(json!({"ev":"Begin","case":case,"model":name,"kind":"long"}));
            let mut objs: Vec<S> = vec![fresh(base)];
            for _ in 0..50 {
                let oi = rng.below(objs.len());
                if rng.below(8) == 0 && objs.len() < 6 {
                    let c = objs[oi].clone();
                    tr.ev(json!({"ev":"Clone","src":format!("o{}",oi+1),"dst":format!("o{}",objs.len()+1)}));
                    objs.push(c);
                    continue;
                }
                let g = rng.below(ng);
                let label = format!("o{}", oi + 1);
                feos_core::verif::set_context(&label);
                let v = (gs[g].1)(&objs[oi]);
                tr.drain_hooks();
                tr.ev(json!({"ev":"Get","obj":label,"g":gs[g].0,"v":fv(v.iter())}));
            }
        }
        // (3b) derived states: a state obtained from another one at a different temperature (State::update_temperature) after a random history of
        // getters on the parent; every getter on the derived state is recorded together with its value on a state built directly at (T2, V, N)
        let nder = if args.thorough { 40 } else { 6 };
        for _ in 0..nder {
            case += 1;
            tr.ev(json!({"ev":"Begin","case":case,"model":name,"kind":"derived"}));
            let parent = fresh(base);
            let nhist = rng.below(6);
            let mut after: Vec<&str> = vec![];
            for _ in 0..nhist {
                let g = rng.below(ng);
                let _ = (gs[g].1)(&parent);
                after.push(gs[g].0);
            }
            let _ = feos_core::verif::take(); // hook events of these states are not part of the cache trace (their reference values differ)
            let t2 = parent.temperature * rng.range(0.8, 1.3);
            let (Ok(child), Ok(direct)) = (parent.update_temperature(t2), State::new_nvt(&parent.eos, t2, parent.volume, &parent.moles)) else { continue };
            for _ in 0..4 {
                // getters already evaluated on the parent are the ones a copied cache would answer wrongly
                let g = if !after.is_empty() && rng.below(2) == 0 { let name = *rng.pick(&after); gs.iter().position(|x| x.0 == name).unwrap() } else { rng.below(ng) };
                let v = (gs[g].1)(&child);
                let r = (gs[g].1)(&fresh(&direct));
                tr.ev(json!({"ev":"DGet","how":"update_temperature","g":gs[g].0,"v":fv(v.iter()),"r":fv(r.iter()),"after":after}));
            }
            let _ = feos_core::verif::take();
        }
        // (4) real threads sharing one state
        let thread_counts: &[usize] = if args.thorough { &[2, 3, 4, 8, 16] } else { &[2, 4, 16] };
        for &nt in thread_counts {
            let rounds = if args.thorough { 12 } else { 3 };
            for _ in 0..rounds {
                case += 1;
                tr.ev(json!({"ev":"Begin","case":case,"model":name,"kind":"threads","threads":nt}));
                let shared = Arc::new(fresh(base));
                let seeds: Vec<u64> = (0..nt).map(|_| rng.next()).collect();
                let gsr = &gs;
                let results: Vec<Vec<(u64, usize, Vec<f64>)>> = std::thread::scope(|sc| {
                    let hs: Vec<_> = seeds
                        .iter()
                        .map(|&sd| {
                            let st = shared.clone();
                            sc.spawn(move || {
                                let mut r = Rng::new(sd);
                                feos_core::verif::set_context("o1");
                                let mut out = vec![];
                                for _ in 0..12 {
                                    let g = r.below(gsr.len());
                                    let v = (gsr[g].1)(&st);
                                    out.push((feos_core::verif::next_seq(), g, v));
                                }
                                out
                            })
                        })
                        .collect();
                    hs.into_iter().map(|h| h.join().unwrap()).collect()
                });
                // merge hook events and getter returns by the global sequence number
                let mut lines: Vec<(u64, String)> =
                    feos_core::verif::take().into_iter().map(|l| (seq_of(&l), l)).collect();
                for (ti, r) in results.iter().enumerate() {
                    for (sq, g, v) in r {
                        lines.push((*sq, json!({"ev":"Get","obj":"o1","thr":ti,"g":gs[*g].0,"v":fv(v.iter())}).to_string()));
                    }
                }
                lines.sort_by_key(|x| x.0);
                for (_, l) in lines {
                    tr.raw(&l);
                }
            }
        }
    }
    feos_core::verif::enable(false);
    // (5) parallel vs sequential pure phase diagram
    diagrams(&mut tr, args, &mut rng);
    let n = tr.finish();
    println!("C11 trace: {} lines, {} cases", n, case);
}

fn diagrams(tr: &mut Tr, args: &Args, rng: &mut Rng) {
    let models: Vec<(&str, Arc<feos::ResidualModel>, f64)> = zoo::zoo(false)
        .into_iter()
        .filter(|m| m.n == 1 && ["pr/propane", "pcsaft/propane", "pcsaft/methanol(assoc)", "saftvrmie/ethane"].contains(&m.name.as_str()))
        .map(|m| (Box::leak(m.name.clone().into_boxed_str()) as &str, m.eos.clone(), m.tscale))
        .collect();
    let nconf = if args.thorough { 40 } else { 6 };
    for (name, eos, tc) in models.iter() {
        for _ in 0..nconf {
            let n = 3 + rng.below(if args.thorough { 38 } else { 14 });
            // every third configuration starts far below the range in which the solver converges (first points fail and are dropped by both drivers)
            let low = rng.below(3) == 0;
            let tmin = Temperature::from_reduced(tc * if low { rng.range(0.02, 0.15) } else { rng.range(0.5, 0.8) });
            let n = if low { n + 20 } else { n };
            let seq = PhaseDiagram::pure(eos, tmin, n, None, SolverOptions::default());
            let Ok(seq) = seq else { continue };
            tr.ev(diagram_event("seq", name, n, 0, 0, &seq));
            let chunks = [1usize, 2, 3, 7, n];
            let threads = [1usize, 2, 4, 16];
            for _ in 0..3 {
                let c = *rng.pick(&chunks);
                let t = *rng.pick(&threads);
                let pool = rayon::ThreadPoolBuilder::new().num_threads(t).build().unwrap();
                if let Ok(par) = PhaseDiagram::par_pure(eos, tmin, n, c, pool, None, SolverOptions::default()) {
                    tr.ev(diagram_event("par", name, n, c, t, &par));
                } else {
                    tr.ev(json!({"ev":"Diagram","kind":"par","model":name,"n":n,"chunk":c,"threads":t,"error":true,"T":[],"p":[],"rv":[],"rl":[]}));
                }
            }
        }
    }
}

fn diagram_event(kind: &str, name: &str, n: usize, chunk: usize, threads: usize, d: &PhaseDiagram<feos::ResidualModel, 2>) -> Value {
    let t: Vec<f64> = d.states.iter().map(|s| s.vapor().temperature.to_reduced()).collect();
    let p: Vec<f64> = d.states.iter().map(|s| s.vapor().pressure(Contributions::Total).to_reduced()).collect();
    let rv: Vec<f64> = d.states.iter().map(|s| s.vapor().density.to_reduced()).collect();
    let rl: Vec<f64> = d.states.iter().map(|s| s.liquid().density.to_reduced()).collect();
    json!({"ev":"Diagram","kind":kind,"model":name,"n":n,"chunk":chunk,"threads":threads,"error":false,
           "T":fv(t.iter()),"p":fv(p.iter()),"rv":fv(rv.iter()),"rl":fv(rl.iter())})
}
