//! Bubble and dew points with hook H9 switched on: every call is recorded as the hook's own account of the control flow (BD* events, one per
//! action of BubbleDew.tla) followed by a BDCall event with what the API returned. TLC replays the events as a behaviour of the module
//! (TraceBubbleDew.tla).
use crate::util::*;
use crate::zoo;
use feos::pcsaft::{PcSaft, PcSaftParameters};
use feos::ResidualModel;
use feos_core::parameter::{IdentifierOption, Parameter};
use feos_core::{Contributions, EosError, PhaseEquilibrium, ReferenceSystem, SolverOptions, State};
use ndarray::Array1;
use quantity::*;
use serde_json::json;
use std::sync::Arc;

type M = ResidualModel;

fn status(r: &Result<Result<PhaseEquilibrium<M, 2>, EosError>, String>) -> String {
    match r {
        Ok(Ok(_)) => "Ok".into(),
        Ok(Err(EosError::TrivialSolution)) => "TrivialSolution".into(),
        Ok(Err(EosError::NotConverged(_))) => "NotConverged".into(),
        Ok(Err(_)) => "Error".into(),
        Err(m) => format!("Panic:{}", m),
    }
}

#[derive(Clone, Copy)]
enum Sp {
    T(f64, Option<f64>), // temperature, initial pressure (reduced)
    P(f64, Option<f64>), // pressure, initial temperature (reduced)
}

#[allow(clippy::too_many_arguments)]
fn call(tr: &mut Tr, case: &str, grid: &str, guess: &str, eos: &Arc<M>, sp: Sp, x: &Array1<f64>, x2: Option<&Array1<f64>>, bubble: bool,
        opts: (SolverOptions, SolverOptions), (uniq, dom): (bool, bool)) -> Option<PhaseEquilibrium<M, 2>> {
    feos_core::verif::take();
    feos_core::verif::enable(true);
    let r = guarded(std::panic::AssertUnwindSafe(|| match (sp, bubble) {
        (Sp::T(t, p), true) => PhaseEquilibrium::bubble_point(eos, Temperature::from_reduced(t), x, p.map(Pressure::from_reduced), x2, opts),
        (Sp::T(t, p), false) => PhaseEquilibrium::dew_point(eos, Temperature::from_reduced(t), x, p.map(Pressure::from_reduced), x2, opts),
        (Sp::P(p, t), true) => PhaseEquilibrium::bubble_point(eos, Pressure::from_reduced(p), x, t.map(Temperature::from_reduced), x2, opts),
        (Sp::P(p, t), false) => PhaseEquilibrium::dew_point(eos, Pressure::from_reduced(p), x, t.map(Temperature::from_reduced), x2, opts),
    }));
    feos_core::verif::enable(false);
    let mut lines = feos_core::verif::take();
    lines.sort_by_key(|l| seq_of(l));
    for l in lines.iter().filter(|l| l.contains("\"ev\":\"BD")) { tr.raw(l); }
    let st = status(&r);
    let (spec, val) = match sp { Sp::T(t, _) => ("T", t), Sp::P(p, _) => ("p", p) };
    let mut ev = json!({"ev":"BDCall","case":case,"grid":grid,"guess":guess,"status":st,"spec":spec,"bubble":bubble,"val":fs(val),"x":fv(x.iter()),"uniq":uniq,"dom":dom});
    if let Ok(Ok(v)) = &r {
        let (s1, s2) = if bubble { (v.liquid(), v.vapor()) } else { (v.vapor(), v.liquid()) };
        ev["x1"] = fv(s1.molefracs.iter());
        ev["x2"] = fv(s2.molefracs.iter());
        ev["T1"] = fs(s1.temperature.to_reduced());
        ev["T2"] = fs(s2.temperature.to_reduced());
        ev["p1"] = fs(s1.pressure(Contributions::Total).to_reduced());
        ev["p2"] = fs(s2.pressure(Contributions::Total).to_reduced());
        ev["rho1"] = fs(s1.density.to_reduced());
        ev["rho2"] = fs(s2.density.to_reduced());
        let k: Vec<f64> = (0..x.len()).map(|i| (s1.ln_phi()[i] + s1.molefracs[i].ln()) - (s2.ln_phi()[i] + s2.molefracs[i].ln())).collect();
        ev["dlnf"] = fv(k.iter());
        ev["K"] = fs((s1.dp_drho(Contributions::Total) * s1.density).to_reduced().abs().max((s2.dp_drho(Contributions::Total) * s2.density).to_reduced().abs()));
    }
    tr.ev(ev);
    match r { Ok(Ok(v)) => Some(v), _ => None }
}

pub fn run(args: &Args) {
    std::panic::set_hook(Box::new(|_| {}));
    let mut tr = Tr::create(&args.out);
    let mut rng = Rng::new(args.seed ^ 0xbd);
    let d = SolverOptions::default;
    let mk = |names: Vec<&str>| -> Option<Arc<M>> {
        PcSaftParameters::from_json(names, zoo::ppath("pcsaft/gross2001.json"), None, IdentifierOption::Name).ok().map(|p| Arc::new(M::PcSaft(PcSaft::new(Arc::new(p)))))
    };
    let mut systems: Vec<(String, Arc<M>, Vec<Vec<f64>>)> = vec![];
    if let Some(e) = mk(vec!["propane", "butane"]) { systems.push(("propane+butane".into(), e, vec![vec![0.5, 0.5], vec![0.1, 0.9], vec![0.9, 0.1]])); }
    if let Some(e) = mk(vec!["ethane", "hexane"]) { systems.push(("ethane+hexane".into(), e, vec![vec![0.5, 0.5], vec![0.95, 0.05], vec![0.2, 0.8]])); }
    if let Some(e) = mk(vec!["propane", "butane", "pentane"]) { systems.push(("propane+butane+pentane".into(), e, vec![vec![0.4, 0.3, 0.3], vec![0.1, 0.2, 0.7]])); }
    if let Some(e) = mk(vec!["methane", "decane"]) { systems.push(("methane+decane".into(), e, vec![vec![0.3, 0.7], vec![0.8, 0.2]])); }
    if args.thorough {
        if let Some(e) = mk(vec!["methane", "propane"]) { systems.push(("methane+propane".into(), e, vec![vec![0.3, 0.7], vec![0.7, 0.3]])); }
        if let Some(e) = mk(vec!["hexane", "heptane", "octane"]) { systems.push(("hexane+heptane+octane".into(), e, vec![vec![0.3, 0.3, 0.4]])); }
        if let Some(e) = mk(vec!["carbon dioxide", "propane"]) { systems.push(("co2+propane".into(), e, vec![vec![0.5, 0.5], vec![0.15, 0.85]])); }
    }
    for (name, eos, comps) in &systems {
        let Ok(tcs) = State::critical_point_pure(eos, None, d()) else { continue };
        let tc_lo = tcs.iter().map(|s| s.temperature.to_reduced()).fold(f64::INFINITY, f64::min);
        let tc_hi = tcs.iter().map(|s| s.temperature.to_reduced()).fold(0.0, f64::max);
        for z in comps {
            let za = Array1::from_vec(z.clone());
            let tfs = if args.thorough { vec![0.6, 0.7, 0.8, 0.9, 0.97, 1.05] } else { vec![0.7, 0.9, 1.05] };
            for tf in tfs {
                let t = tc_lo * tf;
                // the numeric laws are judged inside the quantifier of C05 / C12 (critical temperatures differ by less than a factor 1.8); C12 is judged where the bubble / dew point is unique: below the lower critical temperature, systems without liquid-liquid demixing
                let uq = (tf < 1.0 && !name.contains("decane"), tc_hi / tc_lo < 1.8);
                for bubble in [true, false] {
                    let grid = format!("z={:?},T/Tc_lo={},{}", z, tf, if bubble { "bubble" } else { "dew" });
                    // no initial value: ideal-gas estimate, spinodal estimate
                    let r0 = call(&mut tr, name, &grid, "none", eos, Sp::T(t, None), &za, None, bubble, (d(), d()), uq);
                    // few iterations allowed
                    call(&mut tr, name, &grid, "none, outer max_iter 2", eos, Sp::T(t, None), &za, None, bubble, (d(), d().max_iter(2)), uq);
                    call(&mut tr, name, &grid, "none, inner max_iter 1", eos, Sp::T(t, None), &za, None, bubble, (d().max_iter(1), d()), uq);
                    call(&mut tr, name, &grid, "none, outer max_iter 0", eos, Sp::T(t, None), &za, None, bubble, (d(), d().max_iter(0)), uq);
                    call(&mut tr, name, &grid, "none, loose outer tolerance", eos, Sp::T(t, None), &za, None, bubble, (d(), d().tol(1e-2)), uq);
                    if let Some(v) = &r0 {
                        let p = v.vapor().pressure(Contributions::Total).to_reduced();
                        let (s2x, rho_l) = (if bubble { v.vapor().molefracs.clone() } else { v.liquid().molefracs.clone() }, v.liquid().density.to_reduced());
                        let _ = rho_l;
                        // initial pressures around the solution, with and without the other phase's composition
                        for f in [1.0, 0.6, 1.5, 0.2, 3.0, rng.range(0.3, 2.5)] {
                            call(&mut tr, name, &grid, &format!("p_init={}p*", f), eos, Sp::T(t, Some(p * f)), &za, None, bubble, (d(), d()), uq);
                            call(&mut tr, name, &grid, &format!("p_init={}p*, x2*", f), eos, Sp::T(t, Some(p * f)), &za, Some(&s2x), bubble, (d(), d()), uq);
                        }
                        // the own solution as the start: one substitution step may already pass the outer test
                        call(&mut tr, name, &grid, "own solution, inner max_iter 0", eos, Sp::T(t, Some(p)), &za, Some(&s2x), bubble, (d().max_iter(0), d()), uq);
                        // the trivial solution as the start
                        call(&mut tr, name, &grid, "x2 = x1", eos, Sp::T(t, Some(p)), &za, Some(&za), bubble, (d(), d()), uq);
                        // pressure specified: initial temperatures around the solution
                        for dt in [0.0, -15.0, 25.0, rng.range(-40.0, 40.0), -0.3 * t, 0.6 * tc_hi] {
                            call(&mut tr, name, &grid, &format!("p spec, T_init=T*{:+}", dt), eos, Sp::P(p, Some(t + dt)), &za, None, bubble, (d(), d()), uq);
                        }
                        call(&mut tr, name, &grid, "p spec, T_init=T*, x2*", eos, Sp::P(p, Some(t)), &za, Some(&s2x), bubble, (d(), d()), uq);
                        call(&mut tr, name, &grid, "p spec, T_init=T*+10, outer max_iter 3", eos, Sp::P(p, Some(t + 10.0)), &za, None, bubble, (d(), d().max_iter(3)), uq);
                    }
                }
            }
        }
    }
    let n = tr.finish();
    println!("bubbledew trace: {} lines", n);
}
