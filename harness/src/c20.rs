//! C20 recorder: entropy-scaling transport properties and the parameter estimator. Records what the library returns
//! (values, references, correlations, predictions, costs); closed forms and relations are in TraceEstimator.tla.
use crate::red::*;
use crate::util::*;
use crate::zoo::{from_json_str, ppath};
use feos::estimator::{BinaryPhaseDiagram, BinaryVleChemicalPotential, BinaryVlePressure, DataSet, Diffusion, EquilibriumLiquidDensity, Estimator, LiquidDensity, Loss, Phase, ThermalConductivity, VaporPressure, Viscosity};
use feos::pcsaft::{PcSaft, PcSaftParameters, PcSaftRecord};
use feos_core::parameter::{IdentifierOption, Parameter, PureRecord};
use feos_core::{Contributions, DensityInitialization, EntropyScaling, PhaseDiagram, PhaseEquilibrium, ReferenceSystem, Residual, SolverOptions, State};
use ndarray::{arr1, Array1};
use quantity::*;
use serde_json::{json, Value};
use std::sync::Arc;
use typenum::P2;
use typenum::P3;

type E = PcSaft;

fn transport_event(tr: &mut Tr, case: &str, eos: &Arc<E>, st: &State<E>, pure_ref: Option<&State<E>>) {
    let s_res = st.residual_molar_entropy().to_reduced();
    let x = st.molefracs.clone();
    let mut kinds = vec![];
    let mut add = |kind: &str, val: Result<f64, String>, rf: Result<f64, String>, lnr: Result<f64, String>, corr: Result<f64, String>, pure: Option<Result<f64, String>>| {
        let f = |r: &Result<f64, String>| match r { Ok(v) => fs(*v), Err(_) => json!("error") };
        kinds.push(json!({"kind": kind, "value": f(&val), "reference": f(&rf), "ln_reduced": f(&lnr), "correlation_at_s_res": f(&corr),
            "pure_value": pure.map(|p| f(&p)).unwrap_or(json!("none")), "available": val.is_ok(),
            // only viscosity coefficients are shipped; the other two correlations are exercised with invented coefficients
            "shipped_coefficients": kind == "viscosity"}));
    };
    let e = |r: feos_core::EosResult<f64>| r.map_err(|e| e.to_string());
    let visc_unit = MILLI * PASCAL * SECOND;
    add("viscosity", e(st.viscosity().map(|v| v.convert_into(visc_unit))), e(st.viscosity_reference().map(|v| v.convert_into(visc_unit))), e(st.ln_viscosity_reduced()),
        e(eos.viscosity_correlation(s_res, &x)), pure_ref.map(|p| e(p.viscosity().map(|v| v.convert_into(visc_unit)))));
    let d_unit = (CENTI * METER).powi::<P2>() / SECOND;
    add("diffusion", e(st.diffusion().map(|v| v.convert_into(d_unit))), e(st.diffusion_reference().map(|v| v.convert_into(d_unit))), e(st.ln_diffusion_reduced()),
        e(eos.diffusion_correlation(s_res, &x)), pure_ref.map(|p| e(p.diffusion().map(|v| v.convert_into(d_unit)))));
    let l_unit = WATT / METER / KELVIN;
    add("thermal_conductivity", e(st.thermal_conductivity().map(|v| v.convert_into(l_unit))), e(st.thermal_conductivity_reference().map(|v| v.convert_into(l_unit))),
        e(st.ln_thermal_conductivity_reduced()), e(eos.thermal_conductivity_correlation(s_res, &x)), pure_ref.map(|p| e(p.thermal_conductivity().map(|v| v.convert_into(l_unit)))));
    tr.ev(json!({"ev":"Transport","case":case,"T":fs(st.temperature.to_reduced()),"rho":fs(st.density.to_reduced()),"x":fv(x.iter()),"s_res":fs(s_res),"props":kinds}));
}

fn with_coefs(rec: &PureRecord<PcSaftRecord>, rng: &mut Rng) -> PureRecord<PcSaftRecord> {
    // add diffusion and thermal-conductivity correlation coefficients (none are shipped) so that all three properties are exercised
    let mut v = serde_json::to_value(rec).unwrap();
    v["model_record"]["diffusion"] = json!([rng.range(-0.3, 0.3), rng.range(-0.4, 0.0), rng.range(0.0, 0.3), rng.range(-0.1, 0.1), rng.range(0.0, 0.01)]);
    v["model_record"]["thermal_conductivity"] = json!([rng.range(-0.2, 0.2), rng.range(-0.5, 0.0), rng.range(0.0, 0.2), rng.range(-0.05, 0.05)]);
    serde_json::from_value(v).unwrap()
}

pub fn run(args: &Args) {
    let mut tr = Tr::create(&args.out);
    let mut rng = Rng::new(args.seed ^ 0x20);
    let recs: Vec<PureRecord<PcSaftRecord>> = serde_json::from_str(&std::fs::read_to_string(ppath("pcsaft/loetgeringlin2018.json")).unwrap()).unwrap();
    let step = if args.thorough { 1 } else { 12 };
    let mut models: Vec<(String, Arc<E>)> = vec![];
    for (i, r) in recs.iter().enumerate().step_by(step) {
        let r2 = with_coefs(r, &mut rng);
        if let Ok(p) = PcSaftParameters::new_pure(r2.clone()) {
            let eos = Arc::new(PcSaft::new(Arc::new(p)));
            models.push((format!("loetgeringlin2018[{}]", i), eos.clone()));
            // fluid states: vapor-like, liquid-like, supercritical
            let Ok(cp) = State::critical_point(&eos, None, None, SolverOptions::default()) else { continue };
            for (tf, rf) in [(0.7, 2.2), (0.9, 0.05), (1.3, 1.0), (1.1, 0.3)] {
                let one = Moles::from_reduced(arr1(&[1.0]));
                if let Ok(st) = State::new_nvt(&eos, cp.temperature * tf, one.sum() / (cp.density * rf), &one) {
                    transport_event(&mut tr, &format!("loetgeringlin2018[{}]", i), &eos, &st, None);
                }
            }
            // binary with a vanishing second component vs the pure component
            let j = (i + 7) % recs.len();
            let rj = with_coefs(&recs[j], &mut rng);
            if let Ok(pb) = PcSaftParameters::new_binary(vec![r2.clone(), rj], None) {
                let eb = Arc::new(PcSaft::new(Arc::new(pb)));
                let t = cp.temperature * 0.85;
                let v = Volume::from_reduced(1.0) / (cp.density * 2.0).to_reduced();
                let mix = State::new_nvt(&eb, t, v, &Moles::from_reduced(arr1(&[1.0, 0.0])));
                let pure = State::new_nvt(&eos, t, v, &Moles::from_reduced(arr1(&[1.0])));
                if let (Ok(mix), Ok(pure)) = (mix, pure) {
                    transport_event(&mut tr, &format!("loetgeringlin2018[{}]+[{}] at x2=0", i, j), &eb, &mix, Some(&pure));
                }
            }
        }
    }
    // ---- loss functions
    for (name, mk) in [("linear", None), ("softl1", Some(Loss::softl1 as fn(f64) -> Loss)), ("huber", Some(Loss::huber as fn(f64) -> Loss)),
        ("cauchy", Some(Loss::cauchy as fn(f64) -> Loss)), ("arctan", Some(Loss::arctan as fn(f64) -> Loss))] {
        for f in [0.05, 0.5, 1.0, 3.0] {
            let loss = mk.map(|m| m(f)).unwrap_or(Loss::Linear);
            let rs: Vec<f64> = (0..(if args.thorough { 60 } else { 12 })).map(|k| if k % 2 == 0 { rng.lrange(1e-6, 20.0) } else { -rng.lrange(1e-6, 20.0) }).chain([0.0, f, -f].into_iter()).collect();
            let mut a = Array1::from_vec(rs.clone());
            loss.apply(&mut a);
            tr.ev(json!({"ev":"Loss","kind":name,"f":fs(f),"r":fv(rs.iter()),"out":fv(a.iter())}));
            if mk.is_none() { break; }
        }
    }
    // ---- data sets: predictions vs the library calls they wrap; model-generated targets; cost bookkeeping
    let losses: Vec<(&str, Loss)> = vec![("linear", Loss::Linear), ("softl1", Loss::softl1(0.3)), ("huber", Loss::huber(0.2)), ("cauchy", Loss::cauchy(0.5)), ("arctan", Loss::arctan(0.7))];
    for (name, eos) in models.iter().take(if args.thorough { 40 } else { 4 }) {
        let Ok(cp) = State::critical_point(eos, None, None, SolverOptions::default()) else { continue };
        let tc = cp.temperature;
        let ts: Vec<f64> = vec![0.6, 0.7, 0.8, 0.9, 0.97];
        let temps = Temperature::from_reduced(Array1::from_vec(ts.iter().map(|f| tc.to_reduced() * f).collect()));
        let one = Moles::from_reduced(arr1(&[1.0]));
        // library calls
        let mut psat = vec![]; let mut rhol_eq = vec![]; let mut rhol = vec![]; let mut ps = vec![]; let mut visc = vec![]; let mut lam = vec![]; let mut dif = vec![];
        for (k, &f) in ts.iter().enumerate() {
            let t = tc * f;
            let pe = PhaseEquilibrium::pure(eos, t, None, SolverOptions::default());
            let Ok(pe) = pe else { psat.push(f64::NAN); rhol_eq.push(f64::NAN); rhol.push(f64::NAN); ps.push(1.0e5); visc.push(f64::NAN); lam.push(f64::NAN); dif.push(f64::NAN); continue };
            let p = pe.vapor().pressure(Contributions::Total);
            psat.push(p.convert_into(PASCAL));
            rhol_eq.push(pe.liquid().mass_density().convert_into(KILOGRAM / METER.powi::<P3>()));
            // compressed liquid, and (second and fourth temperature) the metastable liquid below the saturation pressure: the liquid-phase data sets
            // must evaluate the liquid root there, not the stable vapor
            let p2 = p * [3.0, 0.6, 3.0, 0.8, 3.0][k];
            ps.push(p2.convert_into(PASCAL));
            let st = State::new_npt(eos, t, p2, &one, DensityInitialization::Liquid);
            rhol.push(st.as_ref().map(|s| s.mass_density().convert_into(KILOGRAM / METER.powi::<P3>())).unwrap_or(f64::NAN));
            visc.push(st.as_ref().ok().and_then(|s| s.viscosity().ok()).map(|v| v.convert_into(MILLI * PASCAL * SECOND)).unwrap_or(f64::NAN));
            lam.push(st.as_ref().ok().and_then(|s| s.thermal_conductivity().ok()).map(|v| v.convert_into(WATT / METER / KELVIN)).unwrap_or(f64::NAN));
            dif.push(st.as_ref().ok().and_then(|s| s.diffusion().ok()).map(|v| v.convert_into((CENTI * METER).powi::<P2>() / SECOND)).unwrap_or(f64::NAN));
        }
        let pres = Pressure::from_reduced(Array1::from_vec(ps.clone())) * (PASCAL.to_reduced());
        let liq = vec![Phase::Liquid; ts.len()];
        let a = |v: &Vec<f64>| Array1::from_vec(v.clone());
        let sets: Vec<(&str, Arc<dyn DataSet<E>>, Vec<f64>)> = vec![
            ("vapor_pressure", Arc::new(VaporPressure::new(a(&psat) * PASCAL, temps.clone(), false, None, None)), psat.clone()),
            ("vapor_pressure(extrapolate)", Arc::new(VaporPressure::new(a(&psat) * PASCAL, temps.clone(), true, Some(tc), None)), psat.clone()),
            ("equilibrium_liquid_density", Arc::new(EquilibriumLiquidDensity::new(a(&rhol_eq) * (KILOGRAM / METER.powi::<P3>()), temps.clone(), None)), rhol_eq.clone()),
            ("liquid_density", Arc::new(LiquidDensity::new(a(&rhol) * (KILOGRAM / METER.powi::<P3>()), temps.clone(), pres.clone())), rhol.clone()),
            ("viscosity", Arc::new(Viscosity::new(a(&visc) * (MILLI * PASCAL * SECOND), temps.clone(), pres.clone(), Some(&liq))), visc.clone()),
            ("thermal_conductivity", Arc::new(ThermalConductivity::new(a(&lam) * (WATT / METER / KELVIN), temps.clone(), pres.clone(), Some(&liq))), lam.clone()),
            ("diffusion", Arc::new(Diffusion::new(a(&dif) * ((CENTI * METER).powi::<P2>() / SECOND), temps.clone(), pres.clone(), Some(&liq))), dif.clone()),
        ];
        let mut all: Vec<Arc<dyn DataSet<E>>> = vec![];
        for (kind, ds, lib) in &sets {
            let pred = ds.predict(eos).map(|a| a.to_vec()).unwrap_or_default();
            let rd = ds.relative_difference(eos).map(|a| a.to_vec()).unwrap_or_default();
            let costs: Vec<Value> = losses.iter().map(|(ln, l)| json!([ln, fv(ds.cost(eos, *l).map(|a| a.to_vec()).unwrap_or_default().iter())])).collect();
            tr.ev(json!({"ev":"DataSet","case":name,"kind":kind,"library":fv(lib.iter()),"predict":fv(pred.iter()),"target":fv(ds.target().iter()),
                "relative_difference":fv(rd.iter()),"mard":fs(ds.mean_absolute_relative_difference(eos).unwrap_or(f64::NAN)),"costs":costs}));
            all.push(ds.clone());
        }
        // vapor pressure above the critical temperature: extrapolation ln p = a + b / T through (Tc, pc) and (0.9 Tc, psat(0.9 Tc)), or NaN
        {
            let tsup: Vec<f64> = vec![1.01, 1.05, 1.2];
            let temps_sup = Temperature::from_reduced(Array1::from_vec(tsup.iter().map(|f| tc.to_reduced() * f).collect()));
            let dummy = Array1::from_vec(vec![1.0e6; tsup.len()]) * PASCAL;
            let with: Arc<dyn DataSet<E>> = Arc::new(VaporPressure::new(dummy.clone(), temps_sup.clone(), true, Some(tc), None));
            let without: Arc<dyn DataSet<E>> = Arc::new(VaporPressure::new(dummy, temps_sup.clone(), false, Some(tc), None));
            let p0 = PhaseEquilibrium::pure(eos, tc * 0.9, None, SolverOptions::default()).map(|v| v.vapor().pressure(Contributions::Total).convert_into(PASCAL)).unwrap_or(f64::NAN);
            tr.ev(json!({"ev":"VpExtrapolation","case":name,"Tc":fs(tc.to_reduced()),"pc_Pa":fs(cp.pressure(Contributions::Total).convert_into(PASCAL)),"p0_Pa":fs(p0),
                "T":fv(temps_sup.to_reduced().iter()),
                "extrapolated":fv(with.predict(eos).map(|a| a.to_vec()).unwrap_or_default().iter()),
                "not_extrapolated":fv(without.predict(eos).map(|a| a.to_vec()).unwrap_or_default().iter())}));
        }
        // perturbed targets: cost = loss(r)/n * w/sum(w)
        let pert: Vec<f64> = psat.iter().map(|p| p * (1.0 + rng.range(-0.4, 0.4))).collect();
        let ds1: Arc<dyn DataSet<E>> = Arc::new(VaporPressure::new(a(&pert) * PASCAL, temps.clone(), false, None, None));
        let pert2: Vec<f64> = rhol.iter().map(|p| p * (1.0 + rng.range(-0.4, 0.4))).collect();
        let ds2: Arc<dyn DataSet<E>> = Arc::new(LiquidDensity::new(a(&pert2) * (KILOGRAM / METER.powi::<P3>()), temps.clone(), pres.clone()));
        let w = vec![rng.lrange(0.1, 10.0), rng.lrange(0.1, 10.0)];
        let li = (rng.below(losses.len()), rng.below(losses.len()));
        let est = Estimator::new(vec![ds1.clone(), ds2.clone()], w.clone(), vec![losses[li.0].1, losses[li.1].1]);
        let c = est.cost(eos).map(|a| a.to_vec()).unwrap_or_default();
        let r1 = ds1.relative_difference(eos).map(|a| a.to_vec()).unwrap_or_default();
        let r2_ = ds2.relative_difference(eos).map(|a| a.to_vec()).unwrap_or_default();
        let f_of = |k: usize| match losses[k].0 { "linear" => 1.0, "softl1" => 0.3, "huber" => 0.2, "cauchy" => 0.5, _ => 0.7 };
        tr.ev(json!({"ev":"Estimator","case":name,"weights":fv(w.iter()),"losses":[losses[li.0].0, losses[li.1].0],"f":fv([f_of(li.0), f_of(li.1)].iter()),
            "cost":fv(c.iter()),"r":[fv(r1.iter()), fv(r2_.iter())]}));
    }
    // ---- binary VLE data sets: chemical-potential residuals, bubble / dew pressures, distance to the model's phase diagram
    {
        let pairs: Vec<(&str, &str, f64)> = if args.thorough {
            vec![("propane", "butane", 300.0), ("ethane", "butane", 250.0), ("butane", "hexane", 380.0), ("methane", "propane", 200.0), ("pentane", "octane", 400.0), ("propane", "hexane", 340.0)]
        } else { vec![("propane", "butane", 300.0), ("ethane", "butane", 250.0)] };
        let losses2: Vec<(&str, Loss)> = vec![("linear", Loss::Linear), ("huber", Loss::huber(0.2))];
        for (c1, c2, tk) in pairs {
            let Ok(par) = PcSaftParameters::from_json(vec![c1, c2], ppath("pcsaft/gross2001.json"), None, IdentifierOption::Name) else { continue };
            let eos = Arc::new(PcSaft::new(Arc::new(par)));
            let case = format!("gross2001/{}+{}", c1, c2);
            let t = Temperature::from_reduced(tk);
            let xs: Vec<f64> = vec![0.1, 0.3, 0.5, 0.7, 0.9];
            let mut pts = vec![]; let (mut tv, mut pv, mut xv, mut yv) = (vec![], vec![], vec![], vec![]);
            let mut p_bub = vec![]; let mut p_dew = vec![];
            for &x in &xs {
                let Ok(vle) = PhaseEquilibrium::bubble_point(&eos, t, &arr1(&[x, 1.0 - x]), None, None, Default::default()) else { continue };
                let p = vle.vapor().pressure(Contributions::Total);
                let y = vle.vapor().molefracs[0];
                let (Ok(liq), Ok(vap)) = (State::new_npt(&eos, t, p, &Moles::from_reduced(arr1(&[x, 1.0 - x])), DensityInitialization::Liquid),
                    State::new_npt(&eos, t, p, &Moles::from_reduced(arr1(&[y, 1.0 - y])), DensityInitialization::Vapor)) else { continue };
                let jm = JOULE / MOL;
                let mul = liq.residual_chemical_potential(); let muv = vap.residual_chemical_potential();
                pts.push(json!({"x": fs(x), "y": fs(y), "p_Pa": fs(p.convert_into(PASCAL)),
                    "mu_res_liquid": fv([mul.get(0).convert_into(jm), mul.get(1).convert_into(jm)].iter()), "mu_res_vapor": fv([muv.get(0).convert_into(jm), muv.get(1).convert_into(jm)].iter()),
                    "rho_liquid": fv(liq.partial_density.to_reduced().iter()), "rho_vapor": fv(vap.partial_density.to_reduced().iter()), "RT": fs((RGAS * t).convert_into(jm))}));
                // the library calls BinaryVlePressure wraps (same arguments)
                p_bub.push(PhaseEquilibrium::bubble_point(&eos, t, &arr1(&[x, 1.0 - x]), Some(p), None, Default::default()).map(|v| v.vapor().pressure(Contributions::Total).convert_into(PASCAL)).unwrap_or(f64::NAN));
                p_dew.push(PhaseEquilibrium::dew_point(&eos, t, &arr1(&[y, 1.0 - y]), Some(p), None, Default::default()).map(|v| v.vapor().pressure(Contributions::Total).convert_into(PASCAL)).unwrap_or(f64::NAN));
                tv.push(tk); pv.push(p.convert_into(PASCAL)); xv.push(x); yv.push(y);
            }
            if tv.is_empty() { continue }
            let temps = Temperature::from_reduced(Array1::from_vec(tv.clone()));
            let pres = Array1::from_vec(pv.clone()) * PASCAL;
            let sets: Vec<(&str, Arc<dyn DataSet<E>>)> = vec![
                ("chemical_potential", Arc::new(BinaryVleChemicalPotential::new(temps.clone(), pres.clone(), Array1::from_vec(xv.clone()), Array1::from_vec(yv.clone())))),
                ("pressure(liquid)", Arc::new(BinaryVlePressure::new(temps.clone(), pres.clone(), Array1::from_vec(xv.clone()), Phase::Liquid))),
                ("pressure(vapor)", Arc::new(BinaryVlePressure::new(temps.clone(), pres.clone(), Array1::from_vec(yv.clone()), Phase::Vapor))),
            ];
            let mut out = vec![];
            for (kind, ds) in &sets {
                let costs: Vec<Value> = losses2.iter().map(|(ln, l)| json!([ln, fv(ds.cost(&eos, *l).map(|a| a.to_vec()).unwrap_or_default().iter())])).collect();
                out.push(json!({"kind": kind, "predict": fv(ds.predict(&eos).map(|a| a.to_vec()).unwrap_or_default().iter()), "target": fv(ds.target().iter()),
                    "relative_difference": fv(ds.relative_difference(&eos).map(|a| a.to_vec()).unwrap_or_default().iter()), "costs": costs}));
            }
            tr.ev(json!({"ev":"BinaryVle","case":case,"T":fs(tk),"points":pts,"p_bubble_Pa":fv(p_bub.iter()),"p_dew_Pa":fv(p_dew.iter()),"sets":out}));
            // distance to the phase diagram: the diagram the data set computes (same call), experimental points on it (vertices, segment midpoints) and off it
            for npoints in if args.thorough { vec![11usize, 26, 51] } else { vec![11usize, 26] } {
                let Ok(dia) = PhaseDiagram::binary_vle(&eos, t, Some(npoints), None, Default::default()) else { continue };
                let xl: Vec<f64> = dia.liquid().molefracs().column(0).to_vec();
                let xg: Vec<f64> = dia.vapor().molefracs().column(0).to_vec();
                let pp: Vec<f64> = dia.vapor().iter().map(|s| s.pressure(Contributions::Total).convert_into(PASCAL)).collect();
                let n = pp.len();
                if n < 3 { continue }
                let mut groups: Vec<(&str, Vec<f64>, Vec<f64>, Vec<f64>)> = vec![];   // kind, p, x_liquid, x_vapor
                let idx: Vec<usize> = vec![0, 1, n / 3, n / 2, n - 2, n - 1];
                groups.push(("vertices", idx.iter().map(|&k| pp[k]).collect(), idx.iter().map(|&k| xl[k]).collect(), idx.iter().map(|&k| xg[k]).collect()));
                // exact midpoints of a segment are on the polyline only up to rounding; the liquid and the vapor curve share the pressure
                let mid: Vec<usize> = vec![0, n / 4, n / 2, n - 2];
                groups.push(("midpoints", mid.iter().map(|&k| 0.5 * (pp[k] + pp[k + 1])).collect(), mid.iter().map(|&k| 0.5 * (xl[k] + xl[k + 1])).collect(), mid.iter().map(|&k| 0.5 * (xg[k] + xg[k + 1])).collect()));
                let m = if args.thorough { 12 } else { 6 };
                let (pmin, pmax) = (pp.iter().cloned().fold(f64::INFINITY, f64::min), pp.iter().cloned().fold(0.0, f64::max));
                groups.push(("scattered", (0..m).map(|_| pmin * 0.7 + rng.range(0.0, 1.0) * (1.3 * pmax - 0.7 * pmin)).collect(), (0..m).map(|_| rng.range(0.0, 1.0)).collect(), (0..m).map(|_| rng.range(0.0, 1.0)).collect()));
                groups.push(("near", (0..m).map(|k| pp[(k * 7) % n] * (1.0 + rng.range(-0.05, 0.05))).collect(), (0..m).map(|k| (xl[(k * 7) % n] + rng.range(-0.03, 0.03)).clamp(0.0, 1.0)).collect(),
                    (0..m).map(|k| (xg[(k * 7) % n] + rng.range(-0.03, 0.03)).clamp(0.0, 1.0)).collect()));
                for (kind, pe, xle, xge) in groups {
                    for which in ["both", "liquid", "vapor"] {
                        let l = if which != "vapor" { Some(Array1::from_vec(xle.clone())) } else { None };
                        let g = if which != "liquid" { Some(Array1::from_vec(xge.clone())) } else { None };
                        let ds: Arc<dyn DataSet<E>> = Arc::new(BinaryPhaseDiagram::new(t, Array1::from_vec(pe.clone()) * PASCAL, l, g, Some(npoints)));
                        let pred = ds.predict(&eos);
                        tr.ev(json!({"ev":"BinaryPhaseDiagram","case":case,"spec":"T","T":fs(tk),"npoints":npoints,"kind":kind,"which":which,
                            "dia_x_liquid":fv(xl.iter()),"dia_x_vapor":fv(xg.iter()),"dia_tp":fv(pp.iter()),
                            "exp_tp":fv(pe.iter()),"exp_x_liquid":fv(xle.iter()),"exp_x_vapor":fv(xge.iter()),
                            "ok":pred.is_ok(),"predict":fv(pred.map(|a| a.to_vec()).unwrap_or_default().iter()),"target":fv(ds.target().iter()),
                            "relative_difference":fv(ds.relative_difference(&eos).map(|a| a.to_vec()).unwrap_or_default().iter())}));
                        if kind != "vertices" && which != "both" && !args.thorough { break }
                    }
                }
            }
        }
    }
    let _ = from_json_str::<PcSaftParameters>;
    // ---- the Estimator object through TLC-generated construction histories (new with k entries, add_data, cost after every operation)
    if let Some(planf) = args.plan.as_ref() {
        let plan: Vec<Value> = std::fs::read_to_string(planf).unwrap().lines().map(|l| serde_json::from_str(l).unwrap()).collect();
        let take = if args.thorough { plan.len() } else { 150 };
        let mut idx: Vec<usize> = (0..plan.len()).collect();
        rng.shuffle(&mut idx);
        if let Some((name, eos)) = models.first() {
            // three data sets with perturbed targets
            let temps = Temperature::from_reduced(Array1::from_vec(vec![250.0, 280.0, 310.0]));
            let mut psat = vec![]; let mut rhol = vec![]; let mut visc = vec![]; let mut ps = vec![];
            for t in [250.0, 280.0, 310.0] {
                let v = PhaseEquilibrium::pure(eos, Temperature::from_reduced(t), None, Default::default());
                let p = v.as_ref().map(|v| v.vapor().pressure(Contributions::Total).convert_into(PASCAL)).unwrap_or(f64::NAN);
                psat.push(p * (1.0 + rng.range(-0.3, 0.3)));
                let pl = 1.5 * p;
                ps.push(pl);
                let st = State::new_npt(eos, Temperature::from_reduced(t), pl * PASCAL, &(arr1(&[1.0]) * MOL), feos_core::DensityInitialization::Liquid);
                rhol.push(st.as_ref().map(|s| s.mass_density().convert_into(KILOGRAM / METER.powi::<P3>())).unwrap_or(f64::NAN) * (1.0 + rng.range(-0.3, 0.3)));
                visc.push(st.as_ref().ok().and_then(|s| s.viscosity().ok()).map(|v| v.convert_into(MILLI * PASCAL * SECOND)).unwrap_or(f64::NAN) * (1.0 + rng.range(-0.3, 0.3)));
            }
            let pres = Pressure::from_reduced(Array1::from_vec(ps.clone())) * (PASCAL.to_reduced());
            let liq = vec![Phase::Liquid; 3];
            let a = |v: &Vec<f64>| Array1::from_vec(v.clone());
            let pool: Vec<(&str, Arc<dyn DataSet<E>>)> = vec![
                ("vapor_pressure", Arc::new(VaporPressure::new(a(&psat) * PASCAL, temps.clone(), false, None, None))),
                ("liquid_density", Arc::new(LiquidDensity::new(a(&rhol) * (KILOGRAM / METER.powi::<P3>()), temps.clone(), pres.clone()))),
                ("viscosity", Arc::new(Viscosity::new(a(&visc) * (MILLI * PASCAL * SECOND), temps.clone(), pres.clone(), Some(&liq)))),
            ];
            let ds_of = |n: &str| pool.iter().find(|p| p.0 == n).unwrap().1.clone();
            let loss_of = |n: &str| if n == "linear" { Loss::Linear } else { Loss::Huber(0.2) };
            let ent = |e: &Value| json!({"ds": e["ds"], "w": e["w"], "loss": e["loss"], "f": if e["loss"] == json!("linear") { "1" } else { "0.2" }});
            for (hn, &hi) in idx.iter().take(take).enumerate() {
                let h = &plan[hi];
                let news: Vec<Value> = h["new"].as_array().cloned().unwrap_or_default();
                let adds: Vec<Value> = h["adds"].as_array().cloned().unwrap_or_default();
                let case = format!("{}/history{}", name, hn);
                let mut est = Estimator::new(news.iter().map(|e| ds_of(e["ds"].as_str().unwrap())).collect(),
                    news.iter().map(|e| e["w"].as_str().unwrap().parse::<f64>().unwrap()).collect(), news.iter().map(|e| loss_of(e["loss"].as_str().unwrap())).collect());
                tr.ev(json!({"ev":"EstNew","case":case,"entries":news.iter().map(ent).collect::<Vec<_>>()}));
                let mut cost_ev = |est: &Estimator<E>, tr: &mut Tr, hist: String| {
                    let c = est.cost(eos);
                    let r: Vec<Value> = est.relative_difference(eos).map(|v| v.iter().map(|a| fv(a.iter())).collect()).unwrap_or_default();
                    let names: Vec<String> = est.datasets().iter().map(|d| d.target_str().to_owned()).collect();
                    let kinds: Vec<&str> = names.iter().map(|n| if n.contains("vapor") { "vapor_pressure" } else if n.contains("density") { "liquid_density" } else { "viscosity" }).collect();
                    tr.ev(json!({"ev":"EstCost","case":case,"history":hist,"ok":c.is_ok(),"cost":fv(c.map(|a| a.to_vec()).unwrap_or_default().iter()),"r":r,"datasets":kinds}));
                };
                if !news.is_empty() { cost_ev(&est, &mut tr, format!("new({})", news.len())); }
                for (k, e) in adds.iter().enumerate() {
                    est.add_data(&ds_of(e["ds"].as_str().unwrap()), e["w"].as_str().unwrap().parse::<f64>().unwrap(), loss_of(e["loss"].as_str().unwrap()));
                    tr.ev(json!({"ev":"EstAdd","case":case,"entry":ent(e)}));
                    cost_ev(&est, &mut tr, format!("new({})+add_data x{}", news.len(), k + 1));
                }
            }
        }
    }
    let n = tr.finish();
    println!("C20 trace: {} lines", n);
}
