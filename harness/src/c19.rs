//! C19 recorder: response of solved pore profiles to the bulk state (re-solved neighbours vs the library's implicit
//! derivatives), Henry limit, surface tension vs box / resolution / temperature / pDGT, adsorption isotherm drivers.
//! Raw values only; every difference quotient, extrapolation and comparison is formed by TLC (TraceDft.tla, section C19).
use crate::dftzoo::*;
use crate::util::*;
use feos_core::{Contributions, DensityInitialization, PhaseEquilibrium, ReferenceSystem, SolverOptions, State, StateBuilder};
use feos_dft::adsorption::{Adsorption1D, ExternalPotential, Pore1D, PoreProfile1D, PoreSpecification};
use feos_dft::interface::{PlanarInterface, SurfaceTensionDiagram};
use feos_dft::{DFTSolver, Geometry, PdgtFunctionalProperties};
use ndarray::{arr1, Array1};
use quantity::*;
use serde_json::{json, Value};
use std::sync::Arc;

const H: f64 = 2e-3; // relative step of the re-solved neighbours

fn potentials(n: usize) -> Vec<(&'static str, ExternalPotential)> {
    let sig: Array1<f64> = Array1::from_elem(n, 3.3);
    let eps: Array1<f64> = Array1::from_shape_fn(n, |i| 60.0 + 15.0 * i as f64);
    vec![
        ("LJ93", ExternalPotential::LJ93 { sigma_ss: 3.0, epsilon_k_ss: 100.0, rho_s: 0.08 }),
        ("Steele", ExternalPotential::Steele { sigma_ss: 3.4, epsilon_k_ss: 28.0, rho_s: 0.114, xi: None }),
        ("SimpleLJ93", ExternalPotential::SimpleLJ93 { sigma_ss: 3.0, epsilon_k_ss: 1500.0 }),
        ("CustomLJ93", ExternalPotential::CustomLJ93 { sigma_sf: sig.clone(), epsilon_k_sf: &eps * 12.0 }),
        ("CustomSteele", ExternalPotential::CustomSteele { sigma_sf: sig, epsilon_k_sf: eps, rho_s: 0.114, xi: Some(0.8) }),
        ("DoubleWell", ExternalPotential::DoubleWell { sigma_ss: 3.0, epsilon1_k_ss: 80.0, epsilon2_k_ss: 40.0, rho_s: 0.08 }),
        ("HardWall", ExternalPotential::HardWall { sigma_ss: 3.0 }),
    ]
}

/// SimpleLJ93 and CustomLJ93 are `unimplemented!()` in the library for cylindrical and spherical pores
fn pick_potential(pots: &[(&'static str, ExternalPotential)], gname: &str, k: usize) -> (&'static str, ExternalPotential) {
    let mut k = k % pots.len();
    while gname != "slit" && (pots[k].0 == "SimpleLJ93" || pots[k].0 == "CustomLJ93") { k = (k + 1) % pots.len(); }
    pots[k].clone()
}

fn tight_solver() -> DFTSolver {
    DFTSolver::default().newton(None, Some(30), Some(400), Some(1e-13))
}

/// solve with the default solver followed by a Newton polish; fall back to the default solver alone
fn solve_tight(p: PoreProfile1D<F>) -> Option<PoreProfile1D<F>> {
    let q = p.clone();
    match guarded(std::panic::AssertUnwindSafe(|| p.solve(Some(&tight_solver())))) {
        Ok(Ok(s)) => Some(s),
        _ => match guarded(std::panic::AssertUnwindSafe(|| q.solve(None))) {
            Ok(Ok(s)) => Some(s),
            _ => None,
        },
    }
}

/// reduced total chemical potential up to a function of temperature only: mu_res + T ln rho_i
fn mu_of(s: &State<F>) -> Vec<f64> {
    let t = s.temperature.to_reduced();
    let mr = s.residual_chemical_potential().to_reduced();
    let rho = s.partial_density.to_reduced();
    (0..rho.len()).map(|i| mr[i] + t * rho[i].ln()).collect()
}

fn node(pore: &Pore1D, bulk: &State<F>, init: &PoreProfile1D<F>, same_t: bool) -> Option<Value> {
    let ext = if same_t { Some(&init.profile.external_potential) } else { None };
    let p = pore.initialize(bulk, Some(&init.profile.density), ext).ok()?;
    let s = solve_tight(p)?;
    let res = s.profile.residual(false).map(|r| r.2).unwrap_or(f64::NAN);
    Some(json!({"T": fs(bulk.temperature.to_reduced()), "p": fs(bulk.pressure(Contributions::Total).to_reduced()),
        "rho": fv(bulk.partial_density.to_reduced().iter()), "mu": fv(mu_of(bulk).iter()),
        "N": fv(s.profile.moles().to_reduced().iter()), "omega": fs(s.grand_potential.map(|o| o.to_reduced()).unwrap_or(f64::NAN)), "residual": fs(res)}))
}

/// critical density (reduced) at equimolar composition
fn critical_rho(fu: &Func) -> Option<f64> {
    if fu.name.starts_with("FMT") { return Some(0.3 / std::f64::consts::FRAC_PI_6); }
    let x = Moles::from_reduced(Array1::from_elem(fu.n, 1.0 / fu.n as f64));
    State::critical_point(&fu.f, if fu.n == 1 { None } else { Some(&x) }, None, SolverOptions::default()).ok().map(|s| s.density.to_reduced())
}

fn dilute_state(fu: &Func, t: f64, rho: f64, x: &[f64]) -> Option<State<F>> {
    let pd = Density::from_reduced(Array1::from_shape_fn(fu.n, |i| rho * x[i]));
    StateBuilder::new(&fu.f).temperature(Temperature::from_reduced(t)).partial_density(&pd).build().ok()
}

fn critical_t(fu: &Func) -> Option<f64> {
    if fu.name.starts_with("FMT") { return None; }
    let x = Moles::from_reduced(Array1::from_elem(fu.n, 1.0 / fu.n as f64));
    State::critical_point(&fu.f, if fu.n == 1 { None } else { Some(&x) }, None, SolverOptions::default()).ok().map(|s| s.temperature.to_reduced())
}

/// a vapor-like bulk state at fraction `frac` of the saturated vapor density (T < Tc) or of the critical density (T >= Tc)
fn bulk_state(fu: &Func, t: f64, tc: Option<f64>, frac: f64, x: &[f64]) -> Option<State<F>> {
    let temp = Temperature::from_reduced(t);
    if fu.name.starts_with("FMT") {
        let sig = [1.0f64, 1.4];
        let v_per: f64 = (0..fu.n).map(|i| x[i] * std::f64::consts::FRAC_PI_6 * sig[i].powi(3)).sum();
        let rho = 0.3 * frac / v_per;
        let pd = Density::from_reduced(Array1::from_shape_fn(fu.n, |i| rho * x[i]));
        return StateBuilder::new(&fu.f).temperature(temp).partial_density(&pd).build().ok();
    }
    let tc = tc?;
    let rho_ref: f64 = if t < 0.98 * tc {
        let vle = if fu.n == 1 { PhaseEquilibrium::pure(&fu.f, temp, None, SolverOptions::default()) }
                  else { PhaseEquilibrium::dew_point(&fu.f, temp, &arr1(x), None, None, (SolverOptions::default(), SolverOptions::default())) };
        vle.ok()?.vapor().density.to_reduced()
    } else {
        let xm = Moles::from_reduced(arr1(x));
        State::critical_point(&fu.f, if fu.n == 1 { None } else { Some(&xm) }, None, SolverOptions::default()).ok()?.density.to_reduced() * 0.5
    };
    let pd = Density::from_reduced(Array1::from_shape_fn(fu.n, |i| rho_ref * frac * x[i]));
    StateBuilder::new(&fu.f).temperature(temp).partial_density(&pd).build().ok()
}

fn response(tr: &mut Tr, rng: &mut Rng, thorough: bool) {
    let n_grid = 512;
    let geoms = [("slit", Geometry::Cartesian), ("cylindrical", Geometry::Cylindrical), ("spherical", Geometry::Spherical)];
    for fu in functionals(thorough) {
        let is_fmt = fu.name.starts_with("FMT");
        if !thorough && !["PcSaft/propane", "PcSaft/butane+pentane", "Pets", "FMT(WhiteBear)", "GcPcSaft/butane"].contains(&fu.name.as_str()) { continue; }
        let tc = critical_t(&fu);
        if !is_fmt && tc.is_none() { tr.ev(json!({"ev":"Skip","functional":fu.name,"system":"response","why":"no critical point"})); continue; }
        let sigma = if is_fmt { 1.0 } else if fu.name == "Pets" { 3.4 } else { 3.6 };
        let ncases = if thorough { 14 } else { 5 };
        // debugging aid: C19_CASE="functional:geometry:potential:size:Tr:frac:points" runs exactly that case
        let dbg: Option<Vec<String>> = std::env::var("C19_CASE").ok().map(|s| s.split(':').map(|x| x.to_owned()).collect());
        if let Some(d) = &dbg { if d[0] != fu.name { continue; } }
        let ncases = if dbg.is_some() { 1 } else { ncases };
        for case in 0..ncases {
            let (gname, geom) = geoms[(case + rng.below(3)) % 3].clone();
            let pots = potentials(feos_dft::HelmholtzEnergyFunctional::m(&*fu.f).len());
            let (pname, pot) = if is_fmt { pots[6].clone() } else { pick_potential(&pots, gname, case + rng.below(7)) };
            let size = if is_fmt { rng.range(5.0, 9.0) } else { rng.range(4.5, 11.0) * sigma };
            let size = if gname == "slit" { size } else { size * 0.8 };
            let tr_red = if case % 3 == 2 { rng.range(1.02, 1.5) } else { rng.range(0.6, 0.95) };
            let frac = rng.lrange(0.02, 0.3);
            let (gname, geom, pname, pot, size, tr_red, frac, n_grid) = match &dbg {
                None => (gname, geom, pname, pot, size, tr_red, frac, n_grid),
                Some(d) => {
                    let g = geoms.iter().find(|g| g.0 == d[1]).unwrap().clone();
                    let p = pots.iter().find(|p| p.0 == d[2]).unwrap().clone();
                    (g.0, g.1, p.0, p.1, d[3].parse().unwrap(), d[4].parse().unwrap(), d[5].parse().unwrap(), d[6].parse().unwrap())
                }
            };
            let t = if is_fmt { 1.0 } else { tr_red * tc.unwrap() };
            let x: Vec<f64> = if fu.n == 1 { vec![1.0] } else { let a = rng.range(0.25, 0.75); vec![a, 1.0 - a] };
            let meta = json!({"functional": fu.name, "geometry": gname, "potential": pname, "pore_size": fs(size), "points": n_grid,
                "T_reduced": fs(tr_red), "fraction_of_saturation": fs(frac), "chain": fu.chain, "components": fu.n});
            let Some(bulk) = bulk_state(&fu, t, tc, frac, &x) else {
                let mut e = meta.clone(); e["ev"] = json!("Skip"); e["system"] = json!("response"); e["why"] = json!("no bulk state"); tr.ev(e); continue;
            };
            let pore = Pore1D::new(geom, Length::from_reduced(size), pot.clone(), Some(n_grid), None);
            let base = pore.initialize(&bulk, None, None).ok().and_then(solve_tight);
            let Some(base) = base else {
                let mut e = meta.clone(); e["ev"] = json!("Skip"); e["system"] = json!("response"); e["why"] = json!("base profile not solved"); tr.ev(e); continue;
            };
            let mut ev = meta.clone();
            ev["ev"] = json!("Response");
            ev["h"] = fs(H);
            let Some(base_node) = node(&pore, &bulk, &base, true) else {
                let mut e = meta.clone(); e["ev"] = json!("Skip"); e["system"] = json!("response"); e["why"] = json!("base profile not re-solved"); tr.ev(e); continue;
            };
            ev["base"] = base_node;
            ev["x"] = fv(bulk.molefracs.iter());
            // the library's implicit derivatives
            let r = guarded(std::panic::AssertUnwindSafe(|| {
                let dmu = base.profile.dn_dmu().map(|d| d.to_reduced());
                let dp = base.profile.dn_dp().map(|d| d.to_reduced());
                let dt = base.profile.dn_dt().map(|d| d.to_reduced());
                let hp = base.partial_molar_enthalpy_of_adsorption().map(|d| d.to_reduced());
                let ha = base.enthalpy_of_adsorption().map(|d| d.to_reduced());
                (dmu, dp, dt, hp, ha)
            }));
            match r {
                Ok((Ok(dmu), Ok(dp), Ok(dt), hp, ha)) => {
                    ev["dn_dmu"] = fm(&dmu);
                    ev["dn_dp"] = fv(dp.iter());
                    ev["dn_dt"] = fv(dt.iter());
                    if let Ok(h) = hp { ev["h_partial"] = fv(h.iter()); }
                    if let Ok(h) = ha { ev["h_ads"] = fs(h); }
                    ev["derivatives_ok"] = json!(true);
                }
                Ok(_) => { ev["derivatives_ok"] = json!(false); ev["why"] = json!("Err"); }
                Err(m) => { ev["derivatives_ok"] = json!(false); ev["why"] = json!(format!("Panic:{}", m)); }
            }
            // neighbours: each partial density, pressure at constant (T, x), temperature at constant (p, x)
            let steps = [-2.0 * H, -H, H, 2.0 * H];
            let mut complete = true;
            let mut rho_nodes = vec![];
            for j in 0..fu.n {
                let mut nodes = vec![];
                for s in steps {
                    let mut pd = bulk.partial_density.to_reduced();
                    pd[j] *= 1.0 + s;
                    let b = StateBuilder::new(&fu.f).temperature(bulk.temperature).partial_density(&Density::from_reduced(pd)).build().ok();
                    match b.and_then(|b| node(&pore, &b, &base, true)) { Some(v) => nodes.push(v), None => complete = false }
                }
                rho_nodes.push(Value::Array(nodes));
            }
            ev["rho_nodes"] = Value::Array(rho_nodes);
            let p0 = bulk.pressure(Contributions::Total);
            let mut p_nodes = vec![];
            for s in steps {
                let b = State::new_npt(&fu.f, bulk.temperature, p0 * (1.0 + s), &bulk.moles, DensityInitialization::InitialDensity(bulk.density)).ok();
                match b.and_then(|b| node(&pore, &b, &base, true)) { Some(v) => p_nodes.push(v), None => complete = false }
            }
            ev["p_nodes"] = Value::Array(p_nodes);
            let mut t_nodes = vec![];
            for s in steps {
                let b = State::new_npt(&fu.f, bulk.temperature * (1.0 + s), p0, &bulk.moles, DensityInitialization::InitialDensity(bulk.density)).ok();
                match b.and_then(|b| node(&pore, &b, &base, false)) { Some(v) => t_nodes.push(v), None => complete = false }
            }
            ev["t_nodes"] = Value::Array(t_nodes);
            ev["complete"] = json!(complete);
            tr.ev(ev);
        }
    }
}

/// Henry coefficients: N_i / p_i along a ladder of vanishing pressures, H(T) on a temperature stencil, ideal-gas enthalpy
fn henry(tr: &mut Tr, rng: &mut Rng, thorough: bool) {
    let n_grid = 512;
    let geoms = [("slit", Geometry::Cartesian), ("cylindrical", Geometry::Cylindrical), ("spherical", Geometry::Spherical)];
    let mut funcs = functionals(thorough);
    funcs.extend(extra_spherical());
    for fu in funcs {
        if fu.name.starts_with("FMT") && fu.name != "FMT(WhiteBear)" && !thorough { continue; }
        let is_fmt = fu.name.starts_with("FMT");
        let tc = critical_t(&fu);
        if !is_fmt && tc.is_none() { continue; }
        let Some(rhoc) = critical_rho(&fu) else { continue };
        let sigma = if is_fmt { 1.0 } else { 3.5 };
        for case in 0..(if thorough { 6 } else { 2 }) {
            let (gname, geom) = geoms[(case + rng.below(3)) % 3].clone();
            let pots = potentials(feos_dft::HelmholtzEnergyFunctional::m(&*fu.f).len());
            let (pname, pot) = if is_fmt { pots[6].clone() } else { pick_potential(&pots, gname, case + rng.below(7)) };
            let size = rng.range(5.0, 10.0) * sigma;
            let tr_red = rng.range(0.7, 1.5);
            let t = if is_fmt { 1.0 } else { tr_red * tc.unwrap() };
            let x: Vec<f64> = if fu.n == 1 { vec![1.0] } else { let a = rng.range(0.25, 0.75); vec![a, 1.0 - a] };
            let pore = Pore1D::new(geom, Length::from_reduced(size), pot.clone(), Some(n_grid), None);
            let mut ev = json!({"ev":"Henry","functional": fu.name, "geometry": gname, "potential": pname, "pore_size": fs(size), "points": n_grid,
                "T": fs(t), "T_reduced": fs(tr_red), "x": fv(x.iter()), "chain": fu.chain, "h": fs(H)});
            // H_i(T) and the reported ideal-gas enthalpy at T and on the temperature stencil
            let mut tn = vec![];
            let mut panicked = None;
            for s in [0.0, -2.0 * H, -H, H, 2.0 * H] {
                let Some(b) = dilute_state(&fu, t * (1.0 + s), 1e-3 * rhoc, &x) else { continue };
                let Ok(p) = pore.initialize(&b, None, None) else { continue };
                match guarded(std::panic::AssertUnwindSafe(|| (p.henry_coefficients().to_reduced(), p.ideal_gas_enthalpy_of_adsorption().to_reduced()))) {
                    Ok((hc, hig)) => tn.push(json!({"T": fs(t * (1.0 + s)), "henry": fv(hc.iter()), "h_ig": fv(hig.iter())})),
                    Err(m) => panicked = Some(m),
                }
            }
            if let Some(m) = panicked {
                ev["panic"] = json!(m);
                ev["segments_m_not_one"] = json!(fu.chain && !fu.name.starts_with("GcPcSaft"));
                tr.ev(ev);
                continue;
            }
            ev["t_nodes"] = Value::Array(tn);
            // ladder of vanishing bulk densities: N_i and the partial pressure p x_i
            let mut ladder = vec![];
            for k in 0..6 {
                let frac = 1e-3 / 4f64.powi(k);
                let Some(b) = dilute_state(&fu, t, frac * rhoc, &x) else { continue };
                let Some(s) = pore.initialize(&b, None, None).ok().and_then(solve_tight) else { continue };
                ladder.push(json!({"p": fs(b.pressure(Contributions::Total).to_reduced()), "x": fv(b.molefracs.iter()), "rho": fs(b.density.to_reduced()),
                    "N": fv(s.profile.moles().to_reduced().iter())}));
            }
            ev["ladder"] = Value::Array(ladder);
            tr.ev(ev);
        }
    }
}

/// spherical-molecule functionals (m = 1) for the Henry clause in addition to the zoo
fn extra_spherical() -> Vec<Func> {
    use crate::zoo::{from_json_str, shipped};
    use feos::pcsaft::{PcSaftFunctional, PcSaftParameters};
    let p: PcSaftParameters = from_json_str(&shipped("pcsaft/gross2001.json", &["methane"]), &[]);
    vec![Func { name: "PcSaft/methane".into(), f: Arc::new(F::PcSaftFunctional(PcSaftFunctional::new(Arc::new(p)))), t: 130.0, n: 1, chain: false }]
}

/// planar interfaces: surface tension for several box lengths / resolutions / temperatures, pDGT
fn interface(tr: &mut Tr, _rng: &mut Rng, thorough: bool) {
    let mut funcs = functionals(thorough);
    funcs.extend(extra_spherical());
    for fu in funcs {
        if fu.name.starts_with("FMT") || fu.n != 1 { continue; }
        if !thorough && !["PcSaft/propane", "Pets"].contains(&fu.name.as_str()) { continue; }
        let Some(tc) = critical_t(&fu) else { continue };
        let trs: Vec<f64> = if thorough { vec![0.5, 0.6, 0.7, 0.8, 0.9, 0.95] } else { vec![0.55, 0.75, 0.95] };
        let grids: Vec<(f64, usize)> = if thorough {
            vec![(100.0, 2048), (60.0, 256), (60.0, 4096), (150.0, 512), (200.0, 1024), (300.0, 256), (300.0, 4096), (100.0, 512)]
        } else {
            vec![(100.0, 2048), (60.0, 512), (300.0, 1024), (200.0, 256)]
        };
        let mut curve = vec![];
        for &trr in &trs {
            let t = Temperature::from_reduced(trr * tc);
            let Ok(vle) = PhaseEquilibrium::pure(&fu.f, t, None, SolverOptions::default()) else {
                tr.ev(json!({"ev":"Skip","functional":fu.name,"system":"interface","why":"no vle","T_reduced":fs(trr)})); continue };
            let mut runs = vec![];
            for &(l, n) in &grids {
                let pi = PlanarInterface::from_tanh(&vle, n, Length::from_reduced(l), Temperature::from_reduced(tc), false);
                let r = guarded(std::panic::AssertUnwindSafe(|| pi.solve(None)));
                match r {
                    Ok(Ok(s)) => runs.push(json!({"L": fs(l), "n": n, "ok": true, "gamma": fs(s.surface_tension.map(|g| g.to_reduced()).unwrap_or(f64::NAN)),
                        "thickness": fs(s.interfacial_thickness().map(|w| w.to_reduced()).unwrap_or(f64::NAN))})),
                    Ok(Err(e)) => runs.push(json!({"L": fs(l), "n": n, "ok": false, "err": e.to_string()})),
                    Err(m) => runs.push(json!({"L": fs(l), "n": n, "ok": false, "err": format!("Panic:{}", m)})),
                }
            }
            // pDGT estimate and the interface initialised from it (the library chooses the box length)
            let pd = guarded(std::panic::AssertUnwindSafe(|| fu.f.solve_pdgt(&vle, 200, 0, None).map(|(_, g)| g.to_reduced())));
            let gamma_pdgt = match pd { Ok(Ok(g)) if g.is_finite() => Some(fs(g)), _ => None };
            let from_pdgt = if fu.name.starts_with("GcPcSaft") { json!(null) } else {
                match guarded(std::panic::AssertUnwindSafe(|| PlanarInterface::from_pdgt(&vle, 2048, false).and_then(|p| p.solve(None)))) {
                    Ok(Ok(s)) => json!({"ok": true, "gamma": fs(s.surface_tension.map(|g| g.to_reduced()).unwrap_or(f64::NAN)),
                        "L": fs(s.profile.grid.grids()[0].iter().last().copied().unwrap_or(f64::NAN))}),
                    _ => json!({"ok": false}),
                }
            };
            let gref = runs.iter().find(|r| r["ok"] == json!(true)).and_then(|r| r.get("gamma").cloned());
            let mut c = json!({"T_reduced": fs(trr)});
            if let Some(g) = gref { c["gamma"] = g; }
            curve.push(c);
            let mut ev = json!({"ev":"SurfaceTension","functional":fu.name,"T":fs(trr * tc),"T_reduced":fs(trr),"Tc":fs(tc),
                "rho_l":fs(vle.liquid().density.to_reduced()),"rho_v":fs(vle.vapor().density.to_reduced()),"runs":runs});
            if let Some(g) = gamma_pdgt { ev["gamma_pdgt"] = g; }
            if !from_pdgt.is_null() { ev["from_pdgt"] = from_pdgt; }
            tr.ev(ev);
        }
        // towards the critical point (outside the stated range of the box-independence clause): two more temperatures
        let mut near = vec![];
        for trr in [0.97, 0.985] {
            let t = Temperature::from_reduced(trr * tc);
            if let Ok(vle) = PhaseEquilibrium::pure(&fu.f, t, None, SolverOptions::default()) {
                let pi = PlanarInterface::from_tanh(&vle, 2048, Length::from_reduced(300.0), Temperature::from_reduced(tc), false);
                if let Ok(Ok(s)) = guarded(std::panic::AssertUnwindSafe(|| pi.solve(None))) {
                    near.push(json!({"T_reduced": fs(trr), "gamma": fs(s.surface_tension.map(|g| g.to_reduced()).unwrap_or(f64::NAN))}));
                }
            }
        }
        // the diagram driver: same temperatures through SurfaceTensionDiagram (continuation of density profiles)
        let vles: Vec<PhaseEquilibrium<F, 2>> = trs.iter().filter_map(|&trr| PhaseEquilibrium::pure(&fu.f, Temperature::from_reduced(trr * tc), None, SolverOptions::default()).ok()).collect();
        let mut diagrams = vec![];
        for init in [None, Some(true), Some(false)] {
            let r = guarded(std::panic::AssertUnwindSafe(|| {
                let mut d = SurfaceTensionDiagram::new(&vles, init, Some(2048), Some(Length::from_reduced(100.0)), Some(Temperature::from_reduced(tc)), None, None);
                let g = d.surface_tension().to_reduced();
                let t: Vec<f64> = d.profiles.iter().map(|p| p.vle.vapor().temperature.to_reduced() / tc).collect();
                (t, g)
            }));
            if let Ok((t, g)) = r {
                diagrams.push(json!({"init_densities":match init { None => "none", Some(true) => "scaled", Some(false) => "unscaled" },
                    "requested": vles.len(), "T_reduced": fv(t.iter()), "gamma": fv(g.iter())}));
            }
        }
        tr.ev(json!({"ev":"SurfaceTensionCurve","functional":fu.name,"Tc":fs(tc),"curve":curve,"near_critical":near,"diagrams":diagrams}));
    }
}

/// adsorption isotherm drivers (continuation with hysteresis)
fn isotherms(tr: &mut Tr, rng: &mut Rng, thorough: bool) {
    for fu in functionals(false) {
        if !["PcSaft/propane", "Pets"].contains(&fu.name.as_str()) { continue; }
        if !thorough && fu.name != "PcSaft/propane" { continue; }
        let Some(tc) = critical_t(&fu) else { continue };
        for case in 0..(if thorough { 4 } else { 1 }) {
            let trr = rng.range(0.65, 0.85);
            let t = Temperature::from_reduced(trr * tc);
            let Ok(vle) = PhaseEquilibrium::pure(&fu.f, t, None, SolverOptions::default()) else { continue };
            let psat = vle.vapor().pressure(Contributions::Total).to_reduced();
            let npts = if thorough { 48 } else { 32 };
            let size = if fu.name == "Pets" { rng.range(5.0, 8.0) * 3.4 } else { rng.range(5.0, 8.0) * 3.6 };
            let geom = if case % 3 != 1 { Geometry::Cartesian } else { Geometry::Cylindrical };
            let pore = Pore1D::new(geom, Length::from_reduced(size), ExternalPotential::LJ93 { sigma_ss: 3.0, epsilon_k_ss: 100.0, rho_s: 0.08 }, Some(1024), None);
            let pressure = Pressure::from_reduced(Array1::linspace(0.05 * psat, 0.95 * psat, npts));
            let mut ev = json!({"ev":"Isotherm","functional":fu.name,"T_reduced":fs(trr),"pore_size":fs(size),"geometry":if case % 3 != 1 { "slit" } else { "cylindrical" },
                "p_sat":fs(psat),"requested":npts,"points":1024,"p_requested":fv(pressure.to_reduced().iter())});
            let dump = |a: &Adsorption1D<F>| -> Value {
                let p = a.pressure().to_reduced();
                let om = a.grand_potential().to_reduced();
                let n = a.total_adsorption().to_reduced();
                let mu: Vec<f64> = a.profiles.iter().map(|r| r.as_ref().map(|p| mu_of(&p.profile.bulk)[0]).unwrap_or(f64::NAN)).collect();
                let ok: Vec<bool> = a.profiles.iter().map(|r| r.is_ok()).collect();
                json!({"p": fv(p.iter()), "omega": fv(om.iter()), "N": fv(n.iter()), "mu": fv(mu.iter()), "ok": ok})
            };
            let so: Option<&DFTSolver> = None;
            let r = guarded(std::panic::AssertUnwindSafe(|| {
                let a = Adsorption1D::adsorption_isotherm(&fu.f, t, &pressure, &pore, None, so).map(|a| dump(&a)).ok();
                let d = Adsorption1D::desorption_isotherm(&fu.f, t, &pressure, &pore, None, so).map(|a| dump(&a)).ok();
                let e = Adsorption1D::equilibrium_isotherm(&fu.f, t, &pressure, &pore, None, so).map(|a| dump(&a)).ok();
                let pe = Adsorption1D::phase_equilibrium(&fu.f, t, pressure.get(0), pressure.get(npts - 1), &pore, None, so, SolverOptions::default()).map(|a| dump(&a)).ok();
                (a, d, e, pe)
            }));
            match r {
                Ok((a, d, e, pe)) => {
                    if let Some(v) = a { ev["adsorption"] = v; }
                    if let Some(v) = d { ev["desorption"] = v; }
                    if let Some(v) = e { ev["equilibrium"] = v; }
                    if let Some(v) = pe { ev["phase_equilibrium"] = v; }
                }
                Err(m) => ev["panic"] = json!(m),
            }
            tr.ev(ev);
        }
    }
}

pub fn run(args: &Args) {
    // panics of the code under test are data (recorded in the events), not console output
    std::panic::set_hook(Box::new(|_| {}));
    let mut tr = Tr::create(&args.out);
    let mut rng = Rng::new(args.seed ^ 0x19);
    let only = args.extra.first().map(|s| s.as_str()).unwrap_or("all").to_owned();
    if only == "all" || only == "response" { response(&mut tr, &mut rng, args.thorough); }
    if only == "all" || only == "henry" { henry(&mut tr, &mut rng, args.thorough); }
    if only == "all" || only == "interface" { interface(&mut tr, &mut rng, args.thorough); }
    if only == "all" || only == "isotherm" { isotherms(&mut tr, &mut rng, args.thorough); }
    let n = tr.finish();
    println!("C19 trace: {} lines", n);
}
