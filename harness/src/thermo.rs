//! Recorder for the thermodynamic-law properties C01, C02, C10: for sampled states of every model
//! of the zoo it records the raw observables of the state and of its stencil neighbours. No law,
//! tolerance or stencil arithmetic lives here - Thermo.tla / TraceThermo.tla hold them.
use crate::red::*;
use crate::util::*;
use crate::zoo::{self, Eos, Model};
use feos_core::{Contributions, DensityInitialization, Derivative, ReferenceSystem, Residual, State};
use ndarray::Array1;
use num_dual::*;
use quantity::*;
use serde_json::{json, Value};
use std::sync::Arc;

type S = State<Eos>;
const CT: Contributions = Contributions::Total;

pub fn q(s: &S, c: Contributions) -> Value {
    json!({
        "A": fs(r0(s.helmholtz_energy(c))),
        "S": fs(r0(s.entropy(c))),
        "p": fs(r0(s.pressure(c))),
        "mu": fv(r1(s.chemical_potential(c)).iter()),
        "dp_dv": fs(r0(s.dp_dv(c))),
        "dp_dt": fs(r0(s.dp_dt(c))),
        "dp_dni": fv(r1(s.dp_dni(c)).iter()),
        "dmu_dni": fm(&r2(s.dmu_dni(c))),
        "dmu_dt": fv(r1(s.dmu_dt(c)).iter()),
        "ds_dt": fs(r0(s.ds_dt(c))),
        "d2s_dt2": fs(r0(s.d2s_dt2(c))),
        "d2p_dv2": fs(r0(s.d2p_dv2(c))),
    })
}

pub fn dirs(n: usize) -> Vec<Derivative> {
    let mut d = vec![Derivative::DV, Derivative::DT];
    d.extend((0..n).map(Derivative::DN));
    d
}

/// per-contribution jets of beta*A_res*T by direct dual-number evaluation of the model
pub fn jets<E: Residual>(eos: &Arc<E>, s: &State<E>, third: bool) -> (Vec<String>, Vec<Value>) {
    let n = s.moles.len();
    let ds = dirs(n);
    let nd = ds.len();
    let st0 = s.derive0();
    let c0 = eos.residual_helmholtz_energy_contributions(&st0);
    let names: Vec<String> = c0.iter().map(|(n, _)| n.clone()).collect();
    let nc = names.len();
    let t = st0.temperature;
    let mut a = vec![0.0; nc];
    let mut f = vec![vec![0.0; nd]; nc];
    let mut t3 = vec![vec![0.0; nd]; nc];
    let mut m = vec![vec![vec![0.0; nd]; nd]; nc];
    for (k, (_, v)) in c0.iter().enumerate() {
        a[k] = v * t;
    }
    for (i, &d) in ds.iter().enumerate() {
        if third {
            let st = s.derive3(d);
            for (k, (_, v)) in eos.residual_helmholtz_energy_contributions(&st).into_iter().enumerate() {
                let x: Dual3_64 = v * st.temperature;
                f[k][i] = x.v1;
                t3[k][i] = x.v3;
            }
        } else {
            let st = s.derive1(d);
            for (k, (_, v)) in eos.residual_helmholtz_energy_contributions(&st).into_iter().enumerate() {
                let x: Dual64 = v * st.temperature;
                f[k][i] = x.eps;
            }
        }
        for (j, &e) in ds.iter().enumerate() {
            let st = s.derive2_mixed(d, e);
            for (k, (_, v)) in eos.residual_helmholtz_energy_contributions(&st).into_iter().enumerate() {
                let x: HyperDual64 = v * st.temperature;
                m[k][i][j] = x.eps1eps2;
            }
        }
    }
    let js = (0..nc)
        .map(|k| {
            json!({"A": fs(a[k]), "F": fv(f[k].iter()),
                   "M": Value::Array(m[k].iter().map(|r| fv(r.iter())).collect()),
                   "T3": fv(t3[k].iter())})
        })
        .collect();
    (names, js)
}

fn node(s: &S, third: bool) -> (Vec<String>, Value) {
    let (names, js) = jets(&s.eos, s, third);
    (
        names,
        json!({"ig": q(s, Contributions::IdealGas), "res": q(s, Contributions::Residual), "tot": q(s, CT), "jets": js}),
    )
}

fn derived(s: &S) -> Value {
    let c3 = |f: &dyn Fn(Contributions) -> f64| {
        json!({"ig": fs(f(Contributions::IdealGas)), "res": fs(f(Contributions::Residual)), "tot": fs(f(CT))})
    };
    json!({
        "cv": c3(&|c| r0(s.molar_isochoric_heat_capacity(c))),
        "cp": c3(&|c| r0(s.molar_isobaric_heat_capacity(c))),
        "dcv_dt": c3(&|c| r0(s.dc_v_dt(c))),
        "H": c3(&|c| r0(s.enthalpy(c))),
        "U": c3(&|c| r0(s.internal_energy(c))),
        "G": c3(&|c| r0(s.gibbs_energy(c))),
        "a_molar": c3(&|c| r0(s.molar_helmholtz_energy(c))),
        "s_molar": c3(&|c| r0(s.molar_entropy(c))),
        "h_molar": c3(&|c| r0(s.molar_enthalpy(c))),
        "u_molar": c3(&|c| r0(s.molar_internal_energy(c))),
        "g_molar": c3(&|c| r0(s.molar_gibbs_energy(c))),
        "Z": c3(&|c| s.compressibility(c)),
        "dp_drho": c3(&|c| r0(s.dp_drho(c))),
        "d2p_drho2": c3(&|c| r0(s.d2p_drho2(c))),
        "kappa_t": fs(r0(s.isothermal_compressibility())),
        "kappa_s": fs(r0(s.isentropic_compressibility())),
        "kappa_h": fs(r0(s.isenthalpic_compressibility())),
        "jt": fs(r0(s.joule_thomson())),
        "alpha": fs(r0(s.thermal_expansivity())),
        "gru": fs(s.grueneisen_parameter()),
        "sos": fs(r0(s.speed_of_sound())),
        "mw": fs(r0(s.total_molar_weight())),
        "structure_factor": fs(s.structure_factor()),
        "ln_phi": fv(s.ln_phi().iter()),
        "dln_phi_dt": fv(r1(s.dln_phi_dt()).iter()),
        "dln_phi_dp": fv(r1(s.dln_phi_dp()).iter()),
        "dln_phi_dnj": fm(&r2(s.dln_phi_dnj())),
        "v_i": fv(r1(s.partial_molar_volume()).iter()),
        "s_i": fv(r1(s.partial_molar_entropy()).iter()),
        "h_i": fv(r1(s.partial_molar_enthalpy()).iter()),
        "cv_res": fs(r0(s.residual_molar_isochoric_heat_capacity())),
        "cp_res": fs(r0(s.residual_molar_isobaric_heat_capacity())),
        "dcv_res_dt": fs(r0(s.dc_v_res_dt())),
        "H_res": fs(r0(s.residual_enthalpy())),
        "U_res": fs(r0(s.residual_internal_energy())),
        "G_res": fs(r0(s.residual_gibbs_energy())),
        "alias": json!({
            "A": fs(r0(s.residual_helmholtz_energy())),
            "S": fs(r0(s.residual_entropy())),
            "mu": fv(r1(s.residual_chemical_potential()).iter()),
            "dmu_dt": fv(r1(s.dmu_res_dt()).iter()),
            "ds_dt": fs(r0(s.ds_res_dt())),
            "d2s_dt2": fs(r0(s.d2s_res_dt2())),
        }),
        "p_contrib": fv(s.pressure_contributions().iter().map(|(_, p)| r0(*p)).collect::<Vec<_>>().iter()),
        "a_contrib": fv(s.residual_helmholtz_energy_contributions().iter().map(|(_, a)| r0(*a)).collect::<Vec<_>>().iter()),
        "mu_contrib": Value::Array((0..s.moles.len()).map(|i| fv(s.residual_chemical_potential_contributions(i).iter().map(|(_, a)| r0(*a)).collect::<Vec<_>>().iter())).collect()),
    })
}

pub fn mk(eos: &Arc<Eos>, x: &[f64]) -> Option<S> {
    // x = [V, T, N1..]
    State::new_nvt(
        eos,
        Temperature::from_reduced(x[1]),
        Volume::from_reduced(x[0]),
        &Moles::from_reduced(Array1::from_vec(x[2..].to_vec())),
    )
    .ok()
}

pub const HREL: f64 = 3.0e-4;
const OFFS: [f64; 4] = [-2.0, -1.0, 1.0, 2.0];

/// states along constrained paths (T,p,N) by density iteration started at the centre density
fn path(s: &S) -> Value {
    let p0 = s.pressure(CT);
    let t0 = s.temperature;
    let n = s.moles.len();
    let obs = |st: &S| {
        json!({"h": fs(r0(st.molar_enthalpy(CT))), "s": fs(r0(st.molar_entropy(CT))), "v": fs(1.0 / st.density.to_reduced()),
               "V": fs(st.volume.to_reduced()), "H": fs(r0(st.enthalpy(CT))), "S": fs(r0(st.entropy(CT))),
               "ln_phi": fv(st.ln_phi().iter()), "p": fs(r0(st.pressure(CT))), "T": fs(st.temperature.to_reduced())})
    };
    let init = DensityInitialization::InitialDensity(s.density);
    let hrel = 1.0e-3;
    let mut ok = true;
    let mut tn = vec![];
    let mut pn = vec![];
    for k in OFFS {
        match State::new_npt(&s.eos, t0 * (1.0 + k * hrel), p0, &s.moles, init) {
            Ok(st) => tn.push(obs(&st)),
            Err(_) => ok = false,
        }
        match State::new_npt(&s.eos, t0, p0 * (1.0 + k * hrel), &s.moles, init) {
            Ok(st) => pn.push(obs(&st)),
            Err(_) => ok = false,
        }
    }
    let mut nn = vec![];
    for j in 0..n {
        let mut row = vec![];
        for k in OFFS {
            let mut m = s.moles.to_reduced();
            m[j] *= 1.0 + k * hrel;
            match State::new_npt(&s.eos, t0, p0, &Moles::from_reduced(m), init) {
                Ok(st) => row.push(obs(&st)),
                Err(_) => ok = false,
            }
        }
        nn.push(Value::Array(row));
    }
    json!({"ok": ok, "hrel": fs(hrel), "T": tn, "p": pn, "N": nn, "p0": fs(r0(p0))})
}

pub fn sample_x(m: &Model, rng: &mut Rng, k: usize) -> Vec<f64> {
    // temperature / density / composition ranges of C01; electrolytes in their own window
    let n = m.n;
    let ntot = rng.lrange(0.5, 5.0);
    let (t, xs) = if m.family == "ElectrolytePcSaft" {
        let s = rng.lrange(1e-3, 4e-2);
        // away from the knots (280.15, 298.15, 360.15 K) of the piecewise-linear permittivity data: the
        // model is not differentiable there, so "within discretisation error" has no meaning at a knot
        (rng.range(301.0, 357.0), vec![1.0 - 2.0 * s, s, s])
    } else {
        (m.tscale * rng.lrange(0.4, 3.0), rng.simplex(n))
    };
    let moles: Vec<f64> = xs.iter().map(|x| x * ntot).collect();
    let rmax = m.eos.compute_max_density(&Array1::from_vec(moles.clone()));
    let u = if m.family == "ElectrolytePcSaft" {
        // liquid-like densities only: the Debye-Hueckel term is ill-conditioned (cancellation ~ (kappa d)^-3)
        // for vanishing ion densities, which is numeric accuracy, not a property of the derivatives
        rng.range(0.3, 0.9)
    } else if k % 2 == 0 {
        rng.lrange(1e-6, 0.9)
    } else {
        rng.range(0.05, 0.9)
    };
    let rho = rmax * u;
    let mut x = vec![ntot / rho, t];
    x.extend(moles);
    x
}

pub fn thermo_event(case: &str, m: &Model, eos: &Arc<Eos>, x: &[f64], with_path: bool) -> Option<Value> {
    let n = m.n;
    let center = mk(eos, x)?;
    let (names, cnode) = node(&center, true);
    let nd = 2 + n;
    let mut nodes = vec![];
    let mut h = vec![];
    for d in 0..nd {
        let hd = HREL * x[d];
        h.push(hd);
        let mut row = vec![];
        for k in OFFS {
            let mut y = x.to_vec();
            y[d] += k * hd;
            let st = mk(eos, &y)?;
            row.push(node(&st, false).1);
        }
        nodes.push(Value::Array(row));
    }
    let mut scaled = vec![];
    for lam in [1e-3, 0.1, 7.0, 1e3] {
        let y: Vec<f64> = x.iter().enumerate().map(|(i, v)| if i == 1 { *v } else { v * lam }).collect();
        let st = mk(eos, &y)?;
        scaled.push(json!({"lambda": fs(lam), "ig": q(&st, Contributions::IdealGas), "res": q(&st, Contributions::Residual), "tot": q(&st, CT)}));
    }
    let rmax = m.eos.compute_max_density(&Array1::from_vec(x[2..].to_vec()));
    let ntot: f64 = x[2..].iter().sum();
    let rho_rel = ntot / x[0] / rmax;
    // ideal-gas chemical potential of each pure component at the same T and total density
    let mut ig_pure = vec![];
    for i in 0..n {
        use feos_core::Components;
        let sub = Arc::new(eos.subset(&[i]));
        let st = State::new_nvt(&sub, center.temperature, center.volume, &Moles::from_reduced(Array1::from_vec(vec![ntot]))).ok()?;
        ig_pure.push(r1(st.chemical_potential(Contributions::IdealGas))[0]);
    }
    let si = json!({"p_ig_pa": fs(center.pressure(Contributions::IdealGas).convert_into(PASCAL)),
        "rho_mol_m3": fs(center.density.convert_into(MOL / METER.powi::<typenum::P3>())),
        "T_K": fs(center.temperature.convert_into(KELVIN))});
    let stable = center.dp_dv(CT).to_reduced() < 0.0 && center.pressure(CT).to_reduced() > 0.0;
    let pth = if with_path && stable { path(&center) } else { json!({"ok": false}) };
    Some(json!({"ev":"Thermo","case":case,"model":m.name,"family":m.family,"n":n,
        "x": fv(x.iter()), "h": fv(h.iter()), "names": names, "solver_tol": fs(m.solver_tol), "rho_rel": fs(rho_rel), "ig_pure_mu": fv(ig_pure.iter()), "si": si,
        "center": cnode, "der": derived(&center), "nodes": nodes, "scaled": scaled, "path": pth}))
}

pub fn run(args: &Args) {
    let mut tr = Tr::create(&args.out);
    let mut rng = Rng::new(args.seed);
    let nstates = if args.thorough { 100 } else { 16 };
    let mut models = zoo::zoo(args.thorough);
    let nzoo = models.len();
    // models built from shipped records, stratified by structural class (fewer states each)
    models.extend(zoo::shipped_sample(&mut rng, args.thorough));
    let mut cases = 0;
    for (mi, m) in models.iter().enumerate() {
        let eos = zoo::with_ideal_gas(&m.eos, m.n);
        let nstates = if mi < nzoo { nstates } else if args.thorough { 6 } else { 2 };
        for k in 0..nstates {
            let x = sample_x(m, &mut rng, k);
            let case = format!("{}#{}", m.name, k);
            let r = guarded(std::panic::AssertUnwindSafe(|| thermo_event(&case, m, &eos, &x, true)));
            match r {
                Ok(Some(ev)) => {
                    tr.ev(ev);
                    cases += 1;
                }
                Ok(None) => tr.ev(json!({"ev":"Skip","case":case,"why":"state construction failed","x":fv(x.iter())})),
                Err(p) => tr.ev(json!({"ev":"Panic","case":case,"msg":p,"x":fv(x.iter())})),
            }
        }
    }
    let n = tr.finish();
    println!("thermo trace: {} lines, {} cases", n, cases);
}
