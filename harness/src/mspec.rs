//! Model specifications as data (family + JSON records + binary records + option variant), so that the component
//! transformations of C09 (permute / pad / split / subset) and the model pairs of C08 can be built through the
//! library's public constructors.
use crate::zoo::{from_json_str, shipped};
use feos::epcsaft::{ElectrolytePcSaft, ElectrolytePcSaftOptions, ElectrolytePcSaftParameters};
use feos::pcsaft::{DQVariants, PcSaft, PcSaftOptions, PcSaftParameters};
use feos::pets::{Pets, PetsOptions, PetsParameters};
use feos::saftvrmie::{SaftVRMie, SaftVRMieOptions, SaftVRMieParameters};
use feos::saftvrqmie::{SaftVRQMie, SaftVRQMieOptions, SaftVRQMieParameters};
use feos::uvtheory::{Perturbation, UVTheory, UVTheoryOptions, UVTheoryParameters};
use feos::ResidualModel;
use feos_core::cubic::{PengRobinson, PengRobinsonParameters};
use feos_core::parameter::Parameter;
use serde_json::{json, Value};
use std::sync::Arc;

#[derive(Clone)]
pub struct MSpec {
    pub name: String,
    pub family: &'static str,
    pub records: Vec<Value>,
    /// unordered pairs (i < j) with the binary record JSON
    pub binary: Vec<((usize, usize), Value)>,
    /// 0 = default options, 1 = non-default option struct
    pub opt: usize,
    pub tscale: f64,
}

impl MSpec {
    pub fn n(&self) -> usize {
        self.records.len()
    }
    fn pure_json(&self) -> String {
        serde_json::to_string(&self.records).unwrap()
    }
    fn bin(&self) -> Vec<((usize, usize), String)> {
        self.binary.iter().map(|(ij, v)| (*ij, v.to_string())).collect()
    }
    pub fn build(&self) -> ResidualModel {
        let b = self.bin();
        let br: Vec<((usize, usize), &str)> = b.iter().map(|(ij, s)| (*ij, s.as_str())).collect();
        let pj = self.pure_json();
        match self.family {
            "PcSaft" => {
                let p = Arc::new(from_json_str::<PcSaftParameters>(&pj, &br));
                ResidualModel::PcSaft(if self.opt == 0 {
                    PcSaft::new(p)
                } else {
                    PcSaft::with_options(p, PcSaftOptions { max_eta: 0.45, max_iter_cross_assoc: 80, tol_cross_assoc: 1e-12, dq_variant: DQVariants::DQ44 })
                })
            }
            "ElectrolytePcSaft" => {
                let p = Arc::new(from_json_str::<ElectrolytePcSaftParameters>(&pj, &br));
                ResidualModel::ElectrolytePcSaft(if self.opt == 0 {
                    ElectrolytePcSaft::new(p)
                } else {
                    let mut o = ElectrolytePcSaftOptions::default();
                    o.max_eta = 0.45;
                    ElectrolytePcSaft::with_options(p, o)
                })
            }
            "SaftVRMie" => {
                let p = Arc::new(from_json_str::<SaftVRMieParameters>(&pj, &br));
                ResidualModel::SaftVRMie(if self.opt == 0 {
                    SaftVRMie::new(p)
                } else {
                    SaftVRMie::with_options(p, SaftVRMieOptions { max_eta: 0.45, max_iter_cross_assoc: 80, tol_cross_assoc: 1e-12 })
                })
            }
            "SaftVRQMie" => {
                let p = Arc::new(from_json_str::<SaftVRQMieParameters>(&pj, &br));
                ResidualModel::SaftVRQMie(if self.opt == 0 {
                    SaftVRQMie::new(p)
                } else {
                    SaftVRQMie::with_options(p, SaftVRQMieOptions { max_eta: 0.45, inc_nonadd_term: false })
                })
            }
            "Pets" => {
                let p = Arc::new(from_json_str::<PetsParameters>(&pj, &br));
                ResidualModel::Pets(if self.opt == 0 { Pets::new(p) } else { Pets::with_options(p, PetsOptions { max_eta: 0.45 }) })
            }
            "UVTheory/WCA" | "UVTheory/BH" | "UVTheory/B3" => {
                let p = Arc::new(from_json_str::<UVTheoryParameters>(&pj, &br));
                let pert = match self.family {
                    "UVTheory/WCA" => Perturbation::WeeksChandlerAndersen,
                    "UVTheory/BH" => Perturbation::BarkerHenderson,
                    _ => Perturbation::WeeksChandlerAndersenB3,
                };
                ResidualModel::UVTheory(UVTheory::with_options(p, UVTheoryOptions { max_eta: if self.opt == 0 { 0.5 } else { 0.45 }, perturbation: pert }))
            }
            "PengRobinson" => {
                let p = Arc::new(from_json_str::<PengRobinsonParameters>(&pj, &br));
                ResidualModel::PengRobinson(PengRobinson::new(p))
            }
            "GcPcSaft" => {
                // heterosegmented group contribution: the records are substance names, assembled from the shipped segment tables in the order given
                use feos_core::parameter::{BinaryRecord, ChemicalRecord, ParameterHetero, SegmentRecord};
                let all: Vec<ChemicalRecord> = serde_json::from_str(&std::fs::read_to_string(crate::zoo::ppath("pcsaft/gc_substances.json")).unwrap()).unwrap();
                let crs: Vec<ChemicalRecord> = self.records.iter().map(|r| {
                    let name = r["name"].as_str().unwrap();
                    all.iter().find(|c| c.identifier.name.as_deref() == Some(name)).unwrap_or_else(|| panic!("no gc substance {}", name)).clone()
                }).collect();
                let segs: Vec<SegmentRecord<feos::gc_pcsaft::GcPcSaftRecord>> = SegmentRecord::from_json(crate::zoo::ppath("pcsaft/sauer2014_hetero.json")).unwrap();
                let bins: Vec<BinaryRecord<String, f64>> =
                    serde_json::from_str(&std::fs::read_to_string(crate::zoo::ppath("pcsaft/rehner2023_hetero_binary.json")).unwrap()).unwrap();
                let p = feos::gc_pcsaft::GcPcSaftEosParameters::from_segments(crs, segs, Some(bins)).expect("gc parameters");
                ResidualModel::GcPcSaft(if self.opt == 0 {
                    feos::gc_pcsaft::GcPcSaft::new(Arc::new(p))
                } else {
                    let mut o = feos::gc_pcsaft::GcPcSaftOptions::default();
                    o.max_eta = 0.45;
                    feos::gc_pcsaft::GcPcSaft::with_options(Arc::new(p), o)
                })
            }
            f => panic!("unknown family {}", f),
        }
    }

    /// components reordered: new component k is old component perm[k]
    pub fn permuted(&self, perm: &[usize]) -> MSpec {
        let inv = |old: usize| perm.iter().position(|&p| p == old).unwrap();
        let mut s = self.clone();
        s.records = perm.iter().map(|&i| self.records[i].clone()).collect();
        s.binary = self.binary.iter().map(|((i, j), v)| { let (a, b) = (inv(*i), inv(*j)); ((a.min(b), a.max(b)), v.clone()) }).collect();
        s.name = format!("{}|perm{:?}", self.name, perm);
        s
    }
    /// sub-model of the listed components (in that order), built directly from the records
    pub fn subset(&self, list: &[usize]) -> MSpec {
        let mut s = self.clone();
        s.records = list.iter().map(|&i| self.records[i].clone()).collect();
        s.binary = vec![];
        for (a, &i) in list.iter().enumerate() {
            for (b, &j) in list.iter().enumerate() {
                if a < b {
                    if let Some((_, v)) = self.binary.iter().find(|((p, q), _)| (*p, *q) == (i.min(j), i.max(j))) {
                        s.binary.push(((a, b), v.clone()));
                    }
                }
            }
        }
        s.name = format!("{}|subset{:?}", self.name, list);
        s
    }
    /// an extra component `rec` inserted at position k (binary records with it: default)
    pub fn padded(&self, k: usize, rec: Value) -> MSpec {
        let mut s = self.clone();
        s.records.insert(k, rec);
        let sh = |i: usize| if i >= k { i + 1 } else { i };
        s.binary = self.binary.iter().map(|((i, j), v)| ((sh(*i), sh(*j)), v.clone())).collect();
        s.name = format!("{}|pad@{}", self.name, k);
        s
    }
    /// component c duplicated (copy appended at the end, with a copy of all its binary records)
    pub fn split(&self, c: usize) -> MSpec {
        let mut s = self.clone();
        let n = self.n();
        s.records.push(self.records[c].clone());
        for ((i, j), v) in &self.binary {
            if *i == c {
                s.binary.push(((*j, n), v.clone()));
            } else if *j == c {
                s.binary.push(((*i, n), v.clone()));
            }
        }
        s.name = format!("{}|split{}", self.name, c);
        s
    }
}

fn recs(file: &str, names: &[&str]) -> Vec<Value> {
    serde_json::from_str(&shipped(file, names)).unwrap()
}

pub fn specs() -> Vec<MSpec> {
    let mut v = vec![];
    let mut pc4 = recs("pcsaft/gross2006.json", &["acetone"]);
    pc4.extend(recs("pcsaft/gross2005_fit.json", &["carbon dioxide"]));
    pc4.extend(recs("pcsaft/gross2002.json", &["methanol", "ethanol"]));
    // two dipolar and two quadrupolar components of different size (cross terms of every polar contribution, both DQ variants)
    let mut polar4 = recs("pcsaft/gross2006.json", &["acetone", "n-butyl ethanoate"]);
    polar4.extend(recs("pcsaft/gross2005_fit.json", &["carbon dioxide", "benzene"]));
    // two dipolar components and one quadrupolar component (not touched by the known defect of the quadrupole pair term)
    let mut polar3 = recs("pcsaft/gross2006.json", &["acetone", "n-butyl ethanoate"]);
    polar3.extend(recs("pcsaft/gross2005_fit.json", &["benzene"]));
    for opt in 0..2 {
        v.push(MSpec { name: format!("pcsaft/polar3/opt{}", opt), family: "PcSaft", records: polar3.clone(),
            binary: vec![((0, 2), json!({"k_ij": 0.02}))], opt, tscale: 500.0 });
        v.push(MSpec { name: format!("pcsaft/polar4/opt{}", opt), family: "PcSaft", records: polar4.clone(),
            binary: vec![((0, 2), json!({"k_ij": 0.02})), ((1, 3), json!({"k_ij": -0.015}))], opt, tscale: 480.0 });
        v.push(MSpec { name: format!("pcsaft/4c/opt{}", opt), family: "PcSaft", records: pc4.clone(),
            binary: vec![((0, 1), json!({"k_ij": 0.03})), ((1, 2), json!({"k_ij": -0.02})), ((2, 3), json!({"k_ij": 0.01, "kappa_ab": 0.03, "epsilon_k_ab": 2700.0})), ((0, 3), json!({"k_ij": 0.015}))],
            opt, tscale: 450.0 });
        {
            let mut r = recs("pcsaft/gross2001.json", &["hexane"]);
            r.extend(recs("pcsaft/gross2002.json", &["1-propanol"]));
            r.extend(recs("pcsaft/gross2006.json", &["acetone"]));
            r.extend(recs("pcsaft/rehner2020.json", &["water_4C"]));
            v.push(MSpec { name: format!("pcsaft/assoc-behind4/opt{}", opt), family: "PcSaft", records: r,
                binary: vec![((0, 1), json!({"k_ij": 0.02})), ((1, 3), json!({"k_ij": -0.03}))], opt, tscale: 520.0 });
        }
        v.push(MSpec { name: format!("pcsaft/hc3/opt{}", opt), family: "PcSaft", records: recs("pcsaft/gross2001.json", &["propane", "butane", "pentane"]),
            binary: vec![((0, 1), json!({"k_ij": 0.02})), ((0, 2), json!({"k_ij": 0.035}))], opt, tscale: 420.0 });
        v.push(MSpec { name: format!("saftvrmie/3c/opt{}", opt), family: "SaftVRMie", records: recs("saftvrmie/lafitte2013.json", &["methane", "ethane", "propane"]),
            binary: vec![((0, 1), json!({"k_ij": 0.01})), ((1, 2), json!({"k_ij": -0.02, "gamma_ij": 0.01}))], opt, tscale: 300.0 });
        // SAFT-VR Mie has its own association code: associating components behind and between non-associating ones
        v.push(MSpec { name: format!("saftvrmie/assoc4/opt{}", opt), family: "SaftVRMie", records: recs("saftvrmie/lafitte2013.json", &["hexane", "ethanol", "carbon dioxide", "1-butanol"]),
            binary: vec![((0, 1), json!({"k_ij": 0.02})), ((1, 3), json!({"k_ij": -0.01, "rc_ab": 1.3, "epsilon_k_ab": 2600.0}))], opt, tscale: 500.0 });
        v.push(MSpec { name: format!("saftvrqmie/3c/opt{}", opt), family: "SaftVRQMie", records: recs("saftvrqmie/aasen2019.json", &["hydrogen", "neon", "helium"]),
            binary: vec![((0, 1), json!({"k_ij": 0.105, "l_ij": 0.0})), ((0, 2), json!({"k_ij": 0.08, "l_ij": -0.05}))], opt, tscale: 40.0 });
        // heterosegmented gc-PC-SAFT: several dipolar molecules of different size (dipole pair and triplet terms over components), and an associating
        // molecule behind non-associating ones
        let gcn = |names: &[&str]| -> Vec<Value> { names.iter().map(|n| json!({"name": n})).collect() };
        v.push(MSpec { name: format!("gcpcsaft/dipolar4/opt{}", opt), family: "GcPcSaft", records: gcn(&["acetone", "n-butyl ethanoate", "diethyl ether", "hexane"]),
            binary: vec![], opt, tscale: 480.0 });
        v.push(MSpec { name: format!("gcpcsaft/assoc-behind4/opt{}", opt), family: "GcPcSaft", records: gcn(&["pentane", "butanone", "1-butanol", "ethanol"]),
            binary: vec![], opt, tscale: 480.0 });
        let p3 = json!([{"identifier":{"name":"a"},"molarweight":39.9,"model_record":{"sigma":3.4,"epsilon_k":120.0}},
                        {"identifier":{"name":"b"},"molarweight":83.8,"model_record":{"sigma":3.63,"epsilon_k":165.0}},
                        {"identifier":{"name":"c"},"molarweight":131.3,"model_record":{"sigma":3.96,"epsilon_k":230.0}}]);
        v.push(MSpec { name: format!("pets/3c/opt{}", opt), family: "Pets", records: p3.as_array().unwrap().clone(),
            binary: vec![((0, 1), json!({"k_ij": 0.02})), ((1, 2), json!({"k_ij": -0.01}))], opt, tscale: 170.0 });
        let u3 = json!([{"identifier":{"name":"a"},"molarweight":1.0,"model_record":{"rep":12.0,"att":6.0,"sigma":3.4,"epsilon_k":120.0}},
                        {"identifier":{"name":"b"},"molarweight":1.0,"model_record":{"rep":14.0,"att":6.0,"sigma":3.7,"epsilon_k":160.0}},
                        {"identifier":{"name":"c"},"molarweight":1.0,"model_record":{"rep":18.0,"att":6.0,"sigma":3.9,"epsilon_k":200.0}}]);
        for fam in ["UVTheory/WCA", "UVTheory/BH"] {
            v.push(MSpec { name: format!("{}/3c/opt{}", fam, opt), family: fam, records: u3.as_array().unwrap().clone(),
                binary: vec![((0, 1), json!({"k_ij": 0.02})), ((0, 2), json!({"k_ij": 0.04}))], opt, tscale: 170.0 });
        }
    }
    let pr3 = json!([{"identifier":{"name":"a"},"molarweight":44.1,"model_record":{"tc":369.83,"pc":4.248e6,"acentric_factor":0.152}},
                     {"identifier":{"name":"b"},"molarweight":58.1,"model_record":{"tc":425.12,"pc":3.796e6,"acentric_factor":0.2}},
                     {"identifier":{"name":"c"},"molarweight":72.1,"model_record":{"tc":469.7,"pc":3.37e6,"acentric_factor":0.251}}]);
    v.push(MSpec { name: "pr/3c".into(), family: "PengRobinson", records: pr3.as_array().unwrap().clone(),
        binary: vec![((0, 1), json!(0.03)), ((1, 2), json!(-0.01))], opt: 0, tscale: 420.0 });
    v
}
