--------------------------- MODULE DensityIteration ---------------------------
(***************************************************************************)
(* feos-core/src/density_iteration.rs as a transition system.  The         *)
(* numerical predicates the loop branches on (sign of dp/drho, size of the *)
(* pressure error, outcome of the spinodal search) are chosen              *)
(* nondeterministically; what is modelled is the control flow:             *)
(*   - invalid initial density -> Err(InvalidState)                        *)
(*   - per iteration: in the unstable region (dp/drho < 0) one of seven    *)
(*     repair branches re-seats the density (possibly via the spinodal     *)
(*     search, which may fail, or gives up with IterationFailed) and the   *)
(*     iteration CONTINUES without a convergence test; otherwise a Newton  *)
(*     step is taken and the loop exits when |p - p_spec| < tol            *)
(*   - after the loop: Err(NotConverged) iff iterations = maxiter + 1      *)
(* Variant "code": the final test exactly as written - iterations can      *)
(* never exceed maxiter, so exhausting the loop yields Ok.  Variant        *)
(* "intended": the test also fires when the loop ran out.                  *)
(***************************************************************************)
EXTENDS Naturals, TLC
CONSTANTS MaxIter, Variant
VARIABLES pc,          \* "start" | "loop" | "done"
          iterations,  \* as in the code
          converged,   \* did the last executed iteration pass the tolerance test?
          result       \* "none" | "Ok" | "InvalidState" | "IterationFailed" | "NotConverged" | "SpinodalFailed"
vars == <<pc, iterations, converged, result>>

Init == pc = "start" /\ iterations = 0 /\ converged = FALSE /\ result = "none"
Reject == pc = "start" /\ pc' = "done" /\ result' = "InvalidState" /\ UNCHANGED <<iterations, converged>>
Enter == pc = "start" /\ pc' = "loop" /\ UNCHANGED <<iterations, converged, result>>

Finish(r) == pc' = "done" /\ result' = r
\* one loop iteration (k = iterations before the increment)
Unstable == /\ pc = "loop" /\ iterations < MaxIter
            /\ iterations' = iterations + 1 /\ converged' = FALSE
            /\ \/ UNCHANGED <<pc, result>>                                  \* re-seated, `continue`
               \/ Finish("IterationFailed")                                 \* rho > 0.85 rho_max and p_spinodal < p
               \/ Finish("SpinodalFailed")                                  \* pressure_spinodal returned an error
Newton == /\ pc = "loop" /\ iterations < MaxIter
          /\ iterations' = iterations + 1
          /\ \/ converged' = TRUE /\ UNCHANGED <<pc, result>> /\ pc' = "loop"   \* `break` is modelled by Exit below
             \/ converged' = FALSE /\ UNCHANGED <<pc, result>>
Exit == /\ pc = "loop" /\ (converged \/ iterations = MaxIter)
        /\ UNCHANGED <<iterations, converged>>
        /\ IF iterations = MaxIter + 1 \/ (Variant = "intended" /\ ~converged)
           THEN Finish("NotConverged") ELSE Finish("Ok")
\* after a converging Newton step the loop is left at once
Next == Reject \/ Enter \/ Exit \/ (~converged /\ (Unstable \/ Newton))
Spec == Init /\ [][Next]_vars

OkImpliesConverged == result = "Ok" => converged
NotConvergedReachable == result # "NotConverged"   \* violated iff Err(NotConverged) can be returned
TypeOK == iterations \in 0..MaxIter
================================================================================
