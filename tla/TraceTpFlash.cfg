SPECIFICATION TraceSpec
CONSTANTS
  Calibrate = FALSE
  CycleChoices = {1, 400}
  Variant = "code"
POSTCONDITION Accepted
CHECK_DEADLOCK FALSE
