---- MODULE GenRachfordRice ----
(* Plan for the conformance replay of the Rachford-Rice solver: every input of the bounded model plus extreme ones (K-factors over 16 decades,
   trace components), each with the outcome Run predicts. One ndjson line per case. *)
EXTENDS MCRachfordRice, Json, IOUtils, SequencesExt
All == MCInputs \cup Extreme \cup Degenerate
Case(i) == LET r == Run(i.z, i.k, i.betaIn) IN
           [z |-> i.z, k |-> i.k, betaIn |-> i.betaIn, status |-> r[1],
            beta |-> IF r[1] = "Ok" THEN r[2] ELSE "NaN", iterations |-> IF r[1] = "Ok" THEN r[3] ELSE 0, converged |-> IF r[1] = "Ok" THEN r[4] ELSE FALSE]
Plan == {Case(i) : i \in All}
ASSUME /\ ndJsonSerialize(IOEnv.PLAN, SetToSeq(Plan))
       /\ PrintT(<<"PLAN", Cardinality(Plan), Cardinality({c \in Plan : c.status = "Ok"}), Cardinality({c \in Plan : c.status = "Ok" /\ ~c.converged})>>)
GSpec == (inp = 0 /\ pc = "" /\ st = 0 /\ it = 0 /\ res = 0) /\ [][UNCHANGED vars]_vars
====
