SPECIFICATION Spec
CONSTANTS
  MaxIter = 4
  Variant = "code"
INVARIANTS TypeOK NotConvergedReachable
CHECK_DEADLOCK FALSE
