SPECIFICATION Spec
CONSTANTS
  NP = 5
  MaxFails = 1
INVARIANTS
  EquilibriumIsStableWithFailures
CHECK_DEADLOCK FALSE
