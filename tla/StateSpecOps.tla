---------------------------- MODULE StateSpecOps ----------------------------
(***************************************************************************)
(* Which thermodynamic state do the optional inputs of State::new_full /   *)
(* StateBuilder specify (property C03)?  Inputs: T, V, rho (total density),*)
(* rhoi (partial densities), N (total moles), Ni (moles), x (mole          *)
(* fractions), p, h, s, u (molar enthalpy / entropy / internal energy).    *)
(*                                                                         *)
(* Decl: the documented meaning.  Three kinds of redundancy are errors     *)
(* (two density-type inputs; two amount-type inputs; density, amount and   *)
(* volume together; two sources of composition), as is a mixture without   *)
(* composition.  If neither V nor an amount is given the amount defaults   *)
(* to 1 mol.  Among the remaining determinations the documented hierarchy  *)
(* applies:  (T,V,N) > (T,p,N) > (T,p,V,x) > (p,h) > (p,s) > (T,h) > (T,s) *)
(* > (V,u); anything else is undetermined.                                 *)
(* Impl: the and/or_else chain of State::_new and new_full, transcribed.   *)
(***************************************************************************)
EXTENDS Naturals, FiniteSets

Inputs == {"T", "V", "rho", "rhoi", "N", "Ni", "x", "p", "h", "s", "u"}
Undet == [ok |-> FALSE, err |-> "Undetermined"]
Route(r) == [ok |-> TRUE, route |-> r]

\* ---------------------------------------------------------------- declarative
DensityType(S) == S \cap {"rho", "rhoi"}
AmountType(S) == S \cap {"N", "Ni"}
CompSources(S) == S \cap {"rhoi", "Ni", "x"}
Redundant(S) == \/ Cardinality(DensityType(S)) > 1
                \/ Cardinality(AmountType(S)) > 1
                \/ (DensityType(S) # {} /\ AmountType(S) # {} /\ "V" \in S)
                \/ Cardinality(CompSources(S)) > 1
MissingComposition(S, ncomp) == CompSources(S) = {} /\ ncomp > 1
DefaultAmount(S) == "V" \notin S /\ AmountType(S) = {}
AmountKnown(S) == AmountType(S) # {} \/ (DensityType(S) # {} /\ "V" \in S) \/ DefaultAmount(S)
VolumeKnown(S) == "V" \in S \/ (DensityType(S) # {} /\ AmountKnown(S))
Decl(S, ncomp) ==
  IF Redundant(S) \/ MissingComposition(S, ncomp) THEN Undet
  ELSE IF "T" \in S /\ VolumeKnown(S) /\ AmountKnown(S) THEN Route("TVN")
  ELSE IF {"T", "p"} \subseteq S /\ AmountKnown(S) THEN Route("TpN")
  ELSE IF {"T", "p"} \subseteq S /\ VolumeKnown(S) THEN Route("TpVx")
  ELSE IF ~AmountKnown(S) THEN Undet
  ELSE IF {"p", "h"} \subseteq S THEN Route("ph")
  ELSE IF {"p", "s"} \subseteq S THEN Route("ps")
  ELSE IF {"T", "h"} \subseteq S THEN Route("Th")
  ELSE IF {"T", "s"} \subseteq S THEN Route("Ts")
  ELSE IF {"V", "u"} \subseteq S THEN Route("Vu")
  ELSE Undet

\* inputs whose value the returned state must reproduce on each route (amount and composition always)
Iterative(r) == r \in {"TpN", "TpVx", "ph", "ps", "Th", "Ts", "Vu"}
Targets(r) == CASE r = "TVN" -> {"T", "V"} [] r = "TpN" -> {"T", "p"} [] r = "TpVx" -> {"T", "p", "V"}
                [] r = "ph" -> {"p", "h"} [] r = "ps" -> {"p", "s"} [] r = "Th" -> {"T", "h"}
                [] r = "Ts" -> {"T", "s"} [] r = "Vu" -> {"V", "u"}

\* ---------------------------------------------------------------- the code
Impl(S, ncomp) ==
  LET has(i) == i \in S
      rho == has("rho") \/ has("rhoi")
      n0 == has("N") \/ has("Ni")
      n1 == n0 \/ (rho /\ has("V"))
      xsrc == has("rhoi") \/ has("Ni")
      n2 == IF ~has("V") /\ ~n1 THEN TRUE ELSE n1          \* reference amount
      v == has("V") \/ (rho /\ n2)
  IN IF has("rho") /\ has("rhoi") THEN Undet
     ELSE IF has("N") /\ has("Ni") THEN Undet
     ELSE IF rho /\ n0 /\ has("V") THEN Undet
     ELSE IF has("rhoi") /\ has("Ni") THEN Undet
     ELSE IF xsrc /\ has("x") THEN Undet
     ELSE IF ~xsrc /\ ~has("x") /\ ncomp # 1 THEN Undet
     ELSE IF v /\ has("T") /\ n2 THEN Route("TVN")
     ELSE IF has("p") /\ has("T") /\ n2 THEN Route("TpN")
     ELSE IF has("p") /\ has("T") /\ v THEN Route("TpVx")
     ELSE IF has("p") /\ has("h") /\ n2 THEN Route("ph")
     ELSE IF has("p") /\ has("s") /\ n2 THEN Route("ps")
     ELSE IF has("T") /\ has("h") /\ n2 THEN Route("Th")
     ELSE IF has("T") /\ has("s") /\ n2 THEN Route("Ts")
     ELSE IF has("u") /\ has("V") /\ n2 THEN Route("Vu")
     ELSE Undet
================================================================================
