SPECIFICATION Spec
CONSTANTS
  Variant = "code"
INVARIANTS
  FootOnPolyline
  VertexIsOwnFoot
CHECK_DEADLOCK FALSE
