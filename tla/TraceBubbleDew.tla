---------------------------- MODULE TraceBubbleDew ----------------------------
(* Conformance of PhaseEquilibrium::bubble_point / dew_point with BubbleDew.tla (hook H9: one event per action of the module).  Every recorded call
   BDStart .. (the harness's BDCall) is replayed as a behaviour of BubbleDew with the logged data bound to the action's choices: the environment's
   choice of the error class (big, small) is bound to the recorded err_out and the recorded tolerances, compared in IEEE arithmetic by TLC.

   Whether the recorded run IS a behaviour of the module is a binding fact, not a property claim: an event that no action of the module explains
   desynchronises the replay (bd_not_as_modelled; ./check stops with a tool error when the module no longer describes the code).  What C05 / C12
   imply is judged on BDCall, with the module's own state as witness:
     - the API result is the module's result;
     - Ok came from a passed outer convergence test on phases that were just tested not to be copies of each other;
     - the specified composition and the specified T (exactly) or p (to the solver tolerance) are those of the returned phases; the fugacities agree. *)
EXTENDS TraceIO, BubbleDew

VARIABLES l, cnt, sync, tolo, toli, ntol,
          ref   \* first converged result per (system, composition, temperature, bubble | dew): what every other start must reproduce (C12)
bdvars == vars
tvars == <<l, cnt, sync, tolo, toli, ntol, ref, bdvars>>
E == Rec[l]
Ev(name) == l <= NRec /\ E.ev = name /\ l' = l + 1
tols == <<tolo, toli, ntol, ref>>

\* take the module action A under the logged constraints, or record that the module does not explain the event
Bind(A) == \/ (A /\ sync' = sync)
           \/ (~ENABLED A /\ sync' = FALSE /\ UNCHANGED bdvars)

BDStartEv ==
  /\ Ev("BDStart")
  /\ spec' = E.spec /\ given' = E.given
  /\ big' = TRUE /\ small' = FALSE /\ trivial' = FALSE /\ innerc' = FALSE /\ ko' = 0 /\ ki' = 0 /\ steps' = 0
  /\ maxo' = MaxOf(MaxOuterChoices) /\ maxi' = MaxOf(MaxInnerChoices) /\ lastkind' = "none" /\ result' = "none"
  /\ pc' = (IF E.given THEN "iterate" ELSE "idealgas") /\ stage' = (IF E.given THEN "given" ELSE "idealgas")      \* Init, then Start
  /\ sync' = (E.spec = "T" \/ E.given)
  /\ UNCHANGED tols
  /\ cnt' = BumpAll(cnt, {"bd_calls_started", "bd_spec:" \o E.spec \o (IF E.bubble THEN ":bubble" ELSE ":dew") \o (IF E.given THEN ":given" ELSE ":none")})
BDInitEv ==
  /\ Ev("BDInit")
  /\ IF E.stage = "idealgas" THEN Bind(IdealGasStart /\ (E.ok <=> pc' = "iterate"))
                             ELSE Bind(SpinodalStart /\ (E.ok <=> pc' = "iterate"))
  /\ UNCHANGED tols
  /\ cnt' = Bump(cnt, "bd_init:" \o E.stage \o (IF E.ok THEN ":ok" ELSE ":failed"))
BDIterateEv ==
  /\ Ev("BDIterate")
  /\ Bind(StartX2 /\ (E.x2_ok <=> pc' = "trivial0"))
  /\ UNCHANGED tols
  /\ cnt' = BumpAll(cnt, {"bd_attempts", "bd_attempt:" \o stage} \cup (IF E.x2_ok THEN {} ELSE {"bd_starting_x2_failed"}))
BDLoopEv ==
  /\ Ev("BDLoop")
  /\ Bind(Trivial0 /\ maxo' = E.max_outer /\ maxi' = E.max_inner /\ trivial' = E.trivial)
  /\ tolo' = E.tol_outer /\ toli' = E.tol_inner /\ ntol' = E.newton_tol /\ UNCHANGED ref
  /\ cnt' = BumpAll(cnt, IF E.trivial THEN {"bd_trivial_before_loop"} ELSE {})
BDHeadEv ==
  /\ Ev("BDHead")
  /\ Bind(Outer /\ ko' = E.ko + 1 /\ (E.newton <=> pc' = "newton"))
  /\ UNCHANGED tols
  /\ cnt' = Bump(cnt, "bd_outer_iterations")
BDInnerEv ==
  /\ Ev("BDInner")
  /\ Bind(Inner /\ (FLt(E.res, toli) <=> innerc'))
  /\ UNCHANGED tols
  /\ cnt' = BumpAll(cnt, {"bd_inner_steps"} \cup (IF ~FLt(E.res, toli) /\ ki + 1 >= maxi THEN {"bd_inner_loop_exhausted"} ELSE {}))
ErrBound == big' = FLt(ntol, E.err) /\ small' = FLt(E.err, tolo)
BDX2Ev ==
  /\ Ev("BDX2")
  /\ Bind(X2 /\ ErrBound)
  /\ UNCHANGED tols
  /\ cnt' = Bump(cnt, "bd_substitution_steps")
BDNewtonEv ==
  /\ Ev("BDNewton")
  /\ Bind(Newton /\ ErrBound)
  /\ UNCHANGED tols
  /\ cnt' = Bump(cnt, "bd_newton_steps")
BDOuterEv ==
  /\ Ev("BDOuter")
  /\ Bind(TrivialK /\ trivial' = E.trivial /\ ko = E.ko + 1 /\ small = FLt(E.err, tolo))
  /\ UNCHANGED tols
  /\ cnt' = BumpAll(cnt, IF E.trivial THEN {"bd_trivial_in_loop"} ELSE {})
BDFinalEv ==
  /\ Ev("BDFinal")
  /\ Bind(Final /\ (E.ok <=> small))
  /\ UNCHANGED tols
  /\ cnt' = BumpAll(cnt, IF ~E.ok THEN {"bd_loop_exhausted"} ELSE IF lastkind = "subst" THEN {"bd_ok_after_substitution"} ELSE {"bd_ok_after_newton"})
\* bubble_dew is left: by `?` out of one of the fallible steps (the module's Fail), or after an action that already decided the outcome (no step)
BDExitEv ==
  /\ Ev("BDExit")
  /\ IF pc \in FailSites THEN Bind(Fail) ELSE UNCHANGED <<bdvars, sync>>
  /\ UNCHANGED tols
  /\ cnt' = BumpAll(cnt, IF pc \in FailSites THEN {"bd_step_failed:" \o pc} ELSE {})
\* the API's view of the same call
RtolEcho == "1e-15"
BDCall ==
  /\ Ev("BDCall")
  /\ LET info == <<E.case, E.grid, E.guess>>
         asModelled == sync /\ pc = "done"
         n == Len(E.x)
         xs == FSum(E.x)
         default == FLe(tolo, "1e-9")
         collapsed == E.status = "Ok" /\ FLt(E.p1, "1e-100")
         key == E.case \o "|" \o E.grid
         judged == default /\ E.uniq /\ E.dom
         \* pressures are compared relative to the larger of the pressure and 1 % of the bulk modulus of the stiffer phase (as in Equilibrium.tla)
         PS == IF E.status = "Ok" THEN FAdd(FMax(FAbs(E.p1), FAbs(E.p2)), FMul("1e-2", E.K)) ELSE "1"
     IN /\ (asModelled => Report("C05.bubble_dew_result_is_returned", <<info, E.status, result, l>>, E.status = result))
        /\ ((asModelled /\ result = "Ok") =>
              Report("C05.bubble_dew_ok_means_converged", <<info, small, trivial, steps, l>>, small /\ ~trivial /\ steps >= 1))
        /\ ((E.status = "Ok" /\ collapsed /\ E.dom) =>
              /\ Report("C05.result_collapsed_to_zero_pressure", <<"bubble_dew", info, E.p1, l>>, FALSE)
              /\ Report("C12.result_collapsed_to_zero_pressure", <<"bubble_dew", info, E.p1, l>>, FALSE))
        \* the numeric laws are judged inside the quantifier of C05 (critical temperatures within a factor 1.8); the other systems are recorded for their control flow
        /\ ((E.status = "Ok" /\ ~collapsed /\ E.dom) =>
              /\ Report("C05.bubble_dew_keeps_specified_composition", <<info, E.x, E.x1, l>>,
                        \A i \in 1..n : FClose(E.x1[i], FDiv(E.x[i], xs), RtolEcho, "1", "0"))
              /\ Report("C05.phases_share_temperature", <<info, E.T1, E.T2, l>>, E.T1 = E.T2)
              /\ (E.spec = "T" => Report("C05.bubble_dew_keeps_specified_temperature", <<info, E.val, E.T1, l>>, E.T1 = E.val))
              /\ (E.spec = "p" => Report("C05.bubble_dew_keeps_specified_pressure", <<info, E.val, E.p1, E.p2, tolo, l>>,
                                         /\ FClose(E.p1, E.val, "1e-8", PS, FMul("10", tolo))
                                         /\ FClose(E.p2, E.val, "1e-8", PS, FMul("10", tolo))))
              /\ Report("C05.phases_share_pressure", <<info, E.p1, E.p2, tolo, l>>, FClose(E.p1, E.p2, "1e-8", PS, FMul("10", tolo)))
              /\ (default => Report("C05.isofugacity", <<info, E.dlnf, l>>, \A i \in 1..n : FLe(FAbs(E.dlnf[i]), "1e-6")))
              \* not copies of each other, as the library defines it: some partial density deviates by at least 1e-5 (relative)
              /\ (default => Report("C05.phases_are_not_copies", <<info, E.rho1, E.rho2, E.x1, E.x2, l>>,
                        \E i \in 1..n : FLe("1e-5", FAbs(FSub(FDiv(FMul(E.rho2, E.x2[i]), FMul(E.rho1, E.x1[i])), "1")))))
              \* C12: below the lower critical temperature the bubble (dew) point of a composition is unique; every start that converges finds it
              /\ ((judged /\ key \in DOMAIN ref) =>
                    Report("C12.bubble_dew_independent_of_initial_values", <<info, E.spec, <<ref[key].T, ref[key].p, ref[key].x2>>, <<E.T1, E.p1, E.x2>>, l>>,
                           /\ FClose(E.T1, ref[key].T, "1e-7", FAbs(E.T1), "0") /\ FClose(E.p1, ref[key].p, "1e-7", PS, "0")
                           /\ \A i \in 1..n : FClose(E.x2[i], ref[key].x2[i], "1e-7", "1", "0"))))
        /\ ref' = (IF E.status = "Ok" /\ ~collapsed /\ judged /\ key \notin DOMAIN ref THEN ref @@ (key :> [T |-> E.T1, p |-> E.p1, x2 |-> E.x2]) ELSE ref)
        /\ cnt' = BumpAll(cnt, {"bd_calls", "bd_status:" \o E.status} \cup (IF asModelled /\ E.status = result THEN {"bd_as_modelled"} ELSE {"bd_not_as_modelled"})
                      \cup (IF E.status = "Ok" /\ stage = "spinodal" THEN {"bd_ok_from_spinodal_start"} ELSE {})
                      \cup (IF E.dom THEN {"bd_calls_inside_the_quantifier"} ELSE {})
                      \cup (IF E.status = "Ok" /\ judged /\ key \in DOMAIN ref THEN {"bd_compared_with_first_result"} ELSE {}))
  /\ UNCHANGED <<bdvars, sync, tolo, toli, ntol>>

Init2 == /\ l = 1 /\ cnt = NoCount /\ sync = FALSE /\ tolo = "1e-10" /\ toli = "1e-9" /\ ntol = "1e-3" /\ ref = [k \in {} |-> 0]
         /\ pc = "done" /\ spec = "T" /\ given = FALSE /\ stage = "none" /\ big = TRUE /\ small = FALSE /\ trivial = FALSE /\ innerc = FALSE
         /\ ko = 0 /\ ki = 0 /\ steps = 0 /\ maxo = MaxOf(MaxOuterChoices) /\ maxi = MaxOf(MaxInnerChoices) /\ lastkind = "none" /\ result = "none"
Next2 == /\ (BDStartEv \/ BDInitEv \/ BDIterateEv \/ BDLoopEv \/ BDHeadEv \/ BDInnerEv \/ BDX2Ev \/ BDNewtonEv \/ BDOuterEv \/ BDFinalEv \/ BDExitEv \/ BDCall)
         /\ (l' > NRec => PrintT("STATS " \o ToJson(cnt')))
TraceSpec == Init2 /\ [][Next2]_tvars
================================================================================
