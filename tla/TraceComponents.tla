--------------------------- MODULE TraceComponents ---------------------------
(* C09 conformance: base model and transformed model recorded at corresponding states; TLC applies the index map of
   Components.tla to every observable and compares. *)
EXTENDS TraceIO, Components

VARIABLES l, cnt
vars == <<l, cnt>>
E == Rec[l]
Ev(name) == l <= NRec /\ E.ev = name /\ l' = l + 1

RtolPerm == "1e-10"    \* relabelling changes the order of floating-point sums
RtolSolver == "1e-7"   \* derived pure-component quantities go through iterative solvers

Transform ==
  /\ Ev("Transform")
  /\ LET b == E.base
         i == E.img
         m == E.map                       \* image component k <-> base component m[k], 0 = none
         info == <<E.model, E.kind, E.map, E.arg>>
         ks == {k \in 1..Len(m) : m[k] # 0}
         N == FSum(E.N)
         T == E.T
         sc(b0) == FAdd(FAbs(b0), FMul("1e-3", FMul(N, T)))       \* energies: at least 1e-3 N T
         S(law, what, x, y, scale) == Chk("C09." \o law, <<info, what, l>>, x, y, RtolPerm, scale, "0")
     IN
     /\ Report("C09.states_exist", <<info, l>>, b.ok /\ i.ok)
     /\ ((b.ok /\ i.ok) =>
          /\ S(E.kind, "A", i.A, b.A, sc(b.A))
          /\ S(E.kind, "p", i.p, b.p, FAdd(FAbs(b.p), FMul("1e-3", FDiv(FMul(N, T), E.V))))
          /\ S(E.kind, "S", i.S, b.S, FAdd(FAbs(b.S), FMul("1e-3", N)))
          /\ (E.kind \in {"perm", "subset"} => S(E.kind, "max_density", i.maxdens, b.maxdens, FAbs(b.maxdens)))
          /\ \A k \in ks :
               /\ S(E.kind, <<"mu", k>>, i.mu[k], b.mu[m[k]], FAdd(FAbs(b.mu[m[k]]), FMul("1e-3", T)))
               /\ S(E.kind, <<"dmu_dt", k>>, i.dmu_dt[k], b.dmu_dt[m[k]], FAdd(FAbs(b.dmu_dt[m[k]]), "1e-3"))
               /\ S(E.kind, <<"dp_dni", k>>, i.dp_dni[k], b.dp_dni[m[k]], FAdd(FAbs(b.dp_dni[m[k]]), FMul("1e-3", FDiv(T, E.V))))
               /\ (E.kind # "split" => \A k2 \in ks :
                     S(E.kind, <<"dmu_dni", k, k2>>, i.dmu_dni[k][k2], b.dmu_dni[m[k]][m[k2]], FAdd(FAbs(b.dmu_dni[m[k]][m[k2]]), FMul("1e-3", FDiv(T, N)))))
          /\ (Has(E, "derived") =>
                \* no vapor pressure (supercritical component) must be reported by both or by neither
                /\ (IF FIsNaN(E.derived.psat_lib) /\ FIsNaN(E.derived.psat_direct) THEN TRUE
                    ELSE Chk("C09.derived_pure_quantities", <<info, "vapor pressure", l>>, E.derived.psat_lib, E.derived.psat_direct, RtolSolver, FAbs(E.derived.psat_direct), "0"))
                /\ Chk("C09.derived_pure_quantities", <<info, "critical temperature", l>>, E.derived.tc_lib, E.derived.tc_direct, RtolSolver, FAbs(E.derived.tc_direct), "0")))
     /\ cnt' = BumpAll(cnt, {"transforms", "kind:" \o E.kind, "family:" \o E.family}
                  \cup (IF E.opt = 1 THEN {"non_default_options"} ELSE {}) \cup (IF Has(E, "derived") THEN {"derived_pure_checked"} ELSE {}))

Panic == /\ Ev("Panic")
         /\ Report("C09.no_panic", <<E.model, E.kind, E.map, E.msg, l>>, FALSE)
         /\ cnt' = Bump(cnt, "panics")
Init == l = 1 /\ cnt = NoCount
Next == /\ (Transform \/ Panic)
        /\ (l' > NRec => PrintT("STATS " \o ToJson(cnt')))
TraceSpec == Init /\ [][Next]_vars
================================================================================
