--------------------------- MODULE TraceComponents ---------------------------
(* C09 conformance: base model and transformed model recorded at corresponding states; TLC applies the index map of
   Components.tla to every observable and compares. *)
EXTENDS TraceIO, Components

VARIABLES l, cnt
vars == <<l, cnt>>
E == Rec[l]
Ev(name) == l <= NRec /\ E.ev = name /\ l' = l + 1

RtolPerm == "1e-10"    \* relabelling changes the order of floating-point sums
RtolSolver == "1e-7"   \* derived pure-component quantities go through iterative solvers

Transform ==
  /\ Ev("Transform")
  /\ LET b == E.base
         i == E.img
         m == E.map                       \* image component k <-> base component m[k], 0 = none
         info == <<E.model, E.kind, E.map, E.arg>>
         ks == {k \in 1..Len(m) : m[k] # 0}
         N == FSum(E.N)
         T == E.T
         sc(b0) == FAdd(FAbs(b0), FMul("1e-3", FMul(N, T)))       \* energies: at least 1e-3 N T
         S(law, what, x, y, scale) == Chk("C09." \o law, <<info, what, l>>, x, y, RtolPerm, scale, "0")
     IN
     /\ Report("C09.states_exist", <<info, l>>, b.ok /\ i.ok)
     /\ ((b.ok /\ i.ok) =>
          /\ S(E.kind, "A", i.A, b.A, sc(b.A))
          /\ S(E.kind, "p", i.p, b.p, FAdd(FAbs(b.p), FMul("1e-3", FDiv(FMul(N, T), E.V))))
          /\ S(E.kind, "S", i.S, b.S, FAdd(FAbs(b.S), FMul("1e-3", N)))
          /\ (E.kind \in {"perm", "subset"} => S(E.kind, "max_density", i.maxdens, b.maxdens, FAbs(b.maxdens)))
          /\ \A k \in ks :
               /\ S(E.kind, <<"mu", k>>, i.mu[k], b.mu[m[k]], FAdd(FAbs(b.mu[m[k]]), FMul("1e-3", T)))
               /\ S(E.kind, <<"dmu_dt", k>>, i.dmu_dt[k], b.dmu_dt[m[k]], FAdd(FAbs(b.dmu_dt[m[k]]), "1e-3"))
               /\ S(E.kind, <<"dp_dni", k>>, i.dp_dni[k], b.dp_dni[m[k]], FAdd(FAbs(b.dp_dni[m[k]]), FMul("1e-3", FDiv(T, E.V))))
               /\ (E.kind # "split" => \A k2 \in ks :
                     S(E.kind, <<"dmu_dni", k, k2>>, i.dmu_dni[k][k2], b.dmu_dni[m[k]][m[k2]], FAdd(FAbs(b.dmu_dni[m[k]][m[k2]]), FMul("1e-3", FDiv(T, N)))))
          /\ (Has(E, "derived") =>
                \* no vapor pressure (supercritical component) must be reported by both or by neither
                /\ (IF FIsNaN(E.derived.psat_lib) /\ FIsNaN(E.derived.psat_direct) THEN TRUE
                    ELSE Chk("C09.derived_pure_quantities", <<info, "vapor pressure", l>>, E.derived.psat_lib, E.derived.psat_direct, RtolSolver, FAbs(E.derived.psat_direct), "0"))
                /\ Chk("C09.derived_pure_quantities", <<info, "critical temperature", l>>, E.derived.tc_lib, E.derived.tc_direct, RtolSolver, FAbs(E.derived.tc_direct), "0")))
     /\ cnt' = BumpAll(cnt, {"transforms", "kind:" \o E.kind, "family:" \o E.family}
                  \cup (IF E.opt = 1 THEN {"non_default_options"} ELSE {}) \cup (IF Has(E, "derived") THEN {"derived_pure_checked"} ELSE {}))

\* Quantities that mixture algorithms derive from sub-models (C09, last clause): the pure-liquid reference of the activity coefficients and the
\* solvent equilibrium behind Henry constants must be those of the sub-model built directly from the records; Henry constants are indexed by the
\* solutes in component order, and reversing the component order of the model reverses them.
Derived ==
  /\ Ev("Derived")
  /\ LET info == <<E.model, "derived">>
         n == E.n
     IN
     /\ (Has(E, "activity") =>
           LET a == E.activity IN
           \A i \in 1..n :
             /\ (IF FIsNaN(a.ln_phi_pure_direct[i]) \/ FIsNaN(a.ln_phi_pure_lib[i])
                 THEN Report("C09.derived_pure_quantities", <<info, "pure liquid reference exists in both or neither", i, l>>, FIsNaN(a.ln_phi_pure_direct[i]) = FIsNaN(a.ln_phi_pure_lib[i]) \/ \E j \in 1..n : FIsNaN(a.ln_phi_pure_direct[j]))
                 ELSE /\ Chk("C09.derived_pure_quantities", <<info, "ln phi of the pure liquid", i, l>>, a.ln_phi_pure_lib[i], a.ln_phi_pure_direct[i], RtolSolver, FAdd(FAbs(a.ln_phi_pure_direct[i]), "1"), "0")
                      /\ Chk("C09.derived_pure_quantities", <<info, "activity coefficient", i, l>>, a.ln_gamma_lib[i], FSub(a.ln_phi[i], a.ln_phi_pure_direct[i]), RtolSolver,
                             FAdd(FAdd(FAbs(a.ln_phi[i]), FAbs(a.ln_phi_pure_direct[i])), "1"), "0")))
     /\ \A q \in 1..Len(E.henry) :
          LET h == E.henry[q]
              solutes == SelectSeq([k \in 1..n |-> k], LAMBDA k : k \notin {h.solvent[j] : j \in 1..Len(h.solvent)})
              Direct(k) == FMul(FExp(FSub(h.ln_phi_liquid[solutes[k]], h.ln_phi_vapor[solutes[k]])), h.p)
          IN /\ Report("C09.derived_pure_quantities", <<info, "Henry constants exist for the sub-model's equilibrium", h.solvent, h.lib_ok, h.direct_ok, l>>, h.lib_ok = h.direct_ok)
             /\ Report("C09.perm", <<info, "Henry constants of the reversed model exist", h.solvent, h.lib_ok, h.rev_ok, l>>, h.lib_ok = h.rev_ok)
             /\ ((h.lib_ok /\ h.direct_ok) =>
                   /\ Report("C09.derived_pure_quantities", <<info, "one Henry constant per solute", h.solvent, Len(h.lib), l>>, Len(h.lib) = Len(solutes))
                   /\ (Len(h.lib) = Len(solutes) =>
                         \A k \in 1..Len(solutes) : Chk("C09.derived_pure_quantities", <<info, "Henry constant", h.solvent, solutes[k], l>>, h.lib[k], Direct(k), RtolSolver, FAbs(Direct(k)), "0")))
             /\ ((h.lib_ok /\ h.rev_ok /\ Len(h.lib) = Len(h.lib_reversed_model)) =>
                   \A k \in 1..Len(h.lib) : Chk("C09.perm", <<info, "Henry constant, reversed component order", h.solvent, k, l>>, Reverse(h.lib_reversed_model)[k], h.lib[k], RtolSolver, FAbs(h.lib[k]), "0"))
  /\ cnt' = BumpAll(BumpBy(BumpBy(cnt, "henry_constants", Len(SelectSeq(E.henry, LAMBDA h : h.lib_ok /\ h.direct_ok))), "henry_mixed_solvent", Len(SelectSeq(E.henry, LAMBDA h : h.lib_ok /\ Len(h.solvent) > 1))),
                    {"derived_events", "family:" \o E.family} \cup (IF Has(E, "activity") THEN {"activity_coefficients"} ELSE {}))

Panic == /\ Ev("Panic")
         /\ Report("C09.no_panic", <<E.model, E.kind, E.map, E.msg, l>>, FALSE)
         /\ cnt' = Bump(cnt, "panics")
Init == l = 1 /\ cnt = NoCount
Next == /\ (Transform \/ Derived \/ Panic)
        /\ (l' > NRec => PrintT("STATS " \o ToJson(cnt')))
TraceSpec == Init /\ [][Next]_vars
================================================================================
