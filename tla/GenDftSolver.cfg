SPECIFICATION GSpec
CONSTANTS
  MaxStages = 2
  Debug = FALSE
