--------------------------- MODULE TraceEquivalence ---------------------------
(* C08: two code paths for one physical model must return the same residual Helmholtz energy and derivatives.
   Exactness classes (tolerance relative to the natural magnitude of each quantity):
     wrapper        the same code behind a generic container                         1e-13
     bulk           Helmholtz energy functional evaluated for a homogeneous fluid    1e-10
     reimpl-exact   an independent implementation of the same formulas               1e-10
     reimpl-numeric an independent numerical treatment (effective diameters ...)     1e-4 (measured <= 1e-5)
     assoc          closed form vs iterative solver (solver tolerance)               1e-8 *)
EXTENDS TraceIO, PengRobinson

VARIABLES l, cnt
vars == <<l, cnt>>
E == Rec[l]
Ev(name) == l <= NRec /\ E.ev = name /\ l' = l + 1

Tol(class) == CASE class = "wrapper" -> "1e-13" [] class = "bulk" -> "1e-10" [] class = "reimpl-exact" -> "1e-10"
                [] class = "reimpl-numeric" -> "1e-4" [] OTHER -> "1e-8"

Pair ==
  /\ Ev("Pair")
  /\ LET a == E.left
         b == E.right
         N == FSum(E.N)
         T == E.T
         n == Len(E.N)
         tol == Tol(E.class)
         info == <<E.pair, E.T, E.V, E.N>>
         C(what, x, y, floor) == Chk("C08." \o E.class, <<info, what, l>>, x, y, tol, FAdd(FMax(FAbs(x), FAbs(y)), floor), "0")
         eN == FMul("1e-3", FMul(N, T))
     IN
     /\ Report("C08.states_exist", <<info, l>>, a.ok /\ b.ok)
     /\ ((a.ok /\ b.ok) =>
          /\ C("A", a.A, b.A, eN)
          /\ C("p", a.p, b.p, FDiv(eN, E.V))
          /\ C("S", a.S, b.S, FMul("1e-3", N))
          /\ C("dp_dv", a.dp_dv, b.dp_dv, FDiv(eN, FMul(E.V, E.V)))
          /\ C("dp_dt", a.dp_dt, b.dp_dt, FDiv(FMul("1e-3", N), E.V))
          /\ \A i \in 1..n : C(<<"mu", i>>, a.mu[i], b.mu[i], FMul("1e-3", T))
          /\ \A i, j \in 1..n : C(<<"dmu_dni", i, j>>, a.dmu_dni[i][j], b.dmu_dni[i][j], FDiv(FMul("1e-3", T), N))
          /\ (E.class = "wrapper" =>
                /\ Report("C08.wrapper_contributions", <<info, a.names, b.names, l>>, a.names = b.names)
                /\ (a.names = b.names => \A k \in 1..Len(a.contrib) : C(<<"contribution", a.names[k]>>, a.contrib[k], b.contrib[k], eN))))
     /\ cnt' = BumpAll(cnt, {"pairs", "class:" \o E.class, "pair:" \o E.pair})

\* A pure substance written as a binary mixture of two identical components (amounts a N and (1-a) N): the specialised single-component
\* code path of the functional, the general mixture path of the functional and the mixture path of the equation of state describe the
\* same fluid - equal residual A, p, S, dp/dV, dp/dT, and both copies carry the residual chemical potential of the pure substance.
Split ==
  /\ Ev("Split")
  /\ LET p == E.pure  f == E.dup_functional  e == E.dup_eos
         tol == Tol(E.class)
         info == <<E.pair, E.T, E.V, E.N, E.a>>
         eN == FMul("1e-3", FMul(E.N, E.T))
         C(what, x, y, floor) == Chk("C08.split", <<info, what, l>>, x, y, tol, FAdd(FMax(FAbs(x), FAbs(y)), floor), "0")
         Same(tag, d) ==
           /\ C(<<tag, "A">>, p.A, d.A, eN)
           /\ C(<<tag, "p">>, p.p, d.p, FDiv(eN, E.V))
           /\ C(<<tag, "S">>, p.S, d.S, FMul("1e-3", E.N))
           /\ C(<<tag, "dp_dv">>, p.dp_dv, d.dp_dv, FDiv(eN, FMul(E.V, E.V)))
           /\ C(<<tag, "dp_dt">>, p.dp_dt, d.dp_dt, FDiv(FMul("1e-3", E.N), E.V))
           /\ \A i \in 1..2 : C(<<tag, "mu", i>>, p.mu[1], d.mu[i], FMul("1e-3", E.T))
     IN
     /\ Report("C08.states_exist", <<info, l>>, p.ok /\ f.ok /\ e.ok)
     /\ ((p.ok /\ f.ok /\ e.ok) => Same("functional", f) /\ Same("eos", e))
  /\ cnt' = BumpAll(cnt, {"splits"})

Assoc ==
  /\ Ev("Assoc")
  /\ \A k \in 1..3 : Chk("C08.assoc", <<E.pair, E.T, E.rho, k, l>>, E.analytic[k], E.cross[k], "1e-8",
                         FAdd(FMax(FAbs(E.analytic[k]), FAbs(E.cross[k])), IF k = 1 THEN "1e-6" ELSE IF k = 2 THEN FMul("1e-6", E.rho) ELSE FDiv("1e-6", E.T)), "0")
  /\ cnt' = Bump(cnt, "assoc_states")

PengRobinsonSI ==
  /\ Ev("PengRobinsonSI")
  /\ Chk("C08.peng_robinson_closed_form", <<E.tc, E.pc, E.omega, E.kij, E.x, E.T_K, E.v_m3mol, l>>,
         E.p_Pa, Pressure(E.T_K, E.v_m3mol, E.tc, E.pc, E.omega, E.x, E.kij), "1e-9",
         PressureScale(E.T_K, E.v_m3mol, E.tc, E.pc, E.omega, E.x, E.kij), "0")
  /\ cnt' = BumpAll(cnt, {"peng_robinson_states"} \cup (IF E.n > 1 THEN {"peng_robinson_mixtures"} ELSE {}))

Other == /\ (Ev("Skip") \/ Ev("Panic"))
         /\ Report("C08.no_panic", <<E.pair, l>>, E.ev # "Panic")
         /\ cnt' = Bump(cnt, "skipped_or_panic")
Init == l = 1 /\ cnt = NoCount
Next == /\ (Pair \/ Split \/ Assoc \/ PengRobinsonSI \/ Other)
        /\ (l' > NRec => PrintT("STATS " \o ToJson(cnt')))
TraceSpec == Init /\ [][Next]_vars
================================================================================
