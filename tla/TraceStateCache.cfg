SPECIFICATION TraceSpec
CONSTANTS
  NComp = 4
  Variant = "ok"
POSTCONDITION Accepted
CHECK_DEADLOCK FALSE
