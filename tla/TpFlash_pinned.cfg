SPECIFICATION Spec
CONSTANTS
  CycleChoices = {1, 3}
  Variant = "pinned"
INVARIANTS
  TypeOK
  OkConservesFeed
  OkMeansConverged
  NoPhaseSplitOnlyFromStability
  SecondOnlyAfterFirst
  IterBounded
PROPERTIES
  Terminates
CHECK_DEADLOCK FALSE
