SPECIFICATION ISpec
CONSTANTS
  NComp = 1
  Variant = "third_v1"
INVARIANTS
  Inductive
  ByProductsSound
CHECK_DEADLOCK FALSE
