---------------------------- MODULE GenStateCache ----------------------------
(* Spec -> implementation: the case space of C11 enumerated by TLC from StateCache's own
   request alphabet: every history of requests of length <= MaxLen, with State::clone taken
   at every position (c = -1: no clone; c = k: clone after the k-th request, the remaining
   requests go to the clone).  Written as ndjson to the file named by env PLAN. *)
EXTENDS StateCache, Json, IOUtils, SequencesExt
CONSTANT MaxLen
Hist == UNION {[1..k -> Reqs] : k \in 1..MaxLen}
Cases == {[h |-> h, c |-> c] : h \in Hist, c \in -1..(MaxLen - 1)}
Valid == {x \in Cases : x.c < Len(x.h)}
ASSUME /\ ndJsonSerialize(IOEnv.PLAN, SetToSeq(Valid))
       /\ PrintT(<<"PLAN", Cardinality(Valid), Cardinality(Reqs)>>)
GInit == cache = <<>> /\ live = {} /\ pending = <<>> /\ nops = 0 /\ lastret = <<>>
GSpec == GInit /\ [][UNCHANGED vars]_vars
================================================================================
