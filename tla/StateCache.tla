------------------------------ MODULE StateCache ------------------------------
(* Transition system of the State cache; the pure step function is in StateCacheOps. *)
EXTENDS StateCacheOps
CONSTANTS Objs,       \* state objects (object 1 exists initially, others are clone targets)
          Threads,    \* threads sharing the objects
          MaxOps,     \* bound on the number of Get operations
          Granularity \* "get" : lookup+compute+insert atomic (the code);
                      \* "split": lookup and insert are separate critical sections (legal refactoring)
--------------------------------------------------------------------------------
VARIABLES cache,    \* cache[o] : stored key -> symbol
          live,     \* objects that exist
          pending,  \* pending[t] : "idle" or a record of a request between lookup and insert (split)
          nops,     \* number of Gets started
          lastret   \* last <<request, returned symbol>> (observation only)
vars == <<cache, live, pending, nops, lastret>>

Live(o) == o \in live

Init == /\ cache = [o \in Objs |-> Empty]
        /\ live = {1}
        /\ pending = [t \in Threads |-> Idle]
        /\ nops = 0
        /\ lastret = <<>>

\* the code: one critical section
Get(o, t, r) ==
  /\ Granularity = "get" /\ Live(o) /\ ~pending[t].busy /\ nops < MaxOps
  /\ LET s == Step(cache[o], r) IN
       /\ cache' = [cache EXCEPT ![o] = s.cache]
       /\ lastret' = <<r, s.ret>>
  /\ nops' = nops + 1
  /\ UNCHANGED <<pending, live>>

\* split granularity: lookup; on a miss compute outside the lock; insert later
Lookup(o, t, r) ==
  /\ Granularity = "split" /\ Live(o) /\ ~pending[t].busy /\ nops < MaxOps
  /\ nops' = nops + 1
  /\ UNCHANGED live
  /\ IF Hit(cache[o], r)
     THEN /\ lastret' = <<r, cache[o][LookupKey(r)]>>
          /\ UNCHANGED <<cache, pending>>
     ELSE /\ pending' = [pending EXCEPT ![t] = [busy |-> TRUE, obj |-> o, req |-> r]]
          /\ UNCHANGED <<cache, lastret>>
Insert(t) ==
  /\ pending[t].busy
  /\ LET o == pending[t].obj
         r == pending[t].req
         c2 == Fill(cache[o], r)
     IN /\ cache' = [cache EXCEPT ![o] = c2]
        /\ lastret' = <<r, c2[LookupKey(r)]>>
  /\ pending' = [pending EXCEPT ![t] = Idle]
  /\ UNCHANGED <<nops, live>>

\* State::clone copies the map under the source's lock
Clone(o, o2) ==
  /\ Live(o) /\ ~Live(o2)
  /\ cache' = [cache EXCEPT ![o2] = cache[o]]
  /\ live' = live \cup {o2}
  /\ UNCHANGED <<pending, nops, lastret>>

Next == \/ \E o \in Objs, t \in Threads, r \in Reqs : Get(o, t, r) \/ Lookup(o, t, r)
        \/ \E t \in Threads : Insert(t)
        \/ \E o, o2 \in Objs : Clone(o, o2)

Spec == Init /\ [][Next]_vars

--------------------------------------------------------------------------------
\* Properties (C11)
CacheSound  == \A o \in Objs : Live(o) => \A k \in DOMAIN cache[o] : cache[o][k] = Sym(k)
ReturnSound == lastret # <<>> => lastret[2] = Sym(lastret[1])
\* an entry, once stored, never denotes a different derivative
Stable == [][\A o \in Objs : (Live(o) /\ Live(o)') =>
               \A k \in DOMAIN cache[o] : k \in DOMAIN cache[o]' /\ cache[o]'[k] = cache[o][k]]_vars
TypeOK == /\ \A o \in Objs : Live(o) => DOMAIN cache[o] \subseteq Keys
          /\ nops \in 0..MaxOps
================================================================================
