SPECIFICATION TraceSpec
CONSTANTS
  Calibrate = FALSE
  MaxOuterChoices = {0, 2, 3, 400}
  MaxInnerChoices = {0, 1, 5}
  TolAboveNewton = TRUE
POSTCONDITION Accepted
CHECK_DEADLOCK FALSE
