---------------------------- MODULE IndStateCache ----------------------------
(***************************************************************************)
(* Inductiveness of cache soundness, checked exhaustively by TLC: the      *)
(* initial states are ALL sound caches (every subset of the canonical keys *)
(* with the value its key denotes), one step is any request.  If every     *)
(* successor is sound again and every returned value is the one the        *)
(* request denotes, then soundness holds after histories of any length,    *)
(* for any number of objects (a clone copies a sound cache) and any        *)
(* schedule that respects the mutex (StateCache.tla explores the           *)
(* interleavings; here the step function is what matters).                 *)
(***************************************************************************)
EXTENDS StateCacheOps

CanonKeys == {k \in Keys : k[1] = "M" => Rank(k[2]) <= Rank(k[3])}
SoundCaches == {[k \in S |-> Sym(k)] : S \in SUBSET CanonKeys}

VARIABLE c
Sound(cc) == \A k \in DOMAIN cc : cc[k] = Sym(k)

IInit == c \in SoundCaches
INext == UNCHANGED c          \* the step is quantified inside the invariant: no successor states are needed
ISpec == IInit /\ [][INext]_c

\* from EVERY sound cache, EVERY request returns what it denotes and leaves a sound cache with canonical keys only
Inductive == \A r \in Reqs : LET s == Step(c, r) IN
               /\ Sound(s.cache) /\ DOMAIN s.cache \subseteq CanonKeys
               /\ s.ret = Sym(LookupKey(r))
               /\ (s.hit <=> LookupKey(r) \in DOMAIN c)
\* by-products of one evaluation are what their keys denote (the lemma the induction rests on), for every request
ByProductsSound == \A r \in Reqs : \A p \in Inserted(r) : p[2] = Sym(p[1]) /\ p[1] \in CanonKeys

================================================================================
