--------------------------- MODULE GenParameterDB ---------------------------
(* Spec -> implementation for C14: the case spaces enumerated by TLC from ParameterDB's own sets
   (every file order, every query incl. repeats and absentees, every visibility pattern of the queried
   identifier kind; every orientation pattern of the binary file; pairs of files), written as ndjson. *)
EXTENDS ParameterDB, Json, IOUtils, SequencesExt
SetSeq(S) == SetToSeq(S)
ToSeqOfSet(S) == SetToSeq(S)
Single == {[q |-> qq, file |-> f, vis |-> SetToSeq(v)] : qq \in Queries, f \in Files, v \in SUBSET Subst}
Pairs == {p \in Subst \X Subst : p[1] < p[2]}
Orient == [Pairs -> {0, 1, 2}]     \* 0 absent, 1 stored (a,b), 2 stored (b,a)
BFile(o) == LET ps == SetToSeq({p \in Pairs : o[p] # 0})
            IN [k \in 1..Len(ps) |-> IF o[ps[k]] = 1 THEN <<ps[k][1], ps[k][2]>> ELSE <<ps[k][2], ps[k][1]>>]
NoDupQ == {qq \in Queries : ~HasDup(qq)}
Binary == {[q |-> qq, bfile |-> BFile(o)] : qq \in NoDupQ, o \in Orient}
Small == {1, 2, 3}
SFiles == UNION {Perms(S) : S \in SUBSET Small}
SQueries == UNION {[1..k -> Small] : k \in 1..2}
Multi == {[q1 |-> a, f1 |-> f, q2 |-> b, f2 |-> g] : a \in SQueries, b \in SQueries, f \in SFiles, g \in SFiles}
SegTypes == {"A", "B", "P"}      \* P is a polar / associating segment type
SegSeqs == UNION {[1..k -> SegTypes] : k \in 1..4}
SegPlan == {[segs |-> s] : s \in SegSeqs}
ASSUME /\ ndJsonSerialize(IOEnv.PLAN \o "_segments.ndjson", SetToSeq(SegPlan))
       /\ ndJsonSerialize(IOEnv.PLAN \o "_single.ndjson", SetToSeq(Single))
       /\ ndJsonSerialize(IOEnv.PLAN \o "_binary.ndjson", SetToSeq(Binary))
       /\ ndJsonSerialize(IOEnv.PLAN \o "_multi.ndjson", SetToSeq(Multi))
       /\ PrintT(<<"PLAN", Cardinality(Single), Cardinality(Binary), Cardinality(Multi)>>)
GSpec == (q = <<>> /\ file = <<>> /\ visible = {} /\ queried = {} /\ hits = {} /\ pos = 0 /\ result = <<>>) /\ [][UNCHANGED vars]_vars
=============================================================================
