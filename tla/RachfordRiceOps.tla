--------------------------- MODULE RachfordRiceOps ---------------------------
(***************************************************************************)
(* The Rachford-Rice solver of the isothermal flash                        *)
(* (feos-core/src/phase_equilibria/tp_flash.rs, fn rachford_rice),         *)
(* transcribed statement by statement over IEEE doubles (module Float64).  *)
(*                                                                         *)
(* Given a feed z (mole fractions) and K-factors K_i = y_i / x_i, find the *)
(* vapor fraction beta with  g(beta) = sum_i z_i (K_i - 1) / (1 - beta +   *)
(* beta K_i) = 0.  A root in (0,1) exists iff sum z K > 1 and sum z/K > 1. *)
(* The code brackets the root, takes at most 10 safeguarded Newton steps   *)
(* and returns Ok(beta) -- also when the 10 steps did not converge.        *)
(*                                                                         *)
(* The module is used three ways:                                          *)
(*  - model checking (MCRachfordRice.cfg): all runs for a finite set of    *)
(*    inputs; invariants below;                                            *)
(*  - plan generation (GenRachfordRice): Run(input) is the outcome the     *)
(*    specification predicts, replayed against the real function through   *)
(*    hook H7;                                                             *)
(*  - trace validation (TraceRachfordRice): recorded outcomes must equal   *)
(*    the prediction and satisfy the laws.                                 *)
(***************************************************************************)
EXTENDS Naturals, Sequences, Float64

MaxIter == 10
AbsTol == "1e-6"

\* ---- pure operators (one per statement group of the code)
Idx(z) == 1..Len(z)
SumZK(z, k) == FSum([i \in Idx(z) |-> FMul(z[i], k[i])])
\* (feed / k).iter().filter(|x| !x.is_nan()).sum()
SumZoverK(z, k) == LET q == [i \in Idx(z) |-> FDiv(z[i], k[i])]
                       keep == SelectSeq(q, LAMBDA x : ~FIsNaN(x))
                   IN FSum(keep)
SolutionExists(z, k) == FLt("1", SumZK(z, k)) /\ FLt("1", SumZoverK(z, k))

\* tighter bounds: a left fold over the components, exactly in the order of the code
RECURSIVE Bounds(_, _, _, _, _)
Bounds(z, k, i, bmin, bmax) ==
  IF i > Len(z) THEN <<bmin, bmax>>
  ELSE LET b1 == FDiv(FSub(FMul(k[i], z[i]), "1"), FSub(k[i], "1"))
           lo == IF FLt("1", k[i]) /\ FLt(bmin, b1) THEN b1 ELSE bmin
           b2 == FDiv(FSub("1", z[i]), FSub("1", k[i]))
           hi == IF FLt(k[i], "1") /\ FLt(b2, bmax) THEN b2 ELSE bmax
       IN Bounds(z, k, i + 1, lo, hi)

Frac(k, beta, i) == FDiv(FSub(k[i], "1"), FAdd(FSub("1", beta), FMul(beta, k[i])))
G(z, k, beta) == FSum([i \in Idx(z) |-> FMul(z[i], Frac(k, beta, i))])
DG(z, k, beta) == FNeg(FSum([i \in Idx(z) |-> FMul(FMul(z[i], Frac(k, beta, i)), Frac(k, beta, i))]))

\* the state after initialisation: record [beta, bmin, bmax]
InitState(z, k, betaIn) ==
  LET bb == Bounds(z, k, 1, "0", "1")
      mid == FMul("0.5", FAdd(bb[1], bb[2]))
      beta == IF betaIn # "none" /\ FLt(bb[1], betaIn) /\ FLt(betaIn, bb[2]) THEN betaIn ELSE mid
      g == G(z, k, beta)
  IN [beta |-> beta, bmin |-> IF FLt("0", g) THEN beta ELSE bb[1], bmax |-> IF FLt("0", g) THEN bb[2] ELSE beta,
      dbeta |-> "Infinity", usedIn |-> (beta = betaIn)]

\* one iteration of the loop
StepIter(z, k, s) ==
  LET g == G(z, k, s.beta)
      dg == DG(z, k, s.beta)
      bmin == IF FLt("0", g) THEN s.beta ELSE s.bmin
      bmax == IF FLt("0", g) THEN s.bmax ELSE s.beta
      dbeta == FDiv(g, dg)
      nb == FSub(s.beta, dbeta)
      beta == IF FLt(nb, bmin) \/ FLt(bmax, nb) THEN FMul("0.5", FAdd(bmin, bmax)) ELSE nb
  IN [beta |-> beta, bmin |-> bmin, bmax |-> bmax, dbeta |-> dbeta, usedIn |-> s.usedIn]
Converged(s) == FLt(FAbs(s.dbeta), AbsTol)

\* the whole function: <<"Err">> or <<"Ok", beta, iterations, converged>>
RECURSIVE Loop(_, _, _, _)
Loop(z, k, s, it) ==
  IF it = MaxIter THEN <<"Ok", s.beta, it, FALSE>>
  ELSE LET s2 == StepIter(z, k, s) IN
       IF Converged(s2) THEN <<"Ok", s2.beta, it + 1, TRUE>> ELSE Loop(z, k, s2, it + 1)
Run(z, k, betaIn) == IF ~SolutionExists(z, k) THEN <<"Err">> ELSE Loop(z, k, InitState(z, k, betaIn), 0)

\* ---- laws on an outcome (used by the trace specification on what the real code returned)
\* the returned beta is a root of g to the accuracy the step criterion implies: |g| <= AbsTol |g'|  (one Newton step is below AbsTol)
IsRoot(z, k, beta, slack) == FLe(FAbs(G(z, k, beta)), FMul(slack, FMul(AbsTol, FAbs(DG(z, k, beta)))))
InsideBounds(z, k, beta) == LET bb == Bounds(z, k, 1, "0", "1") IN FLe(bb[1], beta) /\ FLe(beta, bb[2])
================================================================================
