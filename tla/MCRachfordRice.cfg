SPECIFICATION Spec
CONSTANTS
  Inputs <- MCInputs
INVARIANTS
  BracketKept
  ErrIffNoSolution
  StateMachineIsFunction
  OkInsideBounds
  OkImpliesConverged
  OkImpliesRoot
PROPERTIES
  BracketShrinks
CHECK_DEADLOCK FALSE
