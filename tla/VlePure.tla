-------------------------------- MODULE VlePure --------------------------------
(* Control flow of the pure-component phase equilibrium (feos-core/src/phase_equilibria/vle_pure.rs: pure_t with iterate_pure_t, pure_p), one action
   per step of the code.  The thermodynamics is abstracted to what the control flow looks at:

     conv      the convergence test of the current iteration passed (|p_new - p_old| < p_old tol;  |delta_t| < T tol)
     trivial   the last is_trivial_solution / check_trivial_solution test found two copies of one phase

   Temperature specification: a cascade of three initialisations - the supplied state moved to T | the ideal-gas estimate | the spinodal estimate -
   where every error of the first two (of the initialisation or of the iteration started from it) is swallowed by `.ok()` and the error of the call
   is the error of the last one.  Pressure specification: the supplied state moved to p and tested not to be trivial, else init_pure_p (its error is
   final); one loop whose step is either a Newton update of both densities or, when that would be unphysical, a density iteration.

   Bound to the code by hook H10 (TraceVlePure.tla replays every recorded call as a behaviour of this module). *)
EXTENDS Naturals, TLC
CONSTANTS
  \* @type: Set(Int);
  MaxIterChoices    \* possible values of options.max_iter (default 50)
VARIABLES
  \* @type: Str;
  pc,        \* where the code is
  \* @type: Str;
  spec,      \* "T" | "p"
  \* @type: Bool;
  given,     \* an initial state was supplied
  \* @type: Str;
  stage,     \* "none" | "given" | "idealgas" | "spinodal" | "init_p"
  \* @type: Bool;
  conv,
  \* @type: Bool;
  trivial,
  \* @type: Int;
  i,         \* iterations started in this attempt
  \* @type: Int;
  maxit,
  \* @type: Str;
  result     \* "none" | "Ok" | "TrivialSolution" | "NotConverged" | "IterationFailed" | "Error"
vars == <<pc, spec, given, stage, conv, trivial, i, maxit, result>>
MaxOf(S) == CHOOSE m \in S : \A k \in S : k <= m

Init == /\ pc = "start" /\ spec \in {"T", "p"} /\ given \in BOOLEAN /\ stage = "none" /\ conv = FALSE /\ trivial = FALSE /\ i = 0
        /\ maxit \in MaxIterChoices /\ result = "none"
Finish(r) == pc' = "done" /\ result' = r
\* pure_t: the end of one attempt (initialisation or iteration): Ok is final; an error moves on to the next initialisation, the last one's error is final
NextStage == CASE stage = "given" -> "idealgas" [] stage = "idealgas" -> "spinodal" [] OTHER -> "none"
EndAttemptT(r) ==
  IF r = "Ok" \/ stage = "spinodal" THEN Finish(r) /\ UNCHANGED stage
  ELSE pc' = "init" /\ stage' = NextStage /\ UNCHANGED result

Start ==
  /\ pc = "start"
  /\ IF spec = "T" THEN pc' = "init" /\ stage' = (IF given THEN "given" ELSE "idealgas")
                   ELSE pc' = "init_p" /\ stage' = (IF given THEN "given" ELSE "init_p")
  /\ UNCHANGED <<spec, given, conv, trivial, i, maxit, result>>

\* init_pure_state | init_pure_ideal_gas (ends in check_trivial_solution) | init_pure_spinodal
InitT ==
  /\ pc = "init" /\ spec = "T"
  /\ \/ /\ pc' = "loop" /\ i' = 0 /\ conv' = FALSE /\ UNCHANGED <<stage, result>>
     \/ /\ EndAttemptT("Error") /\ UNCHANGED <<i, conv>>
  /\ UNCHANGED <<spec, given, trivial, maxit>>

\* `for i in 1..=max_iter` of iterate_pure_t: the next iteration, or NotConverged when the iterations are used up
LoopT ==
  /\ pc = "loop" /\ spec = "T"
  /\ IF i >= maxit THEN EndAttemptT("NotConverged") /\ UNCHANGED i
     ELSE i' = i + 1 /\ pc' = "step" /\ UNCHANGED <<stage, result>>
  /\ UNCHANGED <<spec, given, conv, trivial, maxit>>
\* one iteration: the pressure estimate (equal areas; ideal-gas repair when negative; up to 20 Newton steps) with the emergency brake on NaN, the Newton
\* step of both densities with two State::new_pure (?), the trivial-solution test, the convergence test
StepT ==
  /\ pc = "step"
  /\ \/ /\ EndAttemptT("IterationFailed") /\ UNCHANGED <<trivial, conv>>
     \/ /\ EndAttemptT("Error") /\ UNCHANGED <<trivial, conv>>
     \/ /\ trivial' = TRUE /\ EndAttemptT("TrivialSolution") /\ UNCHANGED conv
     \/ /\ trivial' = FALSE /\ conv' = TRUE /\ EndAttemptT("Ok")
     \/ /\ trivial' = FALSE /\ conv' = FALSE /\ pc' = "loop" /\ UNCHANGED <<stage, result>>
  /\ UNCHANGED <<spec, given, i, maxit>>

\* pure_p: the supplied state at the new pressure, tested; any failure -> init_pure_p, whose error is the error of the call
InitP ==
  /\ pc = "init_p" /\ spec = "p"
  /\ IF stage = "given"
     THEN \/ /\ pc' = "loop_p" /\ i' = 0 /\ conv' = FALSE /\ trivial' = FALSE /\ UNCHANGED <<stage, result>>
          \/ /\ stage' = "init_p" /\ UNCHANGED <<pc, i, conv, trivial, result>>
     ELSE \/ /\ pc' = "loop_p" /\ i' = 0 /\ conv' = FALSE /\ UNCHANGED <<stage, trivial, result>>
          \/ /\ Finish("Error") /\ UNCHANGED <<stage, i, conv, trivial>>
  /\ UNCHANGED <<spec, given, maxit>>
LoopP ==
  /\ pc = "loop_p"
  /\ IF i >= maxit THEN Finish("NotConverged") /\ UNCHANGED i
     ELSE i' = i + 1 /\ pc' = "step_p" /\ UNCHANGED result
  /\ UNCHANGED <<spec, given, stage, conv, trivial, maxit>>
\* one iteration: density iteration + trivial test (both ?) or Newton update (?), then the convergence test; converged -> check_trivial_solution
StepP ==
  /\ pc = "step_p"
  /\ \/ /\ Finish("Error") /\ UNCHANGED <<trivial, conv>>
     \/ /\ trivial' = TRUE /\ Finish("TrivialSolution") /\ UNCHANGED conv            \* inside the density-iteration branch, or at the end
     \/ /\ trivial' = FALSE /\ conv' = TRUE /\ Finish("Ok")
     \/ /\ trivial' = FALSE /\ conv' = FALSE /\ pc' = "loop_p" /\ UNCHANGED result
  /\ UNCHANGED <<spec, given, stage, i, maxit>>

Next == Start \/ InitT \/ LoopT \/ StepT \/ InitP \/ LoopP \/ StepP
Spec == Init /\ [][Next]_vars /\ WF_vars(Next)

TypeOK == /\ pc \in {"start", "init", "loop", "step", "init_p", "loop_p", "step_p", "done"}
          /\ spec \in {"T", "p"} /\ given \in BOOLEAN /\ stage \in {"none", "given", "idealgas", "spinodal", "init_p"}
          /\ conv \in BOOLEAN /\ trivial \in BOOLEAN /\ i \in 0..MaxOf(MaxIterChoices) /\ maxit \in MaxIterChoices
          /\ result \in {"none", "Ok", "TrivialSolution", "NotConverged", "IterationFailed", "Error"}
OkMeansConverged == result = "Ok" => conv /\ ~trivial /\ i >= 1
NotConvergedIsHonest == result = "NotConverged" => ~conv /\ i = maxit
CascadeOrder == /\ (stage = "given" => given)
                /\ (spec = "T" => stage \in {"none", "given", "idealgas", "spinodal"})
                /\ (spec = "p" => stage \in {"none", "given", "init_p"})
ErrorOnlyFromLastStage == (spec = "T" /\ pc = "done" /\ result # "Ok") => stage = "spinodal"
Bounded == i <= maxit
Terminates == <>(pc = "done")

\* ---- unbounded: an inductive invariant for ANY max_iter (checked by Apalache, see ApaVlePure.tla)
IndInv ==
  /\ pc \in {"start", "init", "loop", "step", "init_p", "loop_p", "step_p", "done"}
  /\ spec \in {"T", "p"} /\ given \in BOOLEAN /\ stage \in {"none", "given", "idealgas", "spinodal", "init_p"}
  /\ conv \in BOOLEAN /\ trivial \in BOOLEAN /\ i \in Nat /\ maxit \in Nat
  /\ result \in {"none", "Ok", "TrivialSolution", "NotConverged", "IterationFailed", "Error"}
  /\ (result # "none" => pc = "done")
  /\ (pc = "start" => stage = "none")
  /\ (result = "Ok" => conv /\ ~trivial /\ i >= 1)
  /\ (result = "NotConverged" => ~conv /\ i = maxit)
  /\ (stage = "given" => given)
  /\ (pc \in {"init", "loop", "step"} => spec = "T" /\ stage \in {"given", "idealgas", "spinodal"})
  /\ (pc \in {"init_p", "loop_p", "step_p"} => spec = "p" /\ stage \in {"given", "init_p"})
  /\ ((spec = "T" /\ pc = "done" /\ result # "Ok") => stage = "spinodal")
  /\ (pc \in {"loop", "loop_p"} => ~conv /\ i <= maxit)
  /\ (pc \in {"step", "step_p"} => ~conv /\ i >= 1 /\ i <= maxit)
IndInit == IndInv
================================================================================
