SPECIFICATION GSpec
CONSTANTS
  Inputs <- MCInputs
