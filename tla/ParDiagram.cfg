SPECIFICATION Spec
CONSTANTS
  N = 5
  Workers = {1, 2, 3}
  Assemble = "by_index"
INVARIANT SameAsSequential
CHECK_DEADLOCK FALSE
