------------------------------- MODULE Estimator -------------------------------
(***************************************************************************)
(* The parameter estimator (src/estimator) and entropy scaling, as an      *)
(* explicit specification (C20).                                           *)
(*   loss:   cost(r) = sqrt(f^2 rho(z)),  z = r^2 / f^2                    *)
(*           Linear rho = z;  SoftL1 rho = 2(sqrt(1+z) - 1);               *)
(*           Huber rho = z if z <= 1 else 2 sqrt(z) - 1;                   *)
(*           Cauchy rho = ln(1+z);  Arctan rho = arctan z                  *)
(*   data set: relative difference r_i = (predict_i - target_i)/target_i;  *)
(*           cost_i = loss(r_i) / n                                        *)
(*   estimator: the costs of data set k are multiplied by w_k / sum(w)     *)
(*   entropy scaling: property = reference * exp(correlation(s_res, x))    *)
(***************************************************************************)
EXTENDS Naturals, Sequences, Float64

Rho(kind, z) == CASE kind = "linear" -> z
                  [] kind = "softl1" -> FMul("2", FSub(FSqrt(FAdd("1", z)), "1"))
                  [] kind = "huber" -> IF FLe(z, "1") THEN z ELSE FSub(FMul("2", FSqrt(z)), "1")
                  [] kind = "cauchy" -> FLn(FAdd("1", z))
                  [] kind = "arctan" -> FAtan(z)
LossValue(kind, f, r) == LET ff == IF kind = "linear" THEN "1" ELSE f
                             z == FDiv(FMul(r, r), FMul(ff, ff))
                         IN FSqrt(FMul(FMul(ff, ff), Rho(kind, z)))

\* ---- the Estimator object: an ordered list of entries [ds, w, loss, f]; `new` takes any number of entries, `add_data` appends one.
\* The cost vector is the concatenation, in entry order, of loss(r)/n_k scaled by w_k / (sum of ALL current weights) - whatever the
\* construction history was.
EstNew(entries) == entries
EstAdd(est, e) == Append(est, e)
EstWeightSum(est) == FSum([k \in 1..Len(est) |-> est[k].w])
\* r: per entry the sequence of relative differences of its data set
EstCostOf(est, r, k, i) == FMul(FDiv(LossValue(est[k].loss, est[k].f, r[k][i]), FOfInt(Len(r[k]))), FDiv(est[k].w, EstWeightSum(est)))
RECURSIVE EstCostFrom(_, _, _)
EstCostFrom(est, r, k) == IF k > Len(est) THEN <<>> ELSE [i \in 1..Len(r[k]) |-> EstCostOf(est, r, k, i)] \o EstCostFrom(est, r, k + 1)
EstCost(est, r) == EstCostFrom(est, r, 1)
================================================================================
