--------------------------- MODULE PolylineDistance ---------------------------
(* The residual of the BinaryPhaseDiagram data set (src/estimator/binary_vle.rs, fn predict_distance), transcribed statement by statement
   over Float64: an experimental point (x, tp) is compared with the polyline through the model's phase diagram (x_k, tp_k) in the scaled plane
   (x, tp_k / tp); the point itself sits at (x, 1).  The data set reports (x0 - x + 1, y0) of the chosen foot point (x0, y0), target (1, 1).

   Variant "code"  – the function as written: only projections strictly inside a segment (0 < t < 1) count; otherwise the first vertex
                     between a segment with t > 1 and a segment with t < 0; otherwise the first or the second to last (sic) vertex.
   Variant "fixed" – projections with 0 <= t <= 1 count (a point that IS a vertex of the diagram is its own foot point).
   Everything else is identical, so the two variants differ exactly where a parameter t equals 0 or 1. *)
EXTENDS Float64, Sequences, Naturals, FiniteSets

\* scaled ordinate of vertex i
YV(tpv, tp, i) == FDiv(tpv[i], tp)
DX(xv, i) == FSub(xv[i + 1], xv[i])
DY(tpv, tp, i) == FSub(YV(tpv, tp, i + 1), YV(tpv, tp, i))
\* parameter of the orthogonal projection of (x, 1) on the line through vertices i, i+1
TPar(xv, tpv, x, tp, i) ==
  LET dx == DX(xv, i)
      dy == DY(tpv, tp, i)
  IN FDiv(FAdd(FMul(FSub(x, xv[i]), dx), FMul(FSub("1", YV(tpv, tp, i)), dy)), FAdd(FMul(dx, dx), FMul(dy, dy)))
FootX(xv, tpv, x, tp, i) == FAdd(FMul(TPar(xv, tpv, x, tp, i), DX(xv, i)), xv[i])
FootY(xv, tpv, x, tp, i) == FAdd(FMul(TPar(xv, tpv, x, tp, i), DY(tpv, tp, i)), YV(tpv, tp, i))
Dist2(xv, tpv, x, tp, i) ==
  LET ex == FSub(FootX(xv, tpv, x, tp, i), x)
      ey == FSub(FootY(xv, tpv, x, tp, i), "1")
  IN FAdd(FMul(ex, ex), FMul(ey, ey))

Inside(variant, t) == IF variant = "code" THEN FLt("0", t) /\ FLt(t, "1") ELSE FLe("0", t) /\ FLe(t, "1")

\* Iterator::reduce(|(k1,d1),(k2,d2)| if d1 < d2 {(k1,d1)} else {(k2,d2)}) over the candidates in index order
RECURSIVE Reduce(_, _, _)
Reduce(cands, d, acc) ==
  IF cands = <<>> THEN acc
  ELSE LET k == Head(cands) IN Reduce(Tail(cands), d, IF FLt(d[acc], d[k]) THEN acc ELSE k)

SelectSeq2(n, P(_)) == LET F[i \in 0..n] == IF i = 0 THEN <<>> ELSE IF P(i) THEN Append(F[i - 1], i) ELSE F[i - 1] IN F[n]

\* branch taken and foot point: <<branch, x0, y0>>
Foot(variant, xv, tpv, x, tp) ==
  LET m == Len(xv) - 1                                   \* number of segments
      t == [i \in 1..m |-> TPar(xv, tpv, x, tp, i)]
      d == [i \in 1..m |-> Dist2(xv, tpv, x, tp, i)]
      cands == SelectSeq2(m, LAMBDA i : Inside(variant, t[i]))
      wedge == {i \in 1..(m - 1) : FLt("1", t[i]) /\ FLt(t[i + 1], "0")}
  IN IF cands # <<>>
     THEN LET k == Reduce(Tail(cands), d, Head(cands)) IN <<"projection", FootX(xv, tpv, x, tp, k), FootY(xv, tpv, x, tp, k)>>
     ELSE IF wedge # {}
     THEN LET i == CHOOSE j \in wedge : \A q \in wedge : j <= q IN <<"wedge", xv[i + 1], YV(tpv, tp, i + 1)>>
     ELSE IF FLt(FAbs(t[1]), FAbs(t[m])) THEN <<"first", xv[1], YV(tpv, tp, 1)>>
     ELSE <<"last", xv[m], YV(tpv, tp, m)>>             \* the start of the last segment, as written

\* what predict() appends for one experimental point
Residual(variant, xv, tpv, x, tp) ==
  LET f == Foot(variant, xv, tpv, x, tp) IN <<FAdd(FSub(f[2], x), "1"), f[3]>>
Branch(variant, xv, tpv, x, tp) == Foot(variant, xv, tpv, x, tp)[1]

\* the whole prediction: liquid points first (if given), then vapor points
RECURSIVE Flatten(_)
Flatten(s) == IF s = <<>> THEN <<>> ELSE Head(s) \o Flatten(Tail(s))
Predict(variant, xv, tpv, xexp, tpexp) ==
  Flatten([k \in 1..Len(xexp) |-> Residual(variant, xv, tpv, xexp[k], tpexp[k])])
================================================================================
