------------------------------- MODULE Segments -------------------------------
(***************************************************************************)
(* Group-contribution combining rules (C14), declaratively:                *)
(* a molecule is a sequence of segment types (+ optionally a bond list,    *)
(* default: a linear chain in the order given); only the MULTISET of       *)
(* segments and the multiset of bonded type pairs matter.                  *)
(*   homosegmented:  m = sum n_s m_s,  m sigma^3 = sum n_s m_s sigma_s^3,  *)
(*                   m eps = sum n_s m_s eps_s,  M = sum n_s M_s,          *)
(*                   k_ij = sum n_a n_b k_ab / sum n_a n_b,                *)
(*                   at most one polar/associating segment                 *)
(*   heterosegmented: per component one entry per segment TYPE carrying    *)
(*                   n_s m_s, sigma_s, eps_s; bonds counted per unordered  *)
(*                   pair of types.                                        *)
(* table: type name -> [m, sigma, eps, mw, polar]                          *)
(***************************************************************************)
EXTENDS Naturals, Sequences, FiniteSets, Float64, SequencesExt

Types(segs) == {segs[i] : i \in 1..Len(segs)}
Count(segs, t) == Cardinality({i \in 1..Len(segs) : segs[i] = t})
TypeSeq(segs) == SetToSeq(Types(segs))

Weighted(segs, table, W(_)) ==   \* sum over types of n_t * W(table[t])
  LET ts == TypeSeq(segs) IN FSum([k \in 1..Len(ts) |-> FMul(FOfInt(Count(segs, ts[k])), W(table[ts[k]]))])

HomoM(segs, table) == LET W(r) == r.m IN Weighted(segs, table, W)
HomoMW(segs, table) == LET W(r) == r.mw IN Weighted(segs, table, W)
HomoMSigma3(segs, table) == LET W(r) == FMul(r.m, FMul(r.sigma, FMul(r.sigma, r.sigma))) IN Weighted(segs, table, W)
HomoMEps(segs, table) == LET W(r) == FMul(r.m, r.eps) IN Weighted(segs, table, W)
PolarCount(segs, table) == Cardinality({i \in 1..Len(segs) : table[segs[i]].polar})

\* k_ab of an unordered pair of segment types from the binary segment records (either orientation), else 0
Kab(kab, a, b) == IF \E k \in 1..Len(kab) : {kab[k][1], kab[k][2]} = {a, b} /\ (a # b \/ kab[k][1] = kab[k][2])
                  THEN kab[CHOOSE k \in 1..Len(kab) : {kab[k][1], kab[k][2]} = {a, b}][3] ELSE "0"
Kij(segsA, segsB, kab) ==
  LET ta == TypeSeq(segsA)
      tb == TypeSeq(segsB)
      pairs == [p \in 1..(Len(ta) * Len(tb)) |-> <<ta[((p - 1) \div Len(tb)) + 1], tb[((p - 1) % Len(tb)) + 1]>>]
      w == [p \in 1..Len(pairs) |-> FOfInt(Count(segsA, pairs[p][1]) * Count(segsB, pairs[p][2]))]
      k == [p \in 1..Len(pairs) |-> Kab(kab, pairs[p][1], pairs[p][2])]
  IN [num |-> FDot(w, k), den |-> FSum(w), scale |-> FDotAbs(w, k)]

\* bonds: sequence of <<i, j>> (1-based positions); default chain
ChainBonds(segs) == [i \in 1..(Len(segs) - 1) |-> <<i, i + 1>>]
BondCount(segs, bonds, a, b) == Cardinality({k \in 1..Len(bonds) : {segs[bonds[k][1]], segs[bonds[k][2]]} = {a, b}})
================================================================================
