SPECIFICATION TraceSpec
CONSTANTS
  Calibrate = FALSE
POSTCONDITION Accepted
CHECK_DEADLOCK FALSE
