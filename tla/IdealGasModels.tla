---------------------------- MODULE IdealGasModels ----------------------------
(***************************************************************************)
(* Closed forms of the ideal-gas heat-capacity correlations shipped with   *)
(* feos (property C10), in J/(mol K):                                      *)
(*   Joback & Reid polynomial          cp = a + bT + cT^2 + dT^3 + eT^4    *)
(*   DIPPR eq. 100 (polynomial), eq. 107 (Aly-Lee), eq. 127 (Einstein      *)
(*   functions) - DIPPR coefficients are in J/(kmol K).                    *)
(* A mixture's heat capacity is the mole-fraction average.                 *)
(***************************************************************************)
EXTENDS Naturals, Sequences, Float64

Horner(c, T) == \* sum_i c[i] T^(i-1)
  LET RECURSIVE H(_)
      H(i) == IF i > Len(c) THEN "0" ELSE FAdd(c[i], FMul(T, H(i + 1)))
  IN H(1)
CpJoback(c, T) == Horner(c, T)
CpDippr100(c, T) == FDiv(Horner(c, T), "1000")
Sq(x) == FMul(x, x)
CpDippr107(c, T) ==
  LET ct == FDiv(c[3], T)
      et == FDiv(c[5], T)
  IN FDiv(FAdd(FAdd(c[1], FMul(c[2], Sq(FDiv(ct, FSinh(ct))))), FMul(c[4], Sq(FDiv(et, FCosh(et))))), "1000")
Einstein(x) == FDiv(FMul(Sq(x), FExp(x)), Sq(FSub(FExp(x), "1")))
CpDippr127(c, T) ==
  FDiv(FAdd(FAdd(FAdd(c[1], FMul(c[2], Einstein(FDiv(c[3], T)))), FMul(c[4], Einstein(FDiv(c[5], T)))),
            FMul(c[6], Einstein(FDiv(c[7], T)))), "1000")
CpPure(kind, c, T) == CASE kind = "joback" -> CpJoback(c, T)
                        [] kind = "dippr100" -> CpDippr100(c, T)
                        [] kind = "dippr107" -> CpDippr107(c, T)
                        [] kind = "dippr127" -> CpDippr127(c, T)
CpMix(kind, coefs, x, T) == FDot(x, [i \in 1..Len(x) |-> CpPure(kind, coefs[i], T)])
CpMixAbs(kind, coefs, x, T) == FDotAbs(x, [i \in 1..Len(x) |-> CpPure(kind, coefs[i], T)])
RGasSI == FMul("1.380649e-23", "6.02214076e23")
================================================================================
