SPECIFICATION Spec
CONSTANTS
  Variant = "fixed"
INVARIANTS
  FootOnPolyline
  VertexIsOwnFoot
  VariantsDifferOnlyAtVertices
CHECK_DEADLOCK FALSE
