SPECIFICATION ISpec
CONSTANTS
  NComp = 1
  Variant = "ok"
INVARIANTS
  Inductive
  ByProductsSound
CHECK_DEADLOCK FALSE
