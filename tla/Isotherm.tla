------------------------------- MODULE Isotherm -------------------------------
(***************************************************************************)
(* The adsorption-isotherm drivers of feos-dft (adsorption/mod.rs):        *)
(*   isotherm            continuation in pressure: the previous density    *)
(*                       profile is the initial guess; if that solve fails *)
(*                       a fresh (bulk, i.e. vapor-like) initialisation is *)
(*                       tried; a failed point resets the continuation     *)
(*   adsorption_isotherm pressures ascending, start from the vapor         *)
(*   desorption_isotherm pressures descending, start from the liquid,      *)
(*                       result reversed                                   *)
(*   equilibrium_isotherm  (branch taken when phase_equilibrium fails)     *)
(*                       point-wise the branch with the lower grand        *)
(*                       potential; (branch taken when it succeeds)        *)
(*                       adsorption up to p_eq followed by desorption down *)
(*                       to p_eq, p_eq itself twice                        *)
(*                                                                         *)
(* Abstract physics of a pore with one capillary transition, pressures     *)
(* 1..NP: the empty ("V") state exists for p <= ca, the filled ("L") state *)
(* for p >= cd, cd <= peq <= ca, and Omega_L < Omega_V iff p > peq (at     *)
(* p = peq both are equal).  A solve started from a state continues on its *)
(* branch while the branch exists, otherwise it lands on the other one;    *)
(* any solve may fail (set Fails, chosen nondeterministically).            *)
(***************************************************************************)
EXTENDS Naturals, Sequences, FiniteSets

CONSTANTS NP, MaxFails

Branch == {"V", "L"}
Exists(b, p, ca, cd) == IF b = "V" THEN p <= ca ELSE p >= cd
Other(b) == IF b = "V" THEN "L" ELSE "V"
\* where a solve started on branch b ends at pressure p
Land(b, p, ca, cd) == IF Exists(b, p, ca, cd) THEN b ELSE Other(b)
\* 2 Omega (integers): the stable branch has the lower value
Omega2(b, p, peq) == IF b = "V" THEN 0 ELSE 2 * peq - 2 * p       \* Omega_L - Omega_V proportional to (peq - p)
Lower(b1, b2, p, peq) == IF Omega2(b1, p, peq) < Omega2(b2, p, peq) THEN b1 ELSE b2

VARIABLES ca, cd, peq, fails,     \* physics and the failure pattern (fixed in the initial state)
          phase,                  \* "ads" | "des" | "done"
          i,                      \* next position in the pressure list of the current run
          carry,                  \* branch of the previous solution or "none" (old_density)
          out,                    \* results of the current run, in the order solved
          ads, des                \* finished runs (sequences over pressures 1..NP of "V" | "L" | "Err")
vars == <<ca, cd, peq, fails, phase, i, carry, out, ads, des>>

Pressures(ph) == IF ph = "ads" THEN [k \in 1..NP |-> k] ELSE [k \in 1..NP |-> NP + 1 - k]
Start(ph) == IF ph = "ads" THEN "V" ELSE "L"
\* a failure is identified by (run, pressure, attempt): attempt 1 = from the previous profile, 2 = fresh initialisation
Fail(ph, p, a) == <<ph, p, a>> \in fails

Init == /\ ca \in 1..NP /\ cd \in 1..NP /\ peq \in 1..NP /\ cd <= peq /\ peq <= ca
        /\ fails \in {F \in SUBSET ({"ads", "des"} \X (1..NP) \X {1, 2}) : Cardinality(F) <= MaxFails}
        /\ phase = "ads" /\ i = 1 /\ carry = Start("ads") /\ out = <<>> /\ ads = <<>> /\ des = <<>>

\* one iteration of the loop in `isotherm`
Step == /\ phase \in {"ads", "des"} /\ i <= NP
        /\ LET p == Pressures(phase)[i]
               first == IF carry = "none" THEN "V" ELSE carry                   \* pore.initialize(&bulk, old_density, ..)
               r1 == IF Fail(phase, p, 1) THEN "Err" ELSE Land(first, p, ca, cd)
               r2 == IF Fail(phase, p, 2) THEN "Err" ELSE Land("V", p, ca, cd)     \* p2: fresh initialisation from the (vapor) bulk
               r == IF r1 # "Err" THEN r1 ELSE r2                               \* p.solve(..).or_else(|_| p2.solve(..))
           IN /\ out' = Append(out, r)
              /\ carry' = IF r = "Err" THEN "none" ELSE r
        /\ i' = i + 1
        /\ UNCHANGED <<ca, cd, peq, fails, phase, ads, des>>

Rev(s) == [k \in 1..Len(s) |-> s[Len(s) + 1 - k]]
Finish == /\ phase \in {"ads", "des"} /\ i = NP + 1
          /\ IF phase = "ads"
             THEN /\ ads' = out /\ des' = des /\ phase' = "des" /\ i' = 1 /\ carry' = Start("des") /\ out' = <<>>
             ELSE /\ des' = Rev(out) /\ ads' = ads /\ phase' = "done" /\ i' = i /\ carry' = carry /\ out' = out
          /\ UNCHANGED <<ca, cd, peq, fails>>

Next == Step \/ Finish
Spec == Init /\ [][Next]_vars

\* equilibrium_isotherm, branch without a phase equilibrium: is_ads = omega_d.is_nan() || omega_a < omega_d
Pick(a, d, p) == IF d = "Err" THEN a
                 ELSE IF a = "Err" THEN d                       \* NaN < x is false
                 ELSE IF Omega2(a, p, peq) < Omega2(d, p, peq) THEN a ELSE d
Equilibrium == [p \in 1..NP |-> Pick(ads[p], des[p], p)]

\* ---- properties
NoFailures == fails = {}
\* every returned state exists at its pressure
Sound == phase = "done" => \A p \in 1..NP : /\ (ads[p] # "Err" => Exists(ads[p], p, ca, cd))
                                            /\ (des[p] # "Err" => Exists(des[p], p, ca, cd))
\* hysteresis: the adsorption branch is never fuller than the desorption branch (holds only without solver failures, see DesorptionFallsEarly)
LoopOrdered == (phase = "done" /\ NoFailures) => \A p \in 1..NP : ~(ads[p] = "L" /\ des[p] = "V")
\* adsorbed amount does not decrease with pressure along a run: once filled, stays filled (with or without failures)
AdsMonotone == phase = "done" => \A p, q \in 1..NP : (p < q /\ ads[p] = "L" /\ ads[q] # "Err") => ads[q] = "L"
DesMonotone == phase = "done" => \A p, q \in 1..NP : (p < q /\ des[p] = "L" /\ des[q] # "Err") => des[q] = "L"
\* without failures the equilibrium isotherm is the stable state wherever it is unique
EquilibriumIsStable == (phase = "done" /\ NoFailures) =>
                          \A p \in 1..NP : p # peq => Equilibrium[p] = (IF p > peq THEN "L" ELSE "V")
\* the lower envelope of whatever the two runs returned - with failures too
EquilibriumIsLowerEnvelope == phase = "done" =>
      \A p \in 1..NP : (ads[p] # "Err" /\ des[p] # "Err") => Equilibrium[p] = Lower(ads[p], des[p], p, peq) \/ Omega2(ads[p], p, peq) = Omega2(des[p], p, peq)
\* expected to FAIL when failures are allowed: a failed desorption point re-initialises from the vapor and the branch falls to the empty pore early,
\* so the "desorption" isotherm and hence the equilibrium isotherm are not the stable state any more
EquilibriumIsStableWithFailures == phase = "done" => \A p \in 1..NP : (p # peq /\ Equilibrium[p] # "Err") => Equilibrium[p] = (IF p > peq THEN "L" ELSE "V")
================================================================================
