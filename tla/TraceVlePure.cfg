SPECIFICATION TraceSpec
CONSTANTS
  Calibrate = FALSE
  MaxIterChoices = {0, 1, 2, 3, 50}
POSTCONDITION Accepted
CHECK_DEADLOCK FALSE
