------------------------------- MODULE Stability -------------------------------
(***************************************************************************)
(* Verdict logic of stability_analysis.rs: N+1 trial phases (one rich in   *)
(* each component, one ideal-gas like); each trial either cannot be set up,*)
(* collapses onto the feed (trivial), or is minimised to a tangent plane   *)
(* distance tpd; it is RETURNED iff tpd < -1e-8 and it is not a duplicate  *)
(* of an already returned trial.  is_stable == (returned list is empty).   *)
(* A flash without guess uses the returned trials as initial phases and    *)
(* reports NoPhaseSplit iff the list is empty.                             *)
(***************************************************************************)
EXTENDS Naturals, Sequences, FiniteSets, TLC
CONSTANT NComp
Trials == 1..(NComp + 1)
Outcomes == {"nosetup", "trivial", "positive", "negative"}
VARIABLES i,        \* next trial
          minimum,  \* minimum[k]: which distinct minimum trial k ended in (1..2), for negative outcomes
          outcome,  \* outcome of each finished trial
          returned  \* sequence of returned trials
vars == <<i, minimum, outcome, returned>>
Init == i = 1 /\ minimum = [k \in Trials |-> 0] /\ outcome = [k \in Trials |-> "pending"] /\ returned = <<>>
Step == /\ i \in Trials
        /\ \E o \in Outcomes, m \in 1..2 :
             /\ outcome' = [outcome EXCEPT ![i] = o]
             /\ minimum' = [minimum EXCEPT ![i] = IF o = "negative" THEN m ELSE 0]
             /\ returned' = IF o = "negative" /\ ~\E k \in 1..Len(returned) : minimum[returned[k]] = m
                            THEN Append(returned, i) ELSE returned
        /\ i' = i + 1
Next == Step
Spec == Init /\ [][Next]_vars
Done == i = NComp + 2
IsStable == returned = <<>>
\* properties
EveryReturnedIsNegative == \A k \in 1..Len(returned) : outcome[returned[k]] = "negative"
NoDuplicates == \A a, b \in 1..Len(returned) : a # b => minimum[returned[a]] # minimum[returned[b]]
StableIffNoNegative == Done => (IsStable <=> ~\E k \in Trials : outcome[k] = "negative")
EveryMinimumRepresented == Done => \A k \in Trials : outcome[k] = "negative" => \E r \in 1..Len(returned) : minimum[returned[r]] = minimum[k]
================================================================================
