--------------------------- MODULE TraceMinimizeTpd ---------------------------
(* Conformance of State::stability_analysis / minimize_tpd with MinimizeTpd.tla (hook H11).  Per trial phase: STTrial (defined or not), STStart, one STIter
   per executed iteration with the residual, the distance and the trivial test as the code computed them, STExhausted when the iterations are used up,
   STExit, and - when the minimisation returned - STVerdict with the verdict of stability_analysis.  The harness adds STCall with what the API returned.

   Binding: every STIter must be the module's Iterate with the logged data, i.e. the module's own newton flag must be the scheme the code used in that
   iteration and the module must end where the code ended (st_not_as_modelled, tool error).  Judged (C07):
     - a minimum is a candidate exactly when its distance is below -1e-8 and it is not a copy of an earlier candidate; a trivial minimum is none;
     - the state is reported stable exactly when no trial produced a candidate; the number of returned states is the number of candidates. *)
EXTENDS TraceIO, MinimizeTpd

VARIABLES l, cnt, sync, ncand, active
mtvars == vars
tvars == <<l, cnt, sync, ncand, active, mtvars>>
E == Rec[l]
Ev(name) == l <= NRec /\ E.ev = name /\ l' = l + 1
Bind(A) == \/ (A /\ sync' = sync)
           \/ (~ENABLED A /\ sync' = FALSE /\ UNCHANGED mtvars)

STTrialEv ==
  /\ Ev("STTrial")
  /\ sync' = (IF E.trial = 0 THEN TRUE ELSE sync) /\ ncand' = (IF E.trial = 0 THEN 0 ELSE ncand) /\ active' = E.defined
  /\ IF E.trial = 0      \* a new analysis: the module starts afresh
     THEN /\ pc' = "idle" /\ i' = 0 /\ newton' = FALSE /\ stol' = "1e-6" /\ tpd' = "1e10" /\ tol' = "1e-6" /\ maxit' = 0
          /\ lasterr' = "1e0" /\ lasttriv' = FALSE /\ result' = "none"
     ELSE UNCHANGED mtvars
  /\ cnt' = BumpAll(cnt, {"st_trials"} \cup (IF E.defined THEN {} ELSE {"st_trial_state_not_defined"}) \cup (IF E.trial = 0 THEN {"st_analyses"} ELSE {}))
STStartEv ==
  /\ Ev("STStart")
  /\ Bind(Start(E.max_iter, E.tol))
  /\ UNCHANGED <<ncand, active>>
  /\ cnt' = Bump(cnt, "st_minimisations")
STIterEv ==
  /\ Ev("STIter")
  /\ Bind(Iterate(E.error, E.tpd, E.trivial) /\ newton = E.newton /\ i' = E.i)
  /\ UNCHANGED <<ncand, active>>
  /\ cnt' = BumpAll(cnt, {"st_iterations"} \cup (IF E.newton THEN {"st_newton_iterations"} ELSE {})
                        \cup (IF stol # tol THEN {"st_iterations_with_relaxed_tolerance"} ELSE {}))
STExhaustedEv ==
  /\ Ev("STExhausted")
  /\ Bind(Exhausted)
  /\ UNCHANGED <<ncand, active>>
  /\ cnt' = Bump(cnt, "st_iterations_used_up")
STExitEv ==
  /\ Ev("STExit")
  /\ IF pc = "iter" THEN Bind(Fail) ELSE UNCHANGED <<mtvars, sync>>
  /\ UNCHANGED <<ncand, active>>
  /\ cnt' = BumpAll(cnt, IF pc = "iter" THEN {"st_step_failed"} ELSE {})
Candidate == "Found candidate"
STVerdictEv ==
  /\ Ev("STVerdict")
  /\ LET info == <<E.msg, result, tpd, E.steps, l>>
         asModelled == sync /\ pc = "done"
     IN /\ (asModelled =>
              /\ Report("C07.verdict_follows_from_the_minimum", info,
                        CASE result = "None" -> E.msg = "Found trivial solution"
                          [] result = "Some" /\ FLt(tpd, "-1e-8") -> E.msg \in {Candidate, "Found already identified minimum"}
                          [] result = "Some" -> E.msg = "Found minimum > 0"
                          [] OTHER -> FALSE)
              /\ Report("C07.steps_reported", info, E.steps = i))
        /\ ncand' = (IF E.msg = Candidate THEN ncand + 1 ELSE ncand)
        /\ cnt' = BumpAll(cnt, {"st_verdicts", "st_verdict:" \o E.msg} \cup (IF asModelled THEN {"st_as_modelled"} ELSE {"st_not_as_modelled"}))
  /\ UNCHANGED <<mtvars, sync, active>>
STCall ==
  /\ Ev("STCall")
  /\ LET info == <<E.case, E.grid, E.status, E.n, ncand, l>> IN
     /\ (E.status = "Ok" => Report("C07.returned_states_are_the_candidates", info, E.n = ncand /\ (E.stable <=> ncand = 0)))
     /\ (E.status # "Ok" => Report("C07.error_only_from_a_failed_minimisation", info, sync => result \in {"NotConverged", "Error"}))
     /\ cnt' = BumpAll(cnt, {"st_calls", "st_status:" \o E.status} \cup (IF sync THEN {"st_calls_as_modelled"} ELSE {"st_calls_not_as_modelled"}))
  /\ UNCHANGED <<mtvars, sync, ncand, active>>

Init2 == /\ l = 1 /\ cnt = NoCount /\ sync = FALSE /\ ncand = 0 /\ active = FALSE /\ Init
Next2 == /\ (STTrialEv \/ STStartEv \/ STIterEv \/ STExhaustedEv \/ STExitEv \/ STVerdictEv \/ STCall)
         /\ (l' > NRec => PrintT("STATS " \o ToJson(cnt')))
TraceSpec == Init2 /\ [][Next2]_tvars
================================================================================
