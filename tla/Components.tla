------------------------------ MODULE Components ------------------------------
(***************************************************************************)
(* Component bookkeeping (C09).  A model has components 1..n.  Four        *)
(* transformations of a model and a state, each with the index map that    *)
(* says which base component every component of the image corresponds to   *)
(* (0 = none):                                                             *)
(*   perm(pi)     image component k is base component pi[k]               *)
(*   subset(list) image component k is base component list[k] (ordered     *)
(*                subset, built directly from the records with the same    *)
(*                options) - compared with the library's sub-model         *)
(*   pad(k)       a foreign component with ZERO moles inserted at k        *)
(*   split(c)     component c present twice (copy appended), its moles     *)
(*                divided between the copies                               *)
(* Expected images of observables: scalars unchanged; a vector entry of    *)
(* image component k equals the base entry map[k] (if map[k] # 0); matrix  *)
(* entries likewise in both indices.                                       *)
(***************************************************************************)
EXTENDS Naturals, Sequences, FiniteSets, TLC

Perms(n) == {f \in [1..n -> 1..n] : \A i, j \in 1..n : i # j => f[i] # f[j]}
OrderedSubsets(n) == UNION {{f \in [1..k -> 1..n] : \A i, j \in 1..k : i # j => f[i] # f[j]} : k \in 1..n}
PadMap(n, k) == [i \in 1..(n + 1) |-> IF i < k THEN i ELSE IF i = k THEN 0 ELSE i - 1]
SplitMap(n, c) == [i \in 1..(n + 1) |-> IF i <= n THEN i ELSE c]

Transformations(n) ==
      {[kind |-> "perm", map |-> p, arg |-> 0] : p \in Perms(n)}
 \cup {[kind |-> "subset", map |-> s, arg |-> 0] : s \in OrderedSubsets(n)}
 \cup {[kind |-> "pad", map |-> PadMap(n, k), arg |-> k] : k \in 1..(n + 1)}
 \cup {[kind |-> "split", map |-> SplitMap(n, c), arg |-> c] : c \in 1..n}

\* sanity of the maps (checked by TLC for n <= 4)
MapOK(n, t) ==
  /\ \A k \in DOMAIN t.map : t.map[k] \in 0..n
  /\ (t.kind \in {"perm", "subset"} => \A i, j \in DOMAIN t.map : i # j => t.map[i] # t.map[j])
  /\ (t.kind = "pad" => Cardinality({k \in DOMAIN t.map : t.map[k] = 0}) = 1 /\ {t.map[k] : k \in DOMAIN t.map} = 0..n)
  /\ (t.kind = "split" => Cardinality({k \in DOMAIN t.map : t.map[k] = t.arg}) = 2)
================================================================================
