SPECIFICATION TraceSpec
CONSTANTS
  Calibrate = TRUE
POSTCONDITION Accepted
CHECK_DEADLOCK FALSE
