import tlc2.value.impl.BoolValue;
import tlc2.value.impl.IntValue;
import tlc2.value.impl.StringValue;
import tlc2.value.impl.TupleValue;
import tlc2.value.impl.Value;

/**
 * TLC module override for Float64.tla: IEEE-754 binary64 arithmetic, doubles carried as strings.
 * Loaded automatically by TLC when this class is on the class path (legacy name-based override:
 * public static methods named like the operators of the module of the same name).
 */
public class Float64 {
    static double d(final Value v) {
        if (v instanceof StringValue) {
            final String s = ((StringValue) v).getVal().toString();
            switch (s) {
                case "NaN": case "nan": return Double.NaN;
                case "Infinity": case "inf": case "+inf": case "Inf": return Double.POSITIVE_INFINITY;
                case "-Infinity": case "-inf": case "-Inf": return Double.NEGATIVE_INFINITY;
                default: return Double.parseDouble(s);
            }
        }
        if (v instanceof IntValue) {
            return (double) ((IntValue) v).val;
        }
        throw new IllegalArgumentException("Float64: not a double: " + v);
    }

    static Value f(final double x) {
        return new StringValue(Double.toString(x));
    }

    static double[] seq(final Value v) {
        final TupleValue t = (TupleValue) v.toTuple();
        if (t == null) throw new IllegalArgumentException("Float64: not a sequence: " + v);
        final double[] r = new double[t.size()];
        for (int i = 0; i < r.length; i++) r[i] = d(t.elems[i]);
        return r;
    }

    static Value b(final boolean x) { return x ? BoolValue.ValTrue : BoolValue.ValFalse; }

    public static Value FAdd(final Value a, final Value b) { return f(d(a) + d(b)); }
    public static Value FSub(final Value a, final Value b) { return f(d(a) - d(b)); }
    public static Value FMul(final Value a, final Value b) { return f(d(a) * d(b)); }
    public static Value FDiv(final Value a, final Value b) { return f(d(a) / d(b)); }
    public static Value FNeg(final Value a) { return f(-d(a)); }
    public static Value FAbs(final Value a) { return f(Math.abs(d(a))); }
    public static Value FMin(final Value a, final Value b) { return f(Math.min(d(a), d(b))); }
    public static Value FMax(final Value a, final Value b) { return f(Math.max(d(a), d(b))); }
    public static Value FSqrt(final Value a) { return f(Math.sqrt(d(a))); }
    public static Value FExp(final Value a) { return f(StrictMath.exp(d(a))); }
    public static Value FLn(final Value a) { return f(StrictMath.log(d(a))); }
    public static Value FSinh(final Value a) { return f(StrictMath.sinh(d(a))); }
    public static Value FCosh(final Value a) { return f(StrictMath.cosh(d(a))); }
    public static Value FTanh(final Value a) { return f(StrictMath.tanh(d(a))); }
    public static Value FAtan(final Value a) { return f(StrictMath.atan(d(a))); }
    public static Value FPow(final Value a, final Value b) { return f(StrictMath.pow(d(a), d(b))); }
    public static Value FPowInt(final Value a, final Value n) {
        return f(StrictMath.pow(d(a), (double) ((IntValue) n).val));
    }
    public static Value FOfInt(final Value n) { return f((double) ((IntValue) n).val); }
    public static Value FOfRatio(final Value n, final Value dd) {
        return f(((double) ((IntValue) n).val) / ((double) ((IntValue) dd).val));
    }

    public static Value FLt(final Value a, final Value b) { return b(d(a) < d(b)); }
    public static Value FLe(final Value a, final Value b) { return b(d(a) <= d(b)); }
    public static Value FEq(final Value a, final Value b) { return b(d(a) == d(b)); }
    public static Value FFinite(final Value a) { final double x = d(a); return b(!Double.isNaN(x) && !Double.isInfinite(x)); }
    public static Value FIsNaN(final Value a) { return b(Double.isNaN(d(a))); }

    public static Value FSum(final Value s) {
        double r = 0.0; for (double x : seq(s)) r += x; return f(r);
    }
    public static Value FDot(final Value s, final Value t) {
        final double[] a = seq(s), c = seq(t);
        if (a.length != c.length) throw new IllegalArgumentException("FDot: length mismatch");
        double r = 0.0; for (int i = 0; i < a.length; i++) r += a[i] * c[i]; return f(r);
    }
    public static Value FSumAbs(final Value s) {
        double r = 0.0; for (double x : seq(s)) r += Math.abs(x); return f(r);
    }
    public static Value FDotAbs(final Value s, final Value t) {
        final double[] a = seq(s), c = seq(t);
        if (a.length != c.length) throw new IllegalArgumentException("FDotAbs: length mismatch");
        double r = 0.0; for (int i = 0; i < a.length; i++) r += Math.abs(a[i] * c[i]); return f(r);
    }
    public static Value FMaxAbs(final Value s) {
        double r = 0.0;
        for (double x : seq(s)) { if (Double.isNaN(x)) return f(Double.NaN); r = Math.max(r, Math.abs(x)); }
        return f(r);
    }
    public static Value FAllFinite(final Value s) {
        for (double x : seq(s)) if (Double.isNaN(x) || Double.isInfinite(x)) return BoolValue.ValFalse;
        return BoolValue.ValTrue;
    }

    public static Value FClose(final Value a, final Value b, final Value rtol, final Value scale, final Value atol) {
        final double x = d(a), y = d(b), r = d(rtol), s = d(scale), t = d(atol);
        if (Double.isNaN(x) || Double.isNaN(y) || Double.isInfinite(x) || Double.isInfinite(y)
                || Double.isNaN(s) || Double.isInfinite(s)) return BoolValue.ValFalse;
        return b(Math.abs(x - y) <= r * Math.abs(s) + t);
    }
    public static Value FRatio(final Value a, final Value b, final Value rtol, final Value scale, final Value atol) {
        final double x = d(a), y = d(b), r = d(rtol), s = d(scale), t = d(atol);
        if (Double.isNaN(x) || Double.isNaN(y) || Double.isInfinite(x) || Double.isInfinite(y)
                || Double.isNaN(s) || Double.isInfinite(s)) return f(Double.POSITIVE_INFINITY);
        final double den = r * Math.abs(s) + t;
        final double num = Math.abs(x - y);
        if (num == 0.0) return f(0.0);
        return f(num / den);
    }
    public static Value FDefect(final Value a, final Value b, final Value scale) {
        final double s = Math.max(Math.abs(d(scale)), Double.MIN_NORMAL);
        return f(Math.abs(d(a) - d(b)) / s);
    }
}
