-------------------------------- MODULE Thermo --------------------------------
(***************************************************************************)
(* Thermodynamic laws that every Helmholtz-energy model of feos and every  *)
(* State built on it must satisfy (properties C01, C02, C10).              *)
(*                                                                         *)
(* Directions are numbered 1 = V, 2 = T, 2+i = N_i.  A *bag* is a sorted   *)
(* tuple of directions and denotes the partial derivative of the Helmholtz *)
(* energy A(T,V,N) with respect to them.  The CATALOGUE maps every         *)
(* quantity a State reports to <<bag, sign>>; everything else (which       *)
(* quantity is the derivative of which, Maxwell relations, Euler           *)
(* relations) is DERIVED from the bags, never listed by hand.              *)
(*                                                                         *)
(* All values are IEEE doubles (module Float64) in the library's reduced   *)
(* units (Angstrom, Kelvin, k_B = 1, particle numbers), so R = 1.          *)
(*                                                                         *)
(* A numeric law is a tuple <<a, b, rtol, scale, atol>> meaning            *)
(* |a - b| <= rtol*scale + atol; TraceIO!ChkT evaluates it.                *)
(***************************************************************************)
EXTENDS Naturals, Integers, Sequences, FiniteSets, Float64

CONSTANT TolScale   \* "1" in every registered check (a knob for experiments only)
CONSTANT TolExact   \* factor on the tolerances of exact identities and formulas ("300": see below)

DirV == 1
DirT == 2
DirN(i) == 2 + i
NDirs(n) == 2 + n
Extensive(d) == d # DirT

--------------------------------------------------------------------------------
\* Catalogue of the quantities a State reports with a contribution selector
\* (record Q with fields A,S,p,mu,dp_dv,dp_dt,dp_dni,dmu_dni,dmu_dt,ds_dt,d2s_dt2,d2p_dv2)

Bags1(n) == {<<d>> : d \in 1..NDirs(n)}
Bags2(n) == {<<a, b>> \in (1..NDirs(n)) \X (1..NDirs(n)) : a <= b}
GetterBags(n) == {<<>>} \cup Bags1(n) \cup Bags2(n) \cup {<<DirV, DirV, DirV>>, <<DirT, DirT, DirT>>}
JetBags(n) == {<<>>} \cup Bags1(n) \cup Bags2(n) \cup {<<d, d, d>> : d \in 1..NDirs(n)}

\* the derivative of A with bag b, as reported through the getters of channel record q
QVal(q, b) ==
  CASE Len(b) = 0 -> q.A
    [] Len(b) = 1 -> IF b[1] = DirV THEN FNeg(q.p)
                     ELSE IF b[1] = DirT THEN FNeg(q.S) ELSE q.mu[b[1] - 2]
    [] Len(b) = 2 -> IF b = <<DirV, DirV>> THEN FNeg(q.dp_dv)
                     ELSE IF b = <<DirV, DirT>> THEN FNeg(q.dp_dt)
                     ELSE IF b = <<DirT, DirT>> THEN FNeg(q.ds_dt)
                     ELSE IF b[1] = DirV THEN FNeg(q.dp_dni[b[2] - 2])
                     ELSE IF b[1] = DirT THEN q.dmu_dt[b[2] - 2]
                     ELSE q.dmu_dni[b[1] - 2][b[2] - 2]
    [] Len(b) = 3 -> IF b[1] = DirV THEN FNeg(q.d2p_dv2) ELSE FNeg(q.d2s_dt2)
\* the same for a dual-number jet record j with fields A, F[d], M[d1][d2], T3[d]
JVal(j, b) ==
  CASE Len(b) = 0 -> j.A
    [] Len(b) = 1 -> j.F[b[1]]
    [] Len(b) = 2 -> j.M[b[1]][b[2]]
    [] Len(b) = 3 -> j.T3[b[1]]

\* bag b without one occurrence of direction d (d must occur in b)
Minus(b, d) == LET i == CHOOSE k \in 1..Len(b) : b[k] = d
               IN [k \in 1..(Len(b) - 1) |-> IF k < i THEN b[k] ELSE b[k + 1]]
\* sorted insertion
Plus(b, d) == LET k == Cardinality({i \in 1..Len(b) : b[i] <= d})
              IN [i \in 1..(Len(b) + 1) |-> IF i <= k THEN b[i] ELSE IF i = k + 1 THEN d ELSE b[i - 1]]
InBag(b, d) == \E k \in 1..Len(b) : b[k] = d
\* the edges of the derivative graph:  Val(b) = d/dx_d Val(Minus(b,d))
Edges(bags) == {<<b, d>> \in bags \X (1..8) : InBag(b, d) /\ Minus(b, d) \in bags}

\* degree of homogeneity in (V, N) of the derivative with bag b
Degree(b) == 1 - Cardinality({k \in 1..Len(b) : Extensive(b[k])})

\* product of the coordinates of a bag (|x_d| for every d in b)
ProdX(xs, b) == CASE Len(b) = 0 -> "1"
                  [] Len(b) = 1 -> FAbs(xs[b[1]])
                  [] Len(b) = 2 -> FAbs(FMul(xs[b[1]], xs[b[2]]))
                  [] Len(b) = 3 -> FAbs(FMul(xs[b[1]], FMul(xs[b[2]], xs[b[3]])))

--------------------------------------------------------------------------------
\* tolerances (part of the specification; calibrated on the pinned tree, see DESIGN.md section 4).  TolExact (identities and formulas only): 1 for the original zoo; 300 since the
\* class-stratified sample of shipped records (strongly associating records at 0.4 T_c lose 8 digits in second temperature derivatives: the same
\* quantity through two dual-number types differs by 6e-9).
RtolDeriv == FMul("1e-6", TolScale)    \* analytic derivative vs 4th-order stencil, relative to the result
AtolDerivNat == FMul("2e-7", TolScale) \* ... or this fraction of the natural magnitude of the stencil data / |x|
NoiseFactor == "10"                    \* an iterative solver inside the model adds NoiseFactor * tol / h_rel to that
RtolExact == FMul("1e-10", FMul(TolScale, TolExact))   \* exact algebraic identities (Euler, Gibbs-Duhem, Total = IG + Res)
RtolFormula == FMul("1e-9", FMul(TolScale, TolExact))  \* textbook formulas over catalogue entries
RtolPath == FMul("1e-4", TolScale)     \* derivatives along constrained paths (states built by density iteration)
Tiny == "1e-300"

\* Natural magnitude of the derivative with bag b of a residual Helmholtz energy at a state with N particles,
\* temperature T and relative density u = rho/rho_max: the internal terms of any model are of order N T u,
\* so rounding noise of every derived number is relative to N T u / prod(x_d), not to a result that may cancel.
\* Terms like ln(1 - eta) carry an ABSOLUTE rounding error of one ulp of 1, i.e. relative to N T and not to
\* N T u, so u is not taken below UMin.
UMin == "1e-3"
NatRes(xs, n, u, b) ==
  FDiv(FMul(FMul(FSum([i \in 1..n |-> xs[DirN(i)]]), xs[DirT]), FMax(u, UMin)), ProdX(xs, b))

\* Q(center) against the 4th-order stencil of P over the nodes -2h,-h,+h,+2h of direction d
\* "within discretisation error": the difference between the 4th-order and the 2nd-order stencil estimates
\* the truncation error of the latter, which bounds that of the former; DiscFactor of it is allowed.
DiscFactor == "0.3"
DiscErr(P, h) == FMul(DiscFactor, FAbs(FSub(Stencil4(P, h), Stencil2(<<P[2], P[3]>>, h))))
StencilT(Q, P, h, x, nat, solvertol) ==
  LET fd == Stencil4(P, h)
      hrel == FAbs(FDiv(h, x))
      anat == FAdd(AtolDerivNat, FMul(NoiseFactor, FDiv(solvertol, hrel)))
  IN <<Q, fd, RtolDeriv, FMax(FAbs(Q), FAbs(fd)),
       FAdd(FMul(anat, FDiv(FMax(nat, FMaxAbs(P)), FAbs(x))), DiscErr(P, h))>>

\* sum_i w[i] * v[i] = rhs on the scale of the terms (+ floor)
SumT(w, v, rhs, rtol, floor) == <<FDot(w, v), rhs, rtol, FAdd(FAdd(FDotAbs(w, v), FAbs(rhs)), floor), Tiny>>

\* Euler's theorem for the derivative with bag b: sum over extensive d of x_d Val(b+d) = Degree(b) Val(b)
EulerT(Val(_), b, xs, n, rtol, floor) ==
  LET ext == <<DirV>> \o [i \in 1..n |-> DirN(i)]
      w == [k \in 1..Len(ext) |-> xs[ext[k]]]
      v == [k \in 1..Len(ext) |-> Val(Plus(b, ext[k]))]
  IN SumT(w, v, FMul(FOfInt(Degree(b)), Val(b)), rtol, floor)

\* t = i + r
AddT(t, i, r, floor) == <<t, FAdd(i, r), RtolExact, FAdd(FAdd(FAbs(i), FAbs(r)), floor), Tiny>>
\* a = b on their own scale (+ floor)
EqT(a, b, rtol, floor) == <<a, b, rtol, FAdd(FMax(FAbs(a), FAbs(b)), floor), Tiny>>
================================================================================
