----------------------------- MODULE TraceThermo -----------------------------
(***************************************************************************)
(* Trace specification for the thermodynamic laws (C01, C02, C10).         *)
(* One "Thermo" event = one state of one model with its stencil            *)
(* neighbours, recorded from the real code.  The specification's state is  *)
(* the cursor and the law counters; every law of Thermo.tla is evaluated   *)
(* on every event.                                                         *)
(***************************************************************************)
EXTENDS TraceIO, Thermo, IdealGasModels

VARIABLES l, cnt
vars == <<l, cnt>>
E == Rec[l]
Ev(name) == l <= NRec /\ E.ev = name /\ l' = l + 1

Chans == {"ig", "res", "tot"}
NatB(e, b) == NatRes(e.x, e.n, e.rho_rel, b)
NVec(e) == [i \in 1..e.n |-> e.x[DirN(i)]]

\* ---------------------------------------------------------------- C01
NodesQ(e, c, b, d) == [k \in 1..4 |-> QVal(e.nodes[d][k][c], b)]
NodesJ(e, j, b, d) == [k \in 1..4 |-> JVal(e.nodes[d][k].jets[j], b)]

GetterDerivatives(e) ==
  \A c \in Chans : \A ed \in Edges(GetterBags(e.n)) :
     LET lower == Minus(ed[1], ed[2]) IN
     ChkT("C01.getter_derivative", <<e.case, c, ed[1], ed[2], l>>,
          StencilT(QVal(e.center[c], ed[1]), NodesQ(e, c, lower, ed[2]), e.h[ed[2]], e.x[ed[2]],
                   FAdd(FDiv(FAbs(e.center[c].A), ProdX(e.x, lower)), NatB(e, lower)),
                   IF c = "ig" THEN "0" ELSE e.solver_tol))

ContributionDerivatives(e) ==
  \A ed \in Edges(JetBags(e.n)) : \A j \in 1..Len(e.names) :
     LET lower == Minus(ed[1], ed[2]) IN
     ChkT("C01.contribution_derivative", <<e.case, e.names[j], ed[1], ed[2], l>>,
          StencilT(JVal(e.center.jets[j], ed[1]), NodesJ(e, j, lower, ed[2]), e.h[ed[2]], e.x[ed[2]],
                   FAdd(FDiv(FAbs(e.center.jets[j].A), ProdX(e.x, lower)), NatB(e, lower)), e.solver_tol))

SumOfContributions(e) ==
  \A b \in GetterBags(e.n) :
     LET vs == [j \in 1..Len(e.names) |-> JVal(e.center.jets[j], b)] IN
     Chk("C01.sum_of_contributions", <<e.case, b, l>>, QVal(e.center.res, b), FSum(vs), RtolExact,
         FAdd(FAdd(FSumAbs(vs), FAbs(QVal(e.center.res, b))), NatB(e, b)), Tiny)

ContributionGetters(e) ==
  /\ \A j \in 1..Len(e.names) :
        /\ ChkT("C01.contribution_getters", <<e.case, e.names[j], "A", l>>, EqT(e.der.a_contrib[j], e.center.jets[j].A, RtolExact, NatB(e, <<>>)))
        /\ ChkT("C01.contribution_getters", <<e.case, e.names[j], "p", l>>,
                EqT(e.der.p_contrib[j + 1], FNeg(e.center.jets[j].F[DirV]), RtolExact, NatB(e, <<DirV>>)))
        /\ \A i \in 1..e.n : ChkT("C01.contribution_getters", <<e.case, e.names[j], "mu", i, l>>,
                EqT(e.der.mu_contrib[i][j], e.center.jets[j].F[DirN(i)], RtolExact, NatB(e, <<DirN(i)>>)))
  /\ ChkT("C01.contribution_getters", <<e.case, "Ideal gas", "p", l>>, EqT(e.der.p_contrib[1], e.center.ig.p, RtolExact, "0"))

\* textbook formulas of the derived properties over catalogue entries (reduced units, R = 1);
\* the scale is the sum of the magnitudes of the terms of the formula
Formula(e, name, lhs, rhs, scale) == Chk("C01.formula", <<e.case, name, lhs, rhs, l>>, lhs, rhs, RtolFormula, scale, Tiny)
Abs2(a, b) == FAdd(FAbs(a), FAbs(b))
Abs3(a, b, c) == FAdd(FAbs(a), FAdd(FAbs(b), FAbs(c)))

Formulas(e) ==
  LET t == e.center.tot
      r == e.center.res
      d == e.der
      V == e.x[DirV]
      T == e.x[DirT]
      N == FSum(NVec(e))
      rho == FDiv(N, V)
      ToN == FDiv(T, N)
      x2(c) == FDiv(FMul(e.center[c].dp_dt, e.center[c].dp_dt), e.center[c].dp_dv)     \* dp_dt^2/dp_dv
      cvT == FMul(ToN, t.ds_dt)
      cpT == FMul(ToN, FSub(t.ds_dt, x2("tot")))
      cpS == FMul(ToN, Abs2(t.ds_dt, x2("tot")))
      kS  == FNeg(FDiv(cvT, FMul(cpT, FMul(t.dp_dv, V))))
      gru == FMul(FDiv(V, FMul(N, cvT)), t.dp_dt)
      tdd == FDiv(FMul(T, t.dp_dt), t.dp_dv)
      vi  == [i \in 1..e.n |-> FNeg(FDiv(t.dp_dni[i], t.dp_dv))]
      siA == [i \in 1..e.n |-> FMul(t.dp_dni[i], FDiv(t.dp_dt, t.dp_dv))]
      si  == [i \in 1..e.n |-> FNeg(FAdd(t.dmu_dt[i], siA[i]))]
      siS == [i \in 1..e.n |-> Abs2(t.dmu_dt[i], siA[i])]
      Z   == FDiv(FMul(t.p, V), FMul(N, T))
      ZS  == FDiv(FMul(Abs2(e.center.ig.p, r.p), V), FMul(N, T))
  IN
  /\ \A c \in Chans :
       LET q == e.center[c] IN
       /\ Formula(e, <<"cv", c>>, d.cv[c], FMul(ToN, q.ds_dt), FAdd(FAbs(FMul(ToN, q.ds_dt)), FMul(ToN, NatB(e, <<DirT, DirT>>))))
       /\ Formula(e, <<"dcv_dt", c>>, d.dcv_dt[c], FDiv(FAdd(FMul(T, q.d2s_dt2), q.ds_dt), N),
                  FAdd(FDiv(Abs2(FMul(T, q.d2s_dt2), q.ds_dt), N), FDiv(NatB(e, <<DirT, DirT>>), N)))
       /\ Formula(e, <<"H", c>>, d.H[c], FAdd(FAdd(FMul(T, q.S), q.A), FMul(q.p, V)), FAdd(Abs3(FMul(T, q.S), q.A, FMul(q.p, V)), NatB(e, <<>>)))
       /\ Formula(e, <<"U", c>>, d.U[c], FAdd(FMul(T, q.S), q.A), FAdd(Abs2(FMul(T, q.S), q.A), NatB(e, <<>>)))
       /\ Formula(e, <<"G", c>>, d.G[c], FAdd(FMul(q.p, V), q.A), FAdd(Abs2(FMul(q.p, V), q.A), NatB(e, <<>>)))
       /\ Formula(e, <<"a_molar", c>>, d.a_molar[c], FDiv(q.A, N), FDiv(FAdd(FAbs(q.A), NatB(e, <<>>)), N))
       /\ Formula(e, <<"s_molar", c>>, d.s_molar[c], FDiv(q.S, N), FDiv(FAdd(FAbs(q.S), NatB(e, <<DirT>>)), N))
       /\ Formula(e, <<"h_molar", c>>, d.h_molar[c], FDiv(d.H[c], N), FDiv(FAdd(FAbs(d.H[c]), NatB(e, <<>>)), N))
       /\ Formula(e, <<"u_molar", c>>, d.u_molar[c], FDiv(d.U[c], N), FDiv(FAdd(FAbs(d.U[c]), NatB(e, <<>>)), N))
       /\ Formula(e, <<"g_molar", c>>, d.g_molar[c], FDiv(d.G[c], N), FDiv(FAdd(FAbs(d.G[c]), NatB(e, <<>>)), N))
       /\ Formula(e, <<"Z", c>>, d.Z[c], FDiv(FMul(q.p, V), FMul(N, T)), FDiv(FMul(FAdd(FAbs(q.p), NatB(e, <<DirV>>)), V), FMul(N, T)))
       /\ Formula(e, <<"dp_drho", c>>, d.dp_drho[c], FNeg(FMul(FDiv(V, rho), q.dp_dv)), FMul(FDiv(V, rho), FAdd(FAbs(q.dp_dv), NatB(e, <<DirV, DirV>>))))
       /\ Formula(e, <<"d2p_drho2", c>>, d.d2p_drho2[c],
                  FMul(FDiv(V, FMul(rho, rho)), FAdd(FMul(V, q.d2p_dv2), FMul("2", q.dp_dv))),
                  FMul(FDiv(V, FMul(rho, rho)), FAdd(Abs2(FMul(V, e.center.ig.d2p_dv2), FMul("2", e.center.ig.dp_dv)), Abs2(FMul(V, q.d2p_dv2), FMul("2", q.dp_dv)))))
  /\ \A c \in {"ig", "tot"} :
       Formula(e, <<"cp", c>>, d.cp[c], FMul(ToN, FSub(e.center[c].ds_dt, x2(c))), FMul(ToN, Abs2(e.center[c].ds_dt, x2(c))))
  /\ Formula(e, "cp_res", d.cp_res, FSub(FMul(ToN, FSub(r.ds_dt, x2("tot"))), "1"), FAdd(FMul(ToN, Abs2(r.ds_dt, x2("tot"))), "1"))
  /\ Formula(e, "cv_res", d.cv_res, FMul(ToN, r.ds_dt), FAdd(FAbs(FMul(ToN, r.ds_dt)), FMul(ToN, NatB(e, <<DirT, DirT>>))))
  /\ Formula(e, "kappa_t", d.kappa_t, FNeg(FDiv("1", FMul(t.dp_dv, V))), FAbs(d.kappa_t))
  /\ Formula(e, "alpha", d.alpha, FNeg(FDiv(FDiv(t.dp_dt, t.dp_dv), V)), FAbs(d.alpha))
  /\ Formula(e, "joule_thomson", d.jt, FNeg(FDiv(FAdd(V, tdd), FMul(N, cpT))),
             FMul(FDiv(Abs2(V, tdd), FAbs(FMul(N, cpT))), FAdd("1", FDiv(cpS, FAbs(cpT)))))
  /\ Formula(e, "kappa_s", d.kappa_s, kS, FMul(FAbs(kS), FAdd("1", FDiv(cpS, FAbs(cpT)))))
  /\ Formula(e, "grueneisen", d.gru, gru, FAbs(gru))
  /\ Formula(e, "kappa_h", d.kappa_h, FMul(kS, FAdd("1", gru)), FMul(FMul(FAbs(kS), FAdd("1", FAbs(gru))), FAdd("1", FDiv(cpS, FAbs(cpT)))))
  /\ Formula(e, "structure_factor", d.structure_factor, FNeg(FDiv(FMul(T, rho), FMul(V, t.dp_dv))), FAbs(d.structure_factor))
  /\ (FLt("0", kS) => Formula(e, "speed_of_sound", d.sos, FSqrt(FDiv("1", FMul(FMul(rho, d.mw), kS))),
                              FMul(FAbs(d.sos), FAdd("1", FDiv(cpS, FAbs(cpT))))))
  /\ (FLt("0", Z) => Formula(e, "G_res(T,p)", d.G_res, FSub(FAdd(FMul(r.p, V), r.A), FMul(FMul(N, T), FLn(Z))),
                             FAdd(Abs2(FMul(r.p, V), r.A), FMul(FMul(N, T), FAdd(FDiv(ZS, Z), FAbs(FLn(Z)))))))
  /\ \A i \in 1..e.n :
       /\ Formula(e, <<"partial_molar_volume", i>>, d.v_i[i], vi[i], FAbs(vi[i]))
       /\ Formula(e, <<"partial_molar_entropy", i>>, d.s_i[i], si[i], siS[i])
       /\ Formula(e, <<"partial_molar_enthalpy", i>>, d.h_i[i], FAdd(FMul(si[i], T), t.mu[i]), FAdd(FMul(siS[i], T), FAbs(t.mu[i])))
       /\ (FLt("0", Z) => Formula(e, <<"ln_phi", i>>, d.ln_phi[i], FSub(FDiv(r.mu[i], T), FLn(Z)),
                                  FAdd(FDiv(ZS, Z), FAdd(FDiv(FAdd(FAbs(r.mu[i]), NatB(e, <<DirN(i)>>)), T), FAbs(FLn(Z))))))
       /\ Formula(e, <<"dln_phi_dp", i>>, d.dln_phi_dp[i], FSub(FDiv(vi[i], T), FDiv("1", t.p)), Abs2(FDiv(vi[i], T), FDiv("1", t.p)))
       /\ Formula(e, <<"dln_phi_dt", i>>, d.dln_phi_dt[i],
                  FAdd(FDiv(FSub(FSub(r.dmu_dt[i], FDiv(r.mu[i], T)), FMul(vi[i], t.dp_dt)), T), FDiv("1", T)),
                  FAdd(FDiv(FAdd(Abs3(r.dmu_dt[i], FDiv(r.mu[i], T), FMul(vi[i], t.dp_dt)), NatB(e, <<DirT, DirN(i)>>)), T), FDiv("1", T)))
       /\ \A j \in 1..e.n :
            Formula(e, <<"dln_phi_dnj", i, j>>, d.dln_phi_dnj[i][j],
                    FAdd(FDiv(FAdd(r.dmu_dni[i][j], FDiv(FMul(t.dp_dni[i], t.dp_dni[j]), t.dp_dv)), T), FDiv("1", N)),
                    FAdd(FDiv(FAdd(Abs2(r.dmu_dni[i][j], FDiv(FMul(t.dp_dni[i], t.dp_dni[j]), t.dp_dv)), NatB(e, <<DirN(i), DirN(j)>>)), T), FDiv("1", N)))

\* derivatives along constrained paths: states at (T+-kd, p, N), (T, p+-kd, N), (T, p, N_j+-kd) built by the library.
\* Antecedent: the path is continuous (every neighbour lies on the branch of the centre state).
PathT(Q, P, h, x) ==
  LET fd == Stencil4(P, h)
  IN <<Q, fd, RtolPath, FMax(FAbs(Q), FAbs(fd)),
       FAdd(FMul(RtolPath, FDiv(FMaxAbs(P), FAbs(x))), FDiv(DiscErr(P, h), DiscFactor))>>   \* full estimate on paths
SameBranch(pa, v0) ==
  LET near(o) == FLt(FAbs(FSub(FDiv(o.v, v0), "1")), "0.05") IN
  /\ \A k \in 1..4 : near(pa.T[k]) /\ near(pa.p[k])
  /\ \A j \in 1..Len(pa.N) : \A k \in 1..4 : near(pa.N[j][k])
Paths(e) ==
  LET d == e.der
      pa == e.path
      T == e.x[DirT]
      hT == FMul(pa.hrel, T)
      hp == FMul(pa.hrel, pa.p0)
      v0 == FDiv(e.x[DirV], FSum(NVec(e)))
      PL(name, Q, P, h, x) == ChkT("C01.path_derivative", <<e.case, name, l>>, PathT(Q, P, h, x))
  IN (pa.ok /\ SameBranch(pa, v0)) =>
     /\ PL("cp=dh/dT|p", d.cp.tot, [k \in 1..4 |-> pa.T[k].h], hT, T)
     /\ PL("alpha=dlnv/dT|p", d.alpha, [k \in 1..4 |-> FDiv(pa.T[k].v, v0)], hT, T)
     /\ PL("kappa_t=-dlnv/dp|T", d.kappa_t, [k \in 1..4 |-> FNeg(FDiv(pa.p[k].v, v0))], hp, pa.p0)
     /\ \A i \in 1..e.n :
          LET hN == FMul(pa.hrel, e.x[DirN(i)]) IN
          /\ PL(<<"dln_phi_dt|p", i>>, d.dln_phi_dt[i], [k \in 1..4 |-> pa.T[k].ln_phi[i]], hT, T)
          /\ PL(<<"dln_phi_dp|T", i>>, d.dln_phi_dp[i], [k \in 1..4 |-> pa.p[k].ln_phi[i]], hp, pa.p0)
          /\ PL(<<"v_i=dV/dN_i|T,p", i>>, d.v_i[i], [k \in 1..4 |-> pa.N[i][k].V], hN, e.x[DirN(i)])
          /\ PL(<<"s_i=dS/dN_i|T,p", i>>, d.s_i[i], [k \in 1..4 |-> pa.N[i][k].S], hN, e.x[DirN(i)])
          /\ PL(<<"h_i=dH/dN_i|T,p", i>>, d.h_i[i], [k \in 1..4 |-> pa.N[i][k].H], hN, e.x[DirN(i)])
          /\ \A j \in 1..e.n :
               PL(<<"dln_phi_i/dN_j|T,p", i, j>>, d.dln_phi_dnj[i][j], [k \in 1..4 |-> pa.N[j][k].ln_phi[i]],
                  FMul(pa.hrel, e.x[DirN(j)]), e.x[DirN(j)])

\* ---------------------------------------------------------------- C02
EulerBags(n) == {<<>>} \cup Bags1(n)
Euler(e) ==
  /\ \A c \in Chans : \A b \in EulerBags(e.n) :
       LET Val(bb) == QVal(e.center[c], bb) IN
       ChkT("C02.euler", <<e.case, c, b, l>>, EulerT(Val, b, e.x, e.n, RtolExact, IF c = "ig" THEN "0" ELSE NatB(e, b)))
  /\ \A b \in EulerBags(e.n) : \A j \in 1..Len(e.names) :
       LET Val(bb) == JVal(e.center.jets[j], bb) IN
       ChkT("C02.euler_contribution", <<e.case, e.names[j], b, l>>, EulerT(Val, b, e.x, e.n, RtolExact, NatB(e, b)))
Symmetry(e) ==
  /\ \A c \in Chans : \A i, j \in 1..e.n :
       ChkT("C02.symmetry", <<e.case, c, i, j, l>>,
            EqT(e.center[c].dmu_dni[i][j], e.center[c].dmu_dni[j][i], RtolExact, NatB(e, <<DirN(i), DirN(j)>>)))
  /\ \A a, b \in 1..NDirs(e.n) : \A k \in 1..Len(e.names) :
       ChkT("C02.symmetry_contribution", <<e.case, e.names[k], a, b, l>>,
            EqT(e.center.jets[k].M[a][b], e.center.jets[k].M[b][a], RtolExact, NatB(e, <<a, b>>)))
GibbsDuhemLnPhi(e) ==
  \A j \in 1..e.n :
    LET col == [i \in 1..e.n |-> e.der.dln_phi_dnj[i][j]] IN
    ChkT("C02.gibbs_duhem_lnphi", <<e.case, j, l>>,
         \* d ln phi_i / d N_j = (d mu_i / d N_j) / T + 1 / N + (dp/dN_i)(dp/dN_j) / (dp/dV) / T: near close packing the last term is large and
         \* cancels against the first, so its magnitude belongs to the scale of the identity (found on helium at 0.83 of the maximum density)
         SumT(NVec(e), col, "0", RtolFormula, FAdd(FAdd("1", FDiv(FMul(FSum(NVec(e)), NatB(e, <<DirN(j), DirN(j)>>)), e.x[DirT])),
                                                   FDiv(FMul(FSum(NVec(e)), FMul(FSumAbs(e.center.tot.dp_dni), FSumAbs(e.center.tot.dp_dni))), FMul(FAbs(e.center.tot.dp_dv), e.x[DirT])))))
PartialMolarSums(e) ==
  /\ ChkT("C02.partial_molar_sum", <<e.case, "V", l>>, SumT(NVec(e), e.der.v_i, e.x[DirV], RtolFormula, "0"))
  /\ ChkT("C02.partial_molar_sum", <<e.case, "S", l>>, SumT(NVec(e), e.der.s_i, e.center.tot.S, RtolFormula, NatB(e, <<DirT>>)))
  /\ ChkT("C02.partial_molar_sum", <<e.case, "H", l>>, SumT(NVec(e), e.der.h_i, e.der.H.tot, RtolFormula, NatB(e, <<>>)))
Scaling(e) ==
  \A s \in 1..Len(e.scaled) : \A c \in Chans : \A b \in GetterBags(e.n) :
    LET a0 == QVal(e.center[c], b)
        a1 == QVal(e.scaled[s][c], b)
        f == FPowInt(e.scaled[s].lambda, Degree(b))
    IN ChkT("C02.scaling", <<e.case, e.scaled[s].lambda, c, b, l>>,
            EqT(a1, FMul(f, a0), RtolFormula, IF c = "ig" THEN "0" ELSE FMul(f, NatB(e, b))))

\* ---------------------------------------------------------------- C10
TotalIsSum(e) ==
  /\ \A b \in GetterBags(e.n) :
       ChkT("C10.total_is_sum", <<e.case, b, l>>, AddT(QVal(e.center.tot, b), QVal(e.center.ig, b), QVal(e.center.res, b), "0"))
  /\ \A f \in {"cv", "cp", "dcv_dt", "H", "U", "G", "a_molar", "s_molar", "h_molar", "u_molar", "g_molar", "Z", "dp_drho"} :
       ChkT("C10.total_is_sum", <<e.case, f, l>>, AddT(e.der[f].tot, e.der[f].ig, e.der[f].res, "0"))
  /\ LET V == e.x[DirV]
         rho == FDiv(FSum(NVec(e)), V)
         sc == FMul(FDiv(V, FMul(rho, rho)), FAdd(FAbs(FMul(V, e.center.tot.d2p_dv2)), FAbs(FMul("2", e.center.tot.dp_dv))))
     IN ChkT("C10.total_is_sum", <<e.case, "d2p_drho2", l>>, AddT(e.der.d2p_drho2.tot, e.der.d2p_drho2.ig, e.der.d2p_drho2.res, sc))
IdealGasPressure(e) ==
  /\ ChkT("C10.ideal_gas_pressure", <<e.case, "reduced", l>>,
          EqT(e.center.ig.p, FMul(FDiv(FSum(NVec(e)), e.x[DirV]), e.x[DirT]), RtolExact, "0"))
  \* SI: p_ig [Pa] = rho [mol/m^3] * R * T [K],  R = k_B N_A exactly (2019 SI)
  /\ ChkT("C10.ideal_gas_pressure", <<e.case, "SI", l>>,
          EqT(e.si.p_ig_pa, FMul(FMul(e.si.rho_mol_m3, FMul("1.380649e-23", "6.02214076e23")), e.si.T_K), RtolExact, "0"))
ResidualAliases(e) ==
  LET a == e.der.alias
      r == e.center.res
      Al(name, x, y, fl) == ChkT("C10.residual_alias", <<e.case, name, l>>, EqT(x, y, RtolExact, fl))
  IN /\ Al("A", a.A, r.A, NatB(e, <<>>)) /\ Al("S", a.S, r.S, NatB(e, <<DirT>>))
     /\ Al("ds_dt", a.ds_dt, r.ds_dt, NatB(e, <<DirT, DirT>>)) /\ Al("d2s_dt2", a.d2s_dt2, r.d2s_dt2, NatB(e, <<DirT, DirT, DirT>>))
     /\ \A i \in 1..e.n : Al(<<"mu", i>>, a.mu[i], r.mu[i], NatB(e, <<DirN(i)>>)) /\ Al(<<"dmu_dt", i>>, a.dmu_dt[i], r.dmu_dt[i], NatB(e, <<DirT, DirN(i)>>))
     /\ Al("H", e.der.H_res, e.der.H.res, NatB(e, <<>>)) /\ Al("U", e.der.U_res, e.der.U.res, NatB(e, <<>>))
     /\ Al("cv", e.der.cv_res, e.der.cv.res, FDiv(FMul(e.x[DirT], NatB(e, <<DirT, DirT>>)), FSum(NVec(e))))
     /\ Al("cp", e.der.cp_res, e.der.cp.res, "1")
IdealMixing(e) ==
  \* mu_i^ig(mixture) - mu_i^ig(pure i at the same T and total density) = T ln x_i
  LET N == FSum(NVec(e)) IN
  \A i \in 1..e.n :
    ChkT("C10.ideal_mixing", <<e.case, i, l>>,
         <<FSub(e.center.ig.mu[i], e.ig_pure_mu[i]), FMul(e.x[DirT], FLn(FDiv(e.x[DirN(i)], N))), RtolExact,
           FAdd(Abs2(e.center.ig.mu[i], e.ig_pure_mu[i]), e.x[DirT]), Tiny>>)

\* ----------------------------------------------------------------
Thermo ==
  /\ Ev("Thermo")
  /\ GetterDerivatives(E) /\ ContributionDerivatives(E) /\ SumOfContributions(E) /\ ContributionGetters(E)
  /\ Formulas(E) /\ Paths(E)
  /\ Euler(E) /\ Symmetry(E) /\ GibbsDuhemLnPhi(E) /\ PartialMolarSums(E) /\ Scaling(E)
  /\ TotalIsSum(E) /\ IdealGasPressure(E) /\ ResidualAliases(E) /\ IdealMixing(E)
  /\ cnt' = BumpBy(BumpBy(BumpBy(BumpBy(BumpBy(BumpAll(cnt, {"thermo_states", "family:" \o E.family}
                       \cup (IF E.path.ok THEN {"path_states"} ELSE {})
                       \cup (IF E.path.ok /\ SameBranch(E.path, FDiv(E.x[DirV], FSum(NVec(E)))) THEN {"path_states_same_branch"} ELSE {})),
               "C01.getter_derivative", 3 * Cardinality(Edges(GetterBags(E.n)))),
               "C01.contribution_derivative", Len(E.names) * Cardinality(Edges(JetBags(E.n)))),
               "C02.euler", (3 + Len(E.names)) * Cardinality(EulerBags(E.n))),
               "C02.scaling", 3 * Len(E.scaled) * Cardinality(GetterBags(E.n))),
               "C10.total_is_sum", Cardinality(GetterBags(E.n)) + 14)

Skip == /\ (Ev("Skip") \/ Ev("Panic"))
        /\ (E.ev = "Panic" => Report("C01.no_panic", <<E.case, E.msg, l>>, FALSE))
        /\ cnt' = Bump(cnt, IF E.ev = "Skip" THEN "skipped" ELSE "panics")

\* ---------------------------------------------------------------- C10: ideal-gas heat capacities
IgCp ==
  /\ Ev("IgCp")
  /\ LET e == E
         cf == CpMix(e.kind, e.coefs, e.x, e.T)
         sc == FAdd(CpMixAbs(e.kind, e.coefs, e.x, e.T), RGasSI)
         \* feos evaluates the Joback polynomial as c_p/R with the CODATA-2014 gas constant and converts back with the
         \* 2019 one (ratio 1 + 3.3e-7): a units convention, not a defect; the closed form is compared at 1e-6 there.
         rk == IF e.kind = "joback" THEN "3e-6" ELSE "1e-12"
         rs == IF e.kind = "joback" THEN "3e-6" ELSE "1e-9"
     IN /\ Chk("C10.cp_correlation_closed_form", <<e.case, e.kind, e.T, l>>, e.cp_model, cf, rk, sc, Tiny)
        /\ Chk("C10.cp_from_helmholtz_energy", <<e.case, e.kind, e.T, "vs closed form", l>>, e.cp_state, cf, rs, sc, Tiny)
        /\ Chk("C10.cp_from_helmholtz_energy", <<e.case, e.kind, e.T, "vs correlation", l>>, e.cp_state, e.cp_model, "1e-9", sc, Tiny)
        /\ Chk("C10.cp_from_helmholtz_energy", <<e.case, e.kind, e.T, "total of ideal gas", l>>, e.cp_state_total, e.cp_model, "1e-9", sc, Tiny)
        /\ Chk("C10.cp_from_helmholtz_energy", <<e.case, e.kind, e.T, "cv = cp - R", l>>, e.cv_state, FSub(e.cp_model, RGasSI), "1e-9", sc, Tiny)
  /\ cnt' = BumpAll(cnt, {"igcp_points", "igcp:" \o E.kind})

\* residual properties vanish in the zero-density limit: along rho_k = rho_0 10^-k, once the density is below
\* LowRel of the maximum density, every reduced residual quantity is finite and shrinks by at least a factor 2
\* per decade (linear in rho for molecular fluids, rho^(1/2) for the Debye-Hueckel term) down to a rounding floor,
\* and the compressibility factor tends to 1.
LowRel == "1e-6"
LowFloor == "1e-10"
LowDensity ==
  /\ Ev("LowDensity")
  /\ LET e == E
         S == e.series
         Low(k) == FLe(S[k - 1].rho_rel, LowRel)
         Shrinks(name, q(_)) ==
           \A k \in 2..Len(S) : Low(k) =>
             Report("C10.zero_density_limit", <<e.case, name, k, q(S[k - 1]), q(S[k]), l>>,
                    /\ FFinite(q(S[k]))
                    /\ FLe(FAbs(q(S[k])), FAdd(FMul("0.5", FAbs(q(S[k - 1]))), LowFloor)))
         a(o) == o.a
         z(o) == o.zm1
         s(o) == o.s
         \* Electrolyte models are excluded: the Born self-energy of the ions does not depend on density by
         \* construction of the model, so its residual part has no zero-density limit (C13 excludes them likewise).
     IN (e.family # "ElectrolytePcSaft") =>
        /\ Shrinks("a_res/NT", a) /\ Shrinks("Z-1", z) /\ Shrinks("s_res/N", s)
        /\ \A i \in 1..e.n : LET m(o) == o.mu[i]
                                   f(o) == o.ln_phi[i]
                               IN Shrinks(<<"mu_res/T", i>>, m) /\ Shrinks(<<"ln_phi", i>>, f)
        /\ Report("C10.zero_density_limit", <<e.case, "Z->1", S[Len(S)].Z, l>>,
                   FClose(S[Len(S)].Z, "1", "1e-7", "1", "0"))
     \* ideal mixing at every density of the ladder (down to 3e-13 of the maximum density) and for trace components:
     \* mu_i^ig(mixture) - mu_i^ig(pure, same T and total density) = T ln x_i   (reduced units)
     /\ \A k \in 1..Len(S) : (Has(S[k], "ig_mu") /\ Len(S[k].ig_mu) = e.n /\ Len(S[k].ig_mu_pure) = e.n) =>
           \A i \in 1..e.n :
              LET xi == FDiv(e.N[i], FSum(e.N)) IN
              Chk("C10.ideal_mixing", <<e.case, "low density", k, i, xi, l>>, FSub(S[k].ig_mu[i], S[k].ig_mu_pure[i]), FMul(e.T, FLn(xi)), "1e-11",
                  FAdd(FAdd(FAbs(S[k].ig_mu[i]), FAbs(S[k].ig_mu_pure[i])), e.T), "0")
  /\ cnt' = BumpAll(cnt, {"low_density_series", "lowdens:" \o E.family})

Init == l = 1 /\ cnt = NoCount
\* The Joback & Reid group sum: c_p polynomial coefficients = molecule offsets (-37.93, 0.21, -3.91e-4, 2.06e-7, 0) + sum over groups of count x group coefficient
JobackOffsets == <<"-37.93", "0.21", "-3.91e-4", "2.06e-7", "0">>
JobackSegments ==
  /\ Ev("JobackSegments")
  /\ \A q \in 1..5 :
       LET terms == [k \in 1..Len(E.segments) |-> FMul(FOfInt(E.segments[k].n), E.segments[k].c[q])]
           expect == FAdd(JobackOffsets[q], FSum(terms))
       IN Chk("C10.joback_group_sum", <<E.case, q, E.record[q], expect, l>>, E.record[q], expect, "1e-13", FAdd(FAbs(JobackOffsets[q]), FSumAbs(terms)), "0")
  /\ cnt' = BumpAll(cnt, {"joback_group_sums"} \cup (IF \E k \in 1..Len(E.segments) : E.segments[k].n > 1 /\ ~FEq(E.segments[k].c[5], "0") THEN {"joback_group_sums_with_repeated_e"} ELSE {}))

Next == /\ (Thermo \/ Skip \/ IgCp \/ LowDensity \/ JobackSegments)
        /\ (l' > NRec => PrintT("STATS " \o ToJson(cnt')))
TraceSpec == Init /\ [][Next]_vars
================================================================================
