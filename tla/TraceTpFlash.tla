---------------------------- MODULE TraceTpFlash ----------------------------
(* Conformance of State::tp_flash with TpFlash.tla (hook H8: one event per action of the module).  Every recorded flash
   TFStart .. (the harness's TFCall) is replayed as a behaviour of TpFlash with the logged data bound to the action's choices; the harness adds one
   TFCall per flash with what the API returned (status, both phases' amounts, the feed).

   Whether the recorded run IS a behaviour of the module is a binding fact, not a property claim: an event that no action of the module
   explains desynchronises the replay (tf_not_as_modelled, ./check stops with a tool error when the module no longer describes the code).
   What C05 / C07 imply is judged on TFCall, with the module's own state as witness:
     - the API result is the module's result;
     - Ok conserves the feed (OkConservesFeed, here with the recorded amounts) and came from a passed convergence test;
     - NoPhaseSplit only out of the stability analysis. *)
EXTENDS TraceIO, TpFlash

VARIABLES l, cnt, sync
tfvars == vars
tvars == <<l, cnt, sync, tfvars>>
E == Rec[l]
Ev(name) == l <= NRec /\ E.ev = name /\ l' = l + 1

\* the outcome of the next convergence test of this flash (the environment's choice of conv' is what the code observes next)
Window == 12
Look ==
  LET js == {j \in (l + 1)..(IF l + Window < NRec THEN l + Window ELSE NRec) : Rec[j].ev \in {"TFStep", "TFStart", "TFCall"}} IN
  IF js = {} THEN FALSE
  ELSE LET j == CHOOSE q \in js : \A r \in js : q <= r IN IF Rec[j].ev = "TFStep" THEN Rec[j].converged ELSE FALSE

FailTargets == {"stability", "begin", "done"}
\* take the module action A under the logged constraints, or record that the module does not explain the event
Bind(A) == \/ (A /\ sync' = sync)
           \/ (~ENABLED A /\ sync' = FALSE /\ UNCHANGED tfvars)

TFStartEv ==
  /\ Ev("TFStart")
  /\ given' = E.given /\ avail2' = FALSE /\ conv' = FALSE /\ consistent' = FALSE /\ changed' = TRUE /\ ss' = 0 /\ cycles' = 0 /\ iter' = 0 /\ result' = "none" /\ maxc' = MaxOfChoices
  /\ pc' = (IF E.given THEN "update_pressure" ELSE "stability") /\ attempt' = (IF E.given THEN "given" ELSE "none")     \* Init, then Start
  /\ sync' = TRUE
  /\ cnt' = Bump(cnt, "tf_flashes")
TFUpdatePressureEv ==
  /\ Ev("TFUpdatePressure")
  /\ Bind(UNCHANGED maxc /\ UpdatePressure /\ conv' = FALSE /\ (E.ok <=> pc' # "done"))
  /\ cnt' = cnt
TFRedistributeEv ==
  /\ Ev("TFRedistribute")
  /\ Bind(UNCHANGED maxc /\ Redistribute /\ (E.ok <=> pc' = "begin") /\ (E.ok => conv' = Look))
  /\ cnt' = Bump(cnt, "tf_redistributions")
TFStabilityEv ==
  /\ Ev("TFStability")
  /\ Bind(UNCHANGED maxc /\ Stability /\ CASE E.candidates = "two" -> pc' = "begin" /\ avail2'
                         [] E.candidates = "one" -> pc' = "begin" /\ ~avail2'
                         [] E.candidates = "NoPhaseSplit" -> result' = "NoPhaseSplit"
                         [] OTHER -> result' = "Error")
  /\ cnt' = Bump(cnt, "tf_stability:" \o E.candidates)
TFBeginEv ==
  /\ Ev("TFBegin")
  /\ Bind(Begin /\ (E.nvc <=> pc' = "to_accel") /\ maxc' = E.max_iter)
  /\ cnt' = BumpAll(cnt, {"tf_attempts", "tf_attempt:" \o attempt})
TFStepEv ==
  /\ Ev("TFStep")
  /\ Bind(/\ UNCHANGED maxc
          /\ (SS3 \/ Fix \/ Fix2 \/ Accel)
          /\ conv = E.converged /\ iter' = E.iter
          /\ E.block = (CASE pc = "ss3" -> 3 [] pc = "accel" -> 5 [] OTHER -> 1)
          /\ (E.update = "ok" => consistent' /\ conv' = Look /\ pc' \notin FailTargets)
          /\ (E.update = "err" => pc' \in FailTargets /\ ss' = 0 /\ ~conv))
  /\ cnt' = BumpAll(cnt, {"tf_steps"} \cup (IF E.update = "err" THEN {"tf_update_failed"} ELSE {}))
TFFixEv ==
  /\ Ev("TFFix")
  /\ Bind(/\ UNCHANGED maxc
          /\ (Tpd \/ Tpd2)
          /\ (~E.taken => pc' \in {"tpd2", "to_accel"})
          /\ ((E.taken /\ E.ok) => pc' \in {"fix", "fix2"} /\ conv' = Look)
          /\ ((E.taken /\ ~E.ok) => pc' \in FailTargets))
  /\ cnt' = BumpAll(cnt, IF E.taken THEN {"tf_repairs_taken"} ELSE {"tf_repairs_skipped"})
TFAccelEv ==
  /\ Ev("TFAccel")
  /\ Bind(UNCHANGED maxc /\ ToAccel)
  /\ cnt' = cnt
TFExtrapolateEv ==
  /\ Ev("TFExtrapolate")
  /\ Bind(/\ UNCHANGED maxc
          /\ Extrapolate
          /\ (E.outcome = "accepted" => changed' /\ consistent' /\ conv' = Look /\ ss' = 5)
          /\ (E.outcome \in {"rejected", "nonfinite"} => ss' = 5 /\ UNCHANGED <<conv, consistent, changed>>)
          /\ (E.outcome = "error" => ss' = 0))
  /\ cnt' = Bump(cnt, "tf_extrapolation:" \o E.outcome)
\* the API's view of the same flash
TFCall ==
  /\ Ev("TFCall")
  /\ LET info == <<E.case, E.grid, E.guess>>
         okPath == pc = "ok"                                     \* AttemptOk: the attempt ended in a passed convergence test
         res == IF okPath THEN "Ok" ELSE result
         asModelled == sync /\ (okPath \/ pc = "done")
     IN /\ (asModelled => Report("C05.tp_flash_result_is_returned", <<info, E.status, res, l>>, E.status = res))
        /\ ((asModelled /\ res = "Ok") =>
              /\ Report("C05.flash_conserves_feed", <<info, "module: amounts produced by update_states with this feed", l>>, consistent)
              /\ Report("C05.tp_flash_ok_means_converged", <<info, l>>, conv /\ ~changed))
        /\ (E.status = "Ok" =>
              Report("C05.flash_conserves_feed", <<info, E.feed, E.vN, E.lN, l>>,
                     \A i \in 1..Len(E.feed) : FClose(FAdd(E.vN[i], E.lN[i]), E.feed[i], "1e-12", FAbs(E.feed[i]), "0")))
        /\ ((asModelled /\ res = "NoPhaseSplit") => Report("C07.no_phase_split_only_from_stability", <<info, attempt, l>>, attempt \in {"none", "given"}))
        /\ cnt' = BumpAll(cnt, {"tf_calls", "tf_status:" \o E.status} \cup (IF asModelled /\ E.status = res THEN {"tf_as_modelled"} ELSE {"tf_not_as_modelled"})
                      \cup (IF E.guess # "none" THEN {"tf_with_initial_state"} ELSE {}))
        /\ pc' = "done" /\ result' = res
  /\ UNCHANGED <<attempt, given, avail2, conv, consistent, changed, ss, cycles, iter, maxc>> /\ sync' = sync

Init2 == /\ l = 1 /\ cnt = NoCount /\ sync = FALSE
         /\ pc = "done" /\ attempt = "none" /\ given = FALSE /\ avail2 = FALSE /\ conv = FALSE /\ consistent = FALSE /\ changed = TRUE
         /\ ss = 0 /\ cycles = 0 /\ iter = 0 /\ result = "none" /\ maxc = MaxOfChoices
Next2 == /\ (TFStartEv \/ TFUpdatePressureEv \/ TFRedistributeEv \/ TFStabilityEv \/ TFBeginEv \/ TFStepEv \/ TFFixEv \/ TFAccelEv \/ TFExtrapolateEv \/ TFCall)
         /\ (l' > NRec => PrintT("STATS " \o ToJson(cnt')))
TraceSpec == Init2 /\ [][Next2]_tvars
================================================================================
