----------------------------- MODULE TraceVlePure -----------------------------
(* Conformance of PhaseEquilibrium::pure (temperature and pressure specification) with VlePure.tla (hook H10: one event per action of the module).
   Every recorded call PVStart .. (the harness's PVCall) is replayed as a behaviour of VlePure with the logged data bound to the action's choices.

   Whether the recorded run IS a behaviour of the module is a binding fact (pv_not_as_modelled; ./check stops with a tool error when the module no
   longer describes the code).  What C04 / C12 imply is judged on PVCall, with the module's own state as witness:
     - the API result is the module's result; Ok came from a passed convergence test on two phases tested not to be copies;
     - the returned phases have one temperature, one pressure, one chemical potential, the vapor is the less dense one, the specification is kept;
     - every start that converges finds the same equilibrium (C12). *)
EXTENDS TraceIO, VlePure

VARIABLES l, cnt, sync,
          ref   \* first converged result per (substance, specification): what every other start must reproduce
pvvars == vars
tvars == <<l, cnt, sync, ref, pvvars>>
E == Rec[l]
Ev(name) == l <= NRec /\ E.ev = name /\ l' = l + 1

Bind(A) == \/ (A /\ sync' = sync)
           \/ (~ENABLED A /\ sync' = FALSE /\ UNCHANGED pvvars)
Final == stage = "spinodal"      \* the temperature cascade's last stage: its error is the error of the call

PVStartEv ==
  /\ Ev("PVStart")
  /\ spec' = E.spec /\ given' = E.given /\ conv' = FALSE /\ trivial' = FALSE /\ i' = 0 /\ maxit' = E.max_iter /\ result' = "none"
  /\ pc' = (IF E.spec = "T" THEN "init" ELSE "init_p")                                                        \* Init, then Start
  /\ stage' = (IF E.given THEN "given" ELSE IF E.spec = "T" THEN "idealgas" ELSE "init_p")
  /\ sync' = (E.max_iter \in MaxIterChoices)
  /\ UNCHANGED ref
  /\ cnt' = BumpAll(cnt, {"pv_calls_started", "pv_spec:" \o E.spec \o (IF E.given THEN ":given" ELSE ":none")})
PVInitEv ==
  /\ Ev("PVInit")
  /\ IF spec = "T" THEN Bind(InitT /\ stage = E.stage /\ (E.ok <=> pc' = "loop"))
                   ELSE Bind(InitP /\ stage = E.stage /\ (E.ok <=> pc' = "loop_p"))
  /\ UNCHANGED ref
  /\ cnt' = Bump(cnt, "pv_init:" \o E.stage \o (IF E.ok THEN ":ok" ELSE ":failed"))
PVHeadEv ==
  /\ Ev("PVHead")
  /\ IF spec = "T" THEN Bind(LoopT /\ i' = E.i /\ pc' = "step") ELSE Bind(LoopP /\ i' = E.i /\ pc' = "step_p")
  /\ UNCHANGED ref
  /\ cnt' = Bump(cnt, "pv_iterations")
PVExhaustedEv ==
  /\ Ev("PVExhausted")
  /\ IF spec = "T" THEN Bind(LoopT /\ i >= maxit) ELSE Bind(LoopP /\ i >= maxit)
  /\ UNCHANGED ref
  /\ cnt' = Bump(cnt, "pv_iterations_used_up")
PVNaNEv ==
  /\ Ev("PVNaN")
  /\ Bind(StepT /\ pc' # "loop" /\ result' # "Ok" /\ UNCHANGED <<trivial, conv>> /\ (Final => result' = "IterationFailed"))
  /\ UNCHANGED ref
  /\ cnt' = Bump(cnt, "pv_emergency_brake")
PVStepEv ==
  /\ Ev("PVStep")
  /\ IF spec = "T"
     THEN Bind(/\ StepT
               /\ CASE E.trivial -> trivial' /\ pc' # "loop" /\ result' # "Ok" /\ (Final => result' = "TrivialSolution")
                    [] ~E.trivial /\ E.conv -> result' = "Ok"
                    [] OTHER -> pc' = "loop" /\ ~trivial' /\ ~conv')
     ELSE Bind(/\ StepP
               /\ CASE E.conv /\ E.trivial -> result' = "TrivialSolution"
                    [] E.conv /\ ~E.trivial -> result' = "Ok"
                    [] OTHER -> pc' = "loop_p")
  /\ UNCHANGED ref
  /\ cnt' = BumpAll(cnt, {"pv_steps", "pv_step:" \o E.branch})
\* the iteration is left: by `?` out of a fallible step (State::new_pure, the density iteration of pure_p and its trivial-solution test), or after an
\* action that already decided the outcome (no step of the module)
NextStatus == IF l + 1 <= NRec /\ Rec[l + 1].ev = "PVCall" THEN Rec[l + 1].status ELSE "Error"
PVExitEv ==
  /\ Ev("PVExit")
  /\ CASE pc = "step" -> Bind(StepT /\ pc' # "loop" /\ result' # "Ok" /\ UNCHANGED <<trivial, conv>> /\ (Final => result' = "Error"))
       [] pc = "step_p" -> Bind(StepP /\ result' = (IF NextStatus = "TrivialSolution" THEN "TrivialSolution" ELSE "Error")
                                      /\ (result' = "TrivialSolution" <=> trivial'))
       [] OTHER -> UNCHANGED <<pvvars, sync>>
  /\ UNCHANGED ref
  /\ cnt' = BumpAll(cnt, IF pc \in {"step", "step_p"} THEN {"pv_step_failed"} ELSE {})
\* the API's view of the same call
PVCall ==
  /\ Ev("PVCall")
  /\ LET info == <<E.case, E.grid, E.guess>>
         asModelled == sync /\ pc = "done"
         default == E.default
         key == E.case \o "|" \o E.grid
         \* pressures are compared relative to the larger of the pressure and 1 % of the bulk modulus of the liquid (as in Equilibrium.tla)
         PS == IF E.status = "Ok" THEN FAdd(FMax(FAbs(E.pv), FAbs(E.pl)), FMul("1e-2", E.K)) ELSE "1"
     IN /\ (asModelled => Report("C04.pure_result_is_returned", <<info, E.status, result, l>>, E.status = result))
        \* the success clause: a cold start on a shipped PC-SAFT record between 0.45 and 0.99 T_c finds the equilibrium
        /\ (E.expect => Report("C04.pure_found_at_temperature", <<E.case, E.grid, E.status, l>>, E.status = "Ok"))
        /\ ((asModelled /\ result = "Ok") => Report("C04.pure_ok_means_converged", <<info, conv, trivial, i, l>>, conv /\ ~trivial /\ i >= 1))
        /\ (E.status = "Ok" =>
              /\ Report("C04.phases_share_temperature", <<info, E.Tv, E.Tl, l>>, E.Tv = E.Tl)
              /\ (E.spec = "T" => Report("C04.pure_keeps_specified_temperature", <<info, E.val, E.Tv, l>>, E.Tv = E.val))
              /\ (default =>
                    /\ (E.spec = "p" => Report("C04.pure_keeps_specified_pressure", <<info, E.val, E.pv, E.pl, l>>,
                                               FClose(E.pv, E.val, "1e-8", PS, "0") /\ FClose(E.pl, E.val, "1e-8", PS, "0")))
                    /\ Report("C04.phases_share_pressure", <<info, E.pv, E.pl, l>>, FClose(E.pv, E.pl, "1e-8", PS, "0"))
                    /\ Report("C04.phases_share_chemical_potential", <<info, E.dmu, l>>, FLe(FAbs(E.dmu), "1e-8")))
              /\ Report("C04.vapor_is_less_dense", <<info, E.rhov, E.rhol, l>>, FLt(E.rhov, E.rhol))
              /\ ((default /\ key \in DOMAIN ref) =>
                    Report("C12.pure_independent_of_initial_state", <<info, <<ref[key].T, ref[key].p, ref[key].rv, ref[key].rl>>, <<E.Tv, E.pv, E.rhov, E.rhol>>, l>>,
                           /\ FClose(E.Tv, ref[key].T, "1e-8", FAbs(E.Tv), "0") /\ FClose(E.pv, ref[key].p, "1e-7", PS, "0")
                           /\ FClose(E.rhov, ref[key].rv, "1e-7", FAbs(E.rhov), "0") /\ FClose(E.rhol, ref[key].rl, "1e-7", FAbs(E.rhol), "0"))))
        /\ ref' = (IF E.status = "Ok" /\ default /\ ~E.expect /\ key \notin DOMAIN ref THEN ref @@ (key :> [T |-> E.Tv, p |-> E.pv, rv |-> E.rhov, rl |-> E.rhol]) ELSE ref)
        /\ cnt' = BumpAll(cnt, {"pv_calls", "pv_status:" \o E.status} \cup (IF asModelled /\ E.status = result THEN {"pv_as_modelled"} ELSE {"pv_not_as_modelled"})
                      \cup (IF E.status = "Ok" /\ spec = "T" THEN {"pv_ok_from:" \o stage} ELSE {})
                      \cup (IF E.expect THEN {"pv_success_clause_calls"} ELSE {})
                      \cup (IF E.status = "Ok" /\ default /\ key \in DOMAIN ref THEN {"pv_compared_with_first_result"} ELSE {}))
  /\ UNCHANGED <<pvvars, sync>>

Init2 == /\ l = 1 /\ cnt = NoCount /\ sync = FALSE /\ ref = [k \in {} |-> 0]
         /\ pc = "done" /\ spec = "T" /\ given = FALSE /\ stage = "none" /\ conv = FALSE /\ trivial = FALSE /\ i = 0 /\ maxit = MaxOf(MaxIterChoices) /\ result = "none"
Next2 == /\ (PVStartEv \/ PVInitEv \/ PVHeadEv \/ PVExhaustedEv \/ PVNaNEv \/ PVStepEv \/ PVExitEv \/ PVCall)
         /\ (l' > NRec => PrintT("STATS " \o ToJson(cnt')))
TraceSpec == Init2 /\ [][Next2]_tvars
================================================================================
