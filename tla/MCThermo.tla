------------------------------ MODULE MCThermo ------------------------------
(* Consistency of the catalogue of Thermo.tla, checked by TLC for 1..3 components:
   the derivative graph is well founded down to A, every quantity named in C01 is reached in every
   direction of its bag, Plus and Minus are inverse, the degrees used by the Euler laws are right. *)
EXTENDS Thermo, TLC
VARIABLE n
Cat(k) ==
  /\ \A b \in GetterBags(k) \ {<<>>} : \A i \in 1..Len(b) : <<b, b[i]>> \in Edges(GetterBags(k))
  /\ \A b \in JetBags(k) \ {<<>>} : \A i \in 1..Len(b) : <<b, b[i]>> \in Edges(JetBags(k))
  /\ \A b \in JetBags(k) : \A d \in 1..NDirs(k) : Len(b) < 3 => Minus(Plus(b, d), d) = b
  /\ \A b \in JetBags(k) : \A i \in 1..(Len(b) - 1) : b[i] <= b[i + 1]
  /\ Degree(<<>>) = 1 /\ Degree(<<DirV>>) = 0 /\ Degree(<<DirT>>) = 1 /\ Degree(<<DirV, DirV>>) = -1
  /\ Degree(<<DirT, DirT, DirT>>) = 1 /\ Degree(<<DirV, DirV, DirV>>) = -2
  /\ \A b \in {<<>>} \cup Bags1(k) : \A d \in {DirV} \cup {DirN(i) : i \in 1..k} : Plus(b, d) \in GetterBags(k)
  /\ Cardinality(Edges(GetterBags(k))) = (2 + k) + (2 + k) * (2 + k) + 2
Init == n = 1
Next == n < 3 /\ n' = n + 1
Spec == Init /\ [][Next]_n
CatalogueOK == Cat(n)
=============================================================================
