--------------------------- MODULE TraceStateCache ---------------------------
(***************************************************************************)
(* Conformance of recorded executions of the real State cache with         *)
(* StateCache.tla (property C11).                                          *)
(*                                                                         *)
(* Events (harness = H, hook H1 inside the cache mutex = K):               *)
(*   Begin  H  new case: all objects forgotten, object 1 fresh             *)
(*   Refs   H  reference value of every key and getter of the case's state,*)
(*             obtained WITHOUT the cache (direct dual-number evaluation)  *)
(*             resp. from a fresh state per getter                         *)
(*   Cache  K  one cache access: request, hit, entries inserted/changed    *)
(*   Req    H  return value of a direct request (+ the prediction of       *)
(*             StateCache!Step carried along by the replayer)              *)
(*   Get    H  return value(s) of a public getter                          *)
(*   Clone  H  State::clone                                                *)
(*                                                                         *)
(* Acceptance conditions are what C11 states: whatever is stored under a   *)
(* key, returned for a request or returned by a getter equals the          *)
(* history-free reference.  Agreement of hit/miss and by-product keys with *)
(* StateCache!Step is counted (coverage), not demanded.                    *)
(***************************************************************************)
EXTENDS TraceIO

CONSTANTS NComp, Variant
SC == INSTANCE StateCacheOps   \* only the constant-level operators (Step, LookupKey, ...) are used

RtolHist == "1e-11"    \* history independence; measured <= 1.2e-15 on the pinned tree

VARIABLES l,        \* next line
          keyref,   \* key -> reference value (string)
          getref,   \* getter name -> sequence of reference values
          mcache,   \* object -> (key -> value): the cache as the hook reports it
          mabs,     \* object -> abstract cache of StateCache (key -> symbol), driven by Req events
          seqd,     \* the last sequentially computed phase diagram (a Diagram event)
          hk,       \* <<object, request>> of the hook event on the previous line, <<>> otherwise (binding diagnostics only)
          cnt
vars == <<l, keyref, getref, mcache, mabs, seqd, hk, cnt>>

E == Rec[l]
Ev(name) == l <= NRec /\ E.ev = name /\ l' = l + 1

ObjOf(ctx) == ctx   \* context labels are object names

Close(a, b) == FClose(a, b, RtolHist, FMax(FAbs(a), FAbs(b)), "1e-300")

Init == /\ l = 1 /\ hk = <<>> /\ keyref = <<>> /\ getref = <<>> /\ mcache = <<>> /\ mabs = <<>> /\ seqd = <<>> /\ cnt = NoCount

Begin == /\ Ev("Begin")
         /\ mcache' = ("o1" :> <<>>) /\ mabs' = ("o1" :> SC!Empty)
         /\ cnt' = Bump(cnt, "cases")
         /\ UNCHANGED <<keyref, getref, seqd>>

Refs == /\ Ev("Refs")
        /\ keyref' = PairsToFcn(E.keys)
        /\ getref' = PairsToFcn(E.getters)
        /\ cnt' = Bump(cnt, "states")
        /\ UNCHANGED <<mcache, mabs, seqd>>

\* hook event: entries inserted or changed while the mutex was held
Cache == /\ Ev("Cache")
         /\ LET o == ObjOf(E.ctx)
                ins == E.ins
                old == IF o \in DOMAIN mcache THEN mcache[o] ELSE <<>>
                new == [k \in DOMAIN old \cup {ins[i][1] : i \in 1..Len(ins)} |->
                          IF \E i \in 1..Len(ins) : ins[i][1] = k
                          THEN ins[CHOOSE i \in 1..Len(ins) : ins[i][1] = k][2] ELSE old[k]]
            IN /\ \A i \in 1..Len(ins) :
                    Report("C11.stored_value_is_its_key", <<E.ctx, E.req, ins[i], l>>,
                           ins[i][1] \in DOMAIN keyref /\ Close(ins[i][2], keyref[ins[i][1]]))
               /\ mcache' = (o :> new) @@ mcache
               /\ cnt' = BumpBy(Bump(cnt, IF E.hit THEN "cache_hit" ELSE "cache_miss"), "stored_checked", Len(ins))
         /\ UNCHANGED <<keyref, getref, mabs, seqd>>

\* direct request replayed from a TLC-generated history
Req == /\ Ev("Req")
       /\ LET o == E.obj
              k == SC!LookupKey(E.req)
              s == SC!Step(mabs[o], E.req)
              agree == /\ o \in DOMAIN mcache
                       /\ k \in DOMAIN mcache[o]
          IN /\ Report("C11.request_value", <<o, E.req, E.v, l>>,
                       k \in DOMAIN keyref /\ Close(E.v, keyref[k]))
             /\ Report("C11.request_is_stored", <<o, E.req, E.v, l>>,
                       agree => Close(E.v, mcache[o][k]))
             /\ mabs' = [mabs EXCEPT ![o] = s.cache]
             /\ cnt' = BumpAll(cnt, {"requests"}
                         \* binding of hook H1 to the harness: the line before a Req is the hook's report of that very access
                         \* (counted, never a law: a cache that is bypassed is not a violation of C11, a silent hook is a tool error)
                         \cup (IF hk = <<o, E.req>> THEN {"requests_with_hook_event"} ELSE {"requests_without_hook_event"})
                         \cup (IF E.hit = s.hit THEN {"hit_as_modelled"} ELSE {"hit_not_as_modelled"})
                         \cup (IF o \in DOMAIN mcache /\ DOMAIN mcache[o] = DOMAIN s.cache
                               THEN {"keys_as_modelled"} ELSE {"keys_not_as_modelled"}))
       /\ UNCHANGED <<keyref, getref, mcache, seqd>>

Get == /\ Ev("Get")
       /\ LET r == IF E.g \in DOMAIN getref THEN getref[E.g] ELSE <<>>
          IN Report("C11.getter_value", <<E.obj, E.g, E.v, r, l>>,
                    /\ E.g \in DOMAIN getref
                    /\ Len(E.v) = Len(r)
                    /\ \A i \in 1..Len(r) : Close(E.v[i], r[i]) \/ (FIsNaN(E.v[i]) /\ FIsNaN(r[i])))
       /\ cnt' = Bump(cnt, "getters")
       /\ UNCHANGED <<keyref, getref, mcache, mabs, seqd>>

\* a getter on a state DERIVED from another one (State::update_temperature after a history of getters on the parent) against the same getter on a state
\* built directly at the new conditions: nothing evaluated on the parent may show through
DGet == /\ Ev("DGet")
        /\ Report("C11.derived_state_getter_value", <<E.how, E.g, E.after, E.v, E.r, l>>,
                  /\ Len(E.v) = Len(E.r)
                  /\ \A i \in 1..Len(E.r) : Close(E.v[i], E.r[i]) \/ (FIsNaN(E.v[i]) /\ FIsNaN(E.r[i])))
        /\ cnt' = BumpAll(cnt, {"derived_state_getters"} \cup (IF E.g \in ToSet(E.after) THEN {"derived_state_getters_evaluated_on_parent_before"} ELSE {}))
        /\ UNCHANGED <<keyref, getref, mcache, mabs, seqd>>

Clone == /\ Ev("Clone")
         /\ mcache' = (E.dst :> (IF E.src \in DOMAIN mcache THEN mcache[E.src] ELSE <<>>)) @@ mcache
         /\ mabs' = (E.dst :> (IF E.src \in DOMAIN mabs THEN mabs[E.src] ELSE SC!Empty)) @@ mabs
         /\ cnt' = Bump(cnt, "clones")
         /\ UNCHANGED <<keyref, getref, seqd>>

\* PhaseDiagram::pure (kind "seq") followed by par_pure runs (kind "par") of the same request:
\* same states in the same order for every pool size and chunk size
RtolDiag == "1e-8"
SeqClose(a, b, rtol) == /\ Len(a) = Len(b)
                        /\ \A i \in 1..Len(a) : FClose(a[i], b[i], rtol, FMax(FAbs(a[i]), FAbs(b[i])), "0")
Diagram == /\ Ev("Diagram")
           /\ IF E.kind = "seq"
              THEN /\ seqd' = E
                   /\ cnt' = Bump(cnt, "diagrams_seq")
              ELSE /\ Report("C11.par_pure_equals_pure", <<E.model, E.n, E.chunk, E.threads, l>>,
                             /\ ~E.error
                             /\ E.model = seqd.model /\ E.n = seqd.n
                             /\ SeqClose(E.T, seqd.T, "1e-13")
                             /\ SeqClose(E.p, seqd.p, RtolDiag)
                             /\ SeqClose(E.rv, seqd.rv, RtolDiag)
                             /\ SeqClose(E.rl, seqd.rl, RtolDiag))
                   /\ seqd' = seqd
                   /\ cnt' = BumpAll(cnt, {"diagrams_par"} \cup (IF E.chunk < E.n - 1 /\ E.threads > 1 THEN {"diagrams_par_multi_chunk"} ELSE {}))
           /\ UNCHANGED <<keyref, getref, mcache, mabs>>

Next == /\ (Begin \/ Refs \/ Cache \/ Req \/ Get \/ DGet \/ Clone \/ Diagram)
        /\ hk' = IF E.ev = "Cache" THEN <<ObjOf(E.ctx), E.req>> ELSE <<>>
        /\ (l' > NRec => PrintT("STATS " \o ToJson(cnt')))

TraceSpec == Init /\ [][Next]_vars
================================================================================
