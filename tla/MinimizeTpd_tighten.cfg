SPECIFICATION Spec
CONSTANTS
  MaxIterChoices = {0, 3, 7}
  TolChoices = {"1e-6"}
  ErrChoices = {"1e-9", "5e-6", "5e-5", "5e-4", "1e-1"}
  TpdChoices = {"1e-3", "-5e-9", "-5e-2", "-5e-1"}
PROPERTIES
  NeverTightened
CHECK_DEADLOCK FALSE
