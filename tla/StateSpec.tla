------------------------------ MODULE StateSpec ------------------------------
(* Model checking: the constructor's decision chain (Impl) agrees with the documented meaning (Decl) on every
   subset of the eleven inputs, for pure fluids and mixtures; plus sanity facts about the decision table. *)
EXTENDS StateSpecOps, TLC
VARIABLES S, ncomp
Init == S \in SUBSET Inputs /\ ncomp \in {1, 2}
Spec == Init /\ [][UNCHANGED <<S, ncomp>>]_<<S, ncomp>>
Agree == Impl(S, ncomp) = Decl(S, ncomp)
\* a determined state always has temperature or an energy-like target, and an amount
OkNeedsAmount == Decl(S, ncomp).ok => (AmountKnown(S) \/ Decl(S, ncomp).route = "TpVx")
TargetsGiven == Decl(S, ncomp).ok => (Targets(Decl(S, ncomp).route) \ {"V"}) \subseteq S
================================================================================
