-------------------------------- MODULE TraceDft --------------------------------
(***************************************************************************)
(* Trace specification of the classical-DFT properties.                    *)
(* C16 (action Uniform): a density profile equal to the bulk density with  *)
(* no external potential is an exact solution of the discretised problem   *)
(* on every grid: weighted densities uniform, Euler-Lagrange residual 0,   *)
(* grand potential density -p, N = rho V, reported volume = integral of 1  *)
(* with the grid's own weights, hence zero excess grand potential.         *)
(***************************************************************************)
EXTENDS TraceIO

VARIABLES l, cnt, refobs
\* refobs: per (functional, system) the observables of the first tightly converged solve (reference for C18 agreement)
vars == <<l, cnt, refobs>>
E == Rec[l]
Ev(name) == l <= NRec /\ E.ev = name /\ l' = l + 1

RtolUniform == "1e-10"
RtolVolume == "1e-5"

Uniform ==
  /\ Ev("Uniform")
  /\ LET info == <<E.functional, E.state, E.grid, E.points, E.lanczos>>
         pV == FMul(E.p_bulk, E.volume_reported)
         nat == FMul(FSum(E.rho_bulk), "300")     \* rho * T-scale: natural magnitude of pressures of the functional
     IN
     /\ Chk("C16.density_is_bulk", <<info, "min", l>>, E.density_minmax[1], E.rho_bulk_minmax[1], RtolUniform, FAbs(E.rho_bulk_minmax[1]), "0")
     /\ Chk("C16.density_is_bulk", <<info, "max", l>>, E.density_minmax[2], E.rho_bulk_minmax[2], RtolUniform, FAbs(E.rho_bulk_minmax[2]), "0")
     /\ \A c \in 1..Len(E.weighted_densities) : \A k \in 1..Len(E.weighted_densities[c]) :
          LET w == E.weighted_densities[c][k] IN
          Chk("C16.weighted_densities_uniform", <<info, c, k, w, l>>, w[1], w[2], RtolUniform, FMax(FAbs(w[1]), FAbs(w[2])), "1e-13")
     /\ Report("C16.residual_is_zero", <<info, E.residual, l>>,
               E.residual.ok /\ FLe(FAbs(E.residual.min), "1e-9") /\ FLe(FAbs(E.residual.max), "1e-9") /\ FLe(FAbs(E.residual.norm), "1e-9"))
     /\ Chk("C16.grand_potential_density_is_minus_p", <<info, "min", l>>, E.omega_minmax[1], FNeg(E.p_bulk), "1e-9", FAbs(E.p_bulk), FMul("1e-12", E.rho_bulk_minmax[2]))
     /\ Chk("C16.grand_potential_density_is_minus_p", <<info, "max", l>>, E.omega_minmax[2], FNeg(E.p_bulk), "1e-9", FAbs(E.p_bulk), FMul("1e-12", E.rho_bulk_minmax[2]))
     /\ \A i \in 1..Len(E.moles) :
          Chk("C16.moles_is_rho_times_volume", <<info, i, l>>, E.moles[i], FMul(E.rho_bulk[i], E.volume_integrated), "1e-9", FAbs(E.moles[i]), "0")
     /\ Chk("C16.volume_is_integral_of_one", <<info, E.volume_reported, E.volume_integrated, l>>, E.volume_reported, E.volume_integrated, RtolVolume, FAbs(E.volume_integrated), "0")
     /\ Chk("C16.zero_excess_grand_potential", <<info, E.grand_potential, pV, l>>, FAdd(E.grand_potential, pV), "0", RtolVolume, FAdd(FAbs(E.grand_potential), FAbs(pV)), "0")
  /\ cnt' = BumpAll(cnt, {"uniform_profiles", "grid:" \o E.grid, "functional:" \o E.functional} \cup (IF E.lanczos THEN {"lanczos"} ELSE {}))
  /\ UNCHANGED refobs

Panic == /\ Ev("Panic")
         /\ Report("C16.no_panic", <<E.functional, E.grid, E.msg, l>>, FALSE)
         /\ cnt' = Bump(cnt, "panics")
         /\ UNCHANGED refobs

\* ---------------------------------------------------------------- C17
(* The functional derivative is the derivative of the discretised functional.                                       *)
(*   F[rho] = sum_k v_k f_k(rho)          (v: the integration weights of the grid, f: Helmholtz energy density)    *)
(*   Var1:    d/de F[rho + e eta] |_0  =  <g, eta>_v          g = dF/drho as returned by functional_derivative     *)
(*   Var2:    d/de g[rho + e eta] |_0  =  H eta               H = the second-variation operator of the Newton      *)
(*            solver (second_partial_derivatives + delta_functional_derivative), pointwise and projected on zeta;  *)
(*            <zeta, H eta>_v = <eta, H zeta>_v                                                                      *)
(*   Adjoint: <w_a * eta, q>_v = <eta, w_a^T * q>_v for every weighted density a of every contribution (scalar and *)
(*            vector weight functions), i.e. Convolver::weighted_densities and ::functional_derivative are adjoint  *)
(*   BondVar: d/de ln I[e0 exp(-e delta)] |_0 = delta_bond_integrals(e0, delta)   (bond integrals of chains)       *)
(* The recorder stores raw values only (F at rho +- e eta for two e, g, H eta, inner products formed with the      *)
(* library's own integrate); the difference quotients (4th order from the two step sizes) are formed here.          *)
(* Var2 and BondVar are identities of the discrete maps and hold to difference-quotient accuracy on every grid.    *)
(* Var1, the symmetry of H and Adjoint need the two discrete convolutions to be adjoint w.r.t. the weights v: exact *)
(* on Cartesian and periodic grids (FFT), second-order convergent on spherical grids, and limited to ~1e-4 by the  *)
(* quasi-discrete Hankel transform on polar / cylindrical grids (measured; see DESIGN.md).                          *)
IsFlat(g) == g \in {"cartesian", "cartesian2", "cartesian3", "periodical2(90)", "periodical2(60)", "periodical3(90,90,90)", "periodical3(80,70,60)"}
\* relative non-adjointness admitted per grid kind and number of points of the curved axis
TolAdjoint(g, n) ==
  IF IsFlat(g) THEN "1e-9"
  ELSE IF g = "spherical" THEN FAdd("2e-5", FMul("3e-3", FPowInt(FOfRatio(64, n), 2)))
  ELSE FAdd("5e-4", FMul("4", FPowInt(FOfRatio(32, n), 3)))      \* polar, cylindrical
TolDiffQuot == "1e-5"     \* difference quotients (4th order, steps 1e-3 and 5e-4 relative to the local density)
DQ(minus, plus, eps) == Stencil4(<<minus[1], minus[2], plus[2], plus[1]>>, eps[2])
DQ2(minus, plus, eps) == Stencil2(<<minus[2], plus[2]>>, eps[2])
VInfo == <<E.functional, E.grid, E.points, E.profile, E.length_sigma, E.lanczos>>
\* On polar and cylindrical grids the error of the Hankel-transform convolution is ~1e-4 of the MAXIMUM of a field; where the
\* density is 1e-7 of its maximum (inside the wall of the "pore" profile) the weighted densities are noise, and the two laws
\* that need adjointness (first variation, symmetry of H) are not judged there.  The exact identities still are.
NoiseDominated == E.profile = "pore" /\ E.grid \in {"polar", "cylindrical"}
VCount(kind) == {kind, kind \o ":" \o E.grid, "functional:" \o E.functional}

\* a positive smooth density must give finite values (associating functionals return NaN when the discrete convolution
\* produces |n2v| > n2 or n0 < 0); the identities are judged only where the functional could be evaluated
Var1 ==
  /\ Ev("Var1")
  /\ LET d == DQ(E.F_minus, E.F_plus, E.eps)
         tol == FAdd(TolDiffQuot, FMul("5", TolAdjoint(E.grid, E.points[1])))
         fin == FAllFinite(E.F_minus) /\ FAllFinite(E.F_plus) /\ FFinite(E.inner)
     IN
     /\ Report("C17.density_positive", <<VInfo, E.rho_min, l>>, FLt("0", E.rho_min))
     /\ Report("C17.functional_evaluates", <<VInfo, l>>, fin)
     /\ ((fin /\ ~NoiseDominated) => Chk("C17.first_variation", <<VInfo, d, E.inner, l>>, d, E.inner, tol, E.inner_abs, "0"))
  /\ cnt' = BumpAll(cnt, VCount("var1"))
  /\ UNCHANGED refobs

Var2 ==
  /\ Ev("Var2")
  /\ LET d == DQ(E.proj_g_minus, E.proj_g_plus, E.eps)
         tolS == FMul("5", TolAdjoint(E.grid, E.points[1]))
         fin == FAllFinite(E.proj_g_minus) /\ FAllFinite(E.proj_g_plus) /\ FFinite(E.sym_ab) /\ FFinite(E.sym_ba)
     IN
     fin =>
     \* on the pore profile of polar / cylindrical grids the functional derivative itself carries convolution noise from the empty region (its projections at
     \* rho(1 +- e eta), rho(1 +- 2e eta) are not even monotone in e for the cross-associating mixture at 2048 points): no difference quotient is judged there
     /\ (~NoiseDominated => Chk("C17.second_variation_projected", <<VInfo, d, E.sym_ab, l>>, d, E.sym_ab, TolDiffQuot, E.sym_scale, "0"))
     /\ (~NoiseDominated => Chk("C17.second_variation_symmetric", <<VInfo, E.sym_ab, E.sym_ba, l>>, E.sym_ab, E.sym_ba, tolS, E.sym_scale, "0"))
     /\ (E.has_fields =>
           LET n == Len(E.H_eta)
               dq == [k \in 1..n |-> DQ(<<E.g_minus[1][k], E.g_minus[2][k]>>, <<E.g_plus[1][k], E.g_plus[2][k]>>, E.eps)]
               defect == FMaxAbs([k \in 1..n |-> FSub(dq[k], E.H_eta[k])])
           IN Chk("C17.second_variation_pointwise", <<VInfo, defect, FMaxAbs(E.H_eta), l>>, defect, "0", TolDiffQuot, FMaxAbs(E.H_eta), "0"))
  /\ cnt' = BumpAll(cnt, VCount("var2") \cup (IF E.has_fields THEN {"var2_fields"} ELSE {}))
  /\ UNCHANGED refobs

Adjoint ==
  /\ Ev("Adjoint")
  /\ Chk("C17.convolutions_adjoint", <<VInfo, E.contribution, E.weighted_density, E.lhs, E.rhs, l>>, E.lhs, E.rhs, TolAdjoint(E.grid, E.points[1]), E.scale, "0")
  /\ cnt' = BumpAll(cnt, VCount("adjoint") \cup (IF FLt("0", E.scale) THEN {"adjoint_nonzero"} ELSE {"adjoint_zero_weight"}))
  /\ UNCHANGED refobs

BondVar ==
  /\ Ev("BondVar")
  /\ LET d == DQ(E.proj_lnI_minus, E.proj_lnI_plus, E.eps) IN       \* "plus" = e0 exp(-e delta): delta is a change of dF/drho
     /\ Chk("C17.bond_integral_variation_projected", <<VInfo, d, E.proj_delta_i, l>>, d, E.proj_delta_i, TolDiffQuot, E.proj_scale, "0")
     /\ (E.has_fields =>
           LET n == Len(E.delta_i)
               dq == [k \in 1..n |-> DQ(<<E.lnI_minus[1][k], E.lnI_minus[2][k]>>, <<E.lnI_plus[1][k], E.lnI_plus[2][k]>>, E.eps)]
               defect == FMaxAbs([k \in 1..n |-> FSub(dq[k], E.delta_i[k])])
           IN Chk("C17.bond_integral_variation_pointwise", <<VInfo, defect, FMaxAbs(E.delta_i), l>>, defect, "0", TolDiffQuot, FMaxAbs(E.delta_i), "0"))
  /\ cnt' = BumpAll(cnt, VCount("bondvar"))
  /\ UNCHANGED refobs

\* ---------------------------------------------------------------- C18
\* tolerance of the last stage of a chain (the default solver ends with Anderson mixing at 1e-11)
TolExp(e) == IF e.default_solver THEN 11 ELSE e.chain[Len(e.chain)].tol
TolOf(e) == IF TolExp(e) = 11 THEN "1e-11" ELSE "1e-5"
SolverName(st) == (CASE st.algo = "picard" -> "Picard iteration" [] st.algo = "anderson" -> "Anderson mixing" [] OTHER -> "Newton")
                  \o (IF st.log THEN " (log)" ELSE "")
\* The log is a behaviour of DftSolver.tla: EVERY stage of the chain runs (call_solver has no early exit), every stage
\* logs at least its first residual, GMRES entries only follow a Newton entry.  So with GMRES runs dropped and equal
\* neighbours merged, the solver names of the log equal the merged stage names of the chain.
RECURSIVE Merge(_)
Merge(s) == IF Len(s) <= 1 THEN s
            ELSE IF s[1] = s[2] THEN Merge(Tail(s)) ELSE <<s[1]>> \o Merge(Tail(s))
IsNewton(n) == n = "Newton" \/ n = "Newton (log)"
LogNames(runs) == [i \in 1..Len(runs) |-> runs[i].solver]
LogFollowsChain(e, chain, runs) ==
  LET names == LogNames(runs)
      stages == SelectSeq(names, LAMBDA n : n # "GMRES")
      cn == IF e.default_solver THEN <<"Anderson mixing (log)", "Anderson mixing">> ELSE [i \in 1..Len(chain) |-> SolverName(chain[i])]
  IN /\ Merge(stages) = Merge(cn)
     /\ \A i \in 1..Len(names) : names[i] = "GMRES" => (i > 1 /\ IsNewton(names[i - 1]))
\* Stage structure of the log (only when no two neighbouring stages share a name, so that stages can be told apart):
\* NG = the non-GMRES runs; stage index of a run = 1 + number of name changes before it.
NG(runs) == SelectSeq(runs, LAMBDA r : r.solver # "GMRES")
RECURSIVE StageIdx(_, _)
StageIdx(ng, i) == IF i = 1 THEN 1 ELSE StageIdx(ng, i - 1) + (IF ng[i].solver = ng[i - 1].solver THEN 0 ELSE 1)
Separable(e) == ~e.default_solver /\ \A i \in 1..(Len(e.chain) - 1) : SolverName(e.chain[i]) # SolverName(e.chain[i + 1])
StageFirst(ng, s) == ng[CHOOSE i \in 1..Len(ng) : StageIdx(ng, i) = s /\ \A k \in 1..Len(ng) : StageIdx(ng, k) = s => i <= k]
StageLast(ng, s) == ng[CHOOSE i \in 1..Len(ng) : StageIdx(ng, i) = s /\ \A k \in 1..Len(ng) : StageIdx(ng, k) = s => k <= i]
RECURSIVE SumTo(_, _)
SumTo(f, i) == IF i = 0 THEN 0 ELSE f[i] + SumTo(f, i - 1)
StageEntries(ng, s) == SumTo([i \in 1..Len(ng) |-> IF StageIdx(ng, i) = s THEN ng[i].entries ELSE 0], Len(ng))
StageTol(st) == IF st.tol = 11 THEN "1e-11" ELSE "1e-5"
\* DftSolver.RunStage, first disjunct: a stage that starts below its tolerance converges at once and leaves the density
\* untouched (one log entry; the next stage starts from the same residual).  Second/third disjunct: a stage that ended
\* converged hands its last residual to the next stage unchanged (convergence is detected before the update).
StageLaws(e, runs) ==
  LET ng == NG(runs) n == Len(e.chain) IN
  \A s \in 1..n :
     LET f == StageFirst(ng, s).first  la == StageLast(ng, s).last  tol == StageTol(e.chain[s]) IN
     /\ (FLt(f, tol) => StageEntries(ng, s) = 1)
     /\ ((s < n /\ FLt(la, tol)) => StageFirst(ng, s + 1).first = la)
     /\ (s = n => (e.ok <=> FLt(la, tol)))
\* the last non-GMRES entry of the log is the residual the convergence decision was taken on
LastStageRun(runs) == LET idx == {i \in 1..Len(runs) : runs[i].solver # "GMRES"} IN runs[CHOOSE i \in idx : \A k \in idx : k <= i]
\* The residual norm is an ABSOLUTE density error: a tolerance of 1e-11 resolves a bulk density rho_b only to 1e-11 / rho_b, and the number of
\* particles follows the bulk density.  (Found with another seed: Moles specified, rho_b = 1.2e-5: N met to 4.7e-7.)
MinBulk(o) == o.bulk_rho_after[CHOOSE i \in 1..Len(o.bulk_rho_after) : \A j \in 1..Len(o.bulk_rho_after) : FLe(o.bulk_rho_after[i], o.bulk_rho_after[j])]
TolMoles(o) == FAdd("1e-7", FDiv("1e-10", MinBulk(o)))
Key(e) == <<e.functional, e.system>>
TolExcess == "1e-3"   \* an excess is resolved relative to the quantity it is the excess of (1e-6 x 1e-3 = 1e-9 of |Omega| or N)
NotConvergedMsg == "`DFT` did not converge within the maximum number of iterations."
Solve ==
  /\ Ev("Solve")
  /\ LET o == E.obs
         info == <<E.functional, E.system, E.init, E.default_solver, E.chain, E.spec>>
         tight == TolExp(E) = 11
         k == Key(E)
         hasRef == k \in DOMAIN refobs
     IN
     /\ (E.ok =>
          /\ Chk("C18.residual_below_tolerance", <<info, o.residual, l>>, o.residual, "0", "1", "0", FMul("1.01", TolOf(E)))
          /\ Report("C18.density_positive_finite", <<info, o.density_min, l>>, o.finite /\ FLe("0", o.density_min) /\ FFinite(o.density_max))
          /\ Report("C18.log_is_behaviour_of_chain", <<info, o.runs, l>>, LogFollowsChain(E, E.chain, o.runs))
          /\ (Separable(E) /\ LogFollowsChain(E, E.chain, o.runs) =>
                 Report("C18.stages_are_DftSolver_steps", <<info, o.runs, l>>, StageLaws(E, o.runs)))
          /\ Report("C18.log_last_residual_below_tolerance", <<info, LastStageRun(o.runs), l>>, FLt(LastStageRun(o.runs).last, TolOf(E)))
          /\ Chk("C18.log_last_residual_is_residual_of_result", <<info, LastStageRun(o.runs).last, o.residual, l>>, LastStageRun(o.runs).last, o.residual,
                  "1e-3", FMax(FAbs(o.residual), FAbs(LastStageRun(o.runs).last)), FMul("1e-2", TolOf(E)))
          /\ (E.spec = "ChemicalPotential" =>
                 Report("C18.bulk_unchanged", <<info, o.bulk_rho_before, o.bulk_rho_after, l>>,
                        \A i \in 1..Len(o.bulk_rho_before) : FClose(o.bulk_rho_before[i], o.bulk_rho_after[i], "1e-10", FAbs(o.bulk_rho_before[i]), "0")))
          /\ ((E.spec # "ChemicalPotential" /\ tight) =>
                 Chk("C18.specified_moles_met", <<info, E.spec_total_moles, o.moles, l>>, FSum(o.moles), E.spec_total_moles, TolMoles(o), FAbs(E.spec_total_moles), "0"))
          /\ ((E.spec = "Moles" /\ tight) => \A i \in 1..Len(E.spec_moles) :
                 Chk("C18.specified_moles_met", <<info, i, E.spec_moles[i], o.moles[i], l>>, o.moles[i], E.spec_moles[i], TolMoles(o), FAbs(E.spec_moles[i]), "0"))
          /\ ((tight /\ hasRef /\ E.spec = "ChemicalPotential") =>
                 /\ (Has(E, "surface_tension") /\ Has(refobs[k], "surface_tension") =>
                        Chk("C18.observables_agree", <<info, "surface tension", l>>, E.surface_tension, refobs[k].surface_tension, "1e-6", FAbs(refobs[k].surface_tension), "0"))
                 /\ (~Has(E, "surface_tension") =>
                        /\ Chk("C18.observables_agree", <<info, "grand potential", l>>, o.omega, refobs[k].obs.omega, "1e-6", FAbs(refobs[k].obs.omega), "0")
                        /\ Chk("C18.observables_agree", <<info, "adsorbed amount", l>>, FSum(o.moles), FSum(refobs[k].obs.moles), "1e-6", FSum(refobs[k].obs.moles), "0"))
                 \* excess observables of solvation profiles (name, value, magnitude of the quantity it is the excess of): path independent like the others
                 /\ ((Has(E, "observables") /\ Has(refobs[k], "observables")) =>
                        \A i \in 1..Len(E.observables) :
                          Chk("C18.observables_agree", <<info, E.observables[i][1], l>>, E.observables[i][2], refobs[k].observables[i][2], "1e-6",
                              FAdd(FAbs(refobs[k].observables[i][2]), FMul(TolExcess, FAbs(refobs[k].observables[i][3]))), "0")))
          \* what the SolvationProfile / PairCorrelation wrapper stores after solving is computed from the profile it holds
          /\ (Has(E, "stored") => \A i \in 1..Len(E.stored) :
                 Chk("C18.stored_grand_potential_belongs_to_profile", <<info, E.stored[i][1], E.stored[i][2], E.stored[i][3], l>>, E.stored[i][2], E.stored[i][3], "1e-9",
                     FAdd(FAbs(E.stored[i][3]), FAbs(o.omega)), "0")))
     /\ (~E.ok /\ E.err = NotConvergedMsg =>
          \* the log is stored before Err(NotConverged) is returned: the same stage laws, with a last stage that missed its tolerance
          /\ Report("C18.log_is_behaviour_of_chain", <<info, o.runs, l>>, LogFollowsChain(E, E.chain, o.runs))
          /\ (Separable(E) /\ LogFollowsChain(E, E.chain, o.runs) =>
                 Report("C18.stages_are_DftSolver_steps", <<info, o.runs, l>>, StageLaws(E, o.runs))))
     /\ refobs' = IF E.ok /\ tight /\ ~hasRef /\ E.spec = "ChemicalPotential" THEN (k :> E) @@ refobs ELSE refobs
     /\ cnt' = BumpAll(cnt, {"solves", "solve_spec:" \o E.spec} \cup (IF E.ok THEN {"solves_ok", "solve_ok:" \o E.system} ELSE {"solves_err"})
                  \cup (IF E.ok /\ tight THEN {"solves_ok_tight"} ELSE {}) \cup (IF E.ok /\ E.spec # "ChemicalPotential" /\ tight THEN {"solves_ok_with_moles_spec"} ELSE {})
                  \cup (IF E.ok THEN {"solve_init:" \o E.init} ELSE {})
                  \cup (IF E.ok /\ tight /\ hasRef /\ E.spec = "ChemicalPotential" THEN {"observables_compared"} ELSE {})
                  \cup (IF (E.ok \/ E.err = NotConvergedMsg) /\ Separable(E) THEN {"stage_laws_checked"} ELSE {})
                  \cup (IF ~E.ok /\ E.err = NotConvergedMsg THEN {"solves_not_converged"} ELSE {})
                  \cup (IF E.ok /\ ~E.default_solver THEN {"solve_ok_last:" \o E.chain[Len(E.chain)].algo} ELSE {}))


\* ---------------------------------------------------------------- C19
(* Response of a solved profile in a FIXED external potential to its bulk state.  The recorder re-solves the profile at  *)
(* neighbouring bulk states (each partial density, the pressure at constant T and x, the temperature at constant p and  *)
(* x; relative steps -2h, -h, +h, +2h) and logs N_i, Omega and the bulk chemical potentials mu_i (up to a function of  *)
(* T).  With St(.) the 4th-order difference over the four neighbours (common factor 1/(12 h) dropped on both sides):    *)
(*   Gibbs adsorption     St(Omega) = - sum_k N_k St(mu_k)                       along every partial density          *)
(*   dn_dmu               St(N_i)   =   sum_k (dN_i/dmu_k) St(mu_k)              along every partial density          *)
(*   dn_dp, dn_dt         St(N_i) / (h p) = dN_i/dp,   St(N_i) / (h T) = dN_i/dT                                       *)
(*   Maxwell              dN_i/dmu_k = dN_k/dmu_i,  dN_i/dmu_i > 0                                                      *)
(*   enthalpy of adsorption   sum_i (dN_i/dmu_k) h_i = - T dN_k/dT,   h_ads = sum_i x_i h_i                             *)
(* The three derivative laws are identities of the discrete solution map and hold to difference-quotient accuracy on    *)
(* every grid; the Gibbs relation needs the functional derivative to be the gradient of the discrete functional and    *)
(* inherits the adjointness defect of curved grids (C17).                                                                *)
St4(P) == FAdd(FSub(FMul("8", FSub(P[3], P[2])), P[4]), P[1])
NodeCol(nodes, f) == [k \in 1..4 |-> nodes[k][f]]
NodeColI(nodes, f, i) == [k \in 1..4 |-> nodes[k][f][i]]
RInfo == <<E.functional, E.geometry, E.potential, E.pore_size, E.T_reduced, E.fraction_of_saturation>>
\* relative tolerance of a difference quotient of re-solved profiles: truncation + solver noise (absolute residual of the
\* density vs the smallest bulk partial density, amplified by 1/h)
AllNodes(e) == e.p_nodes \o e.t_nodes \o [k \in 1..(4 * Len(e.rho_nodes)) |-> e.rho_nodes[((k - 1) \div 4) + 1][((k - 1) % 4) + 1]]
MaxResidual(e) == FMaxAbs([k \in 1..Len(AllNodes(e)) |-> AllNodes(e)[k].residual] \o <<e.base.residual>>)
MinRho(e) == LET r == e.base.rho IN r[CHOOSE i \in 1..Len(r) : \A j \in 1..Len(r) : FLe(r[i], r[j])]
Noise(e) == FDiv(FMul("50", MaxResidual(e)), FMul(e.h, MinRho(e)))
Curved(g) == g # "slit"
\* dn_dmu is a derivative of the discrete solution map w.r.t. a bulk quantity entering the Euler-Lagrange equation analytically: exact on every
\* grid.  dn_dp, dn_dt: calibrated on the pinned tree at 1e-5 (slit; association and the min() in the DoubleWell potential limit the smoothness
\* of N(T)); on polar and spherical grids N(T) of the re-solved profiles is itself not smooth at the 1e-3 level for some resolutions (the
\* difference quotients at 256 / 2048 points agree with dn_dt to 1e-7, those at 512 / 1024 points to 4e-4 .. 2e-3), hence the wide band there.
TolDmu(e) == FAdd("1e-5", Noise(e))
TolDp(e) == FAdd("1e-4", Noise(e))
\* cylindrical grids: dn_dt inherits the adjointness defect of the cylindrical convolution (C17) just as the Gibbs relation does (band 0.15 there); measured 2.1e-2
\* (PC-SAFT carbon dioxide, Steele pore, 512 points, with a Gibbs defect of 2.6e-2 on the same profile)
TolDt(e) == FAdd(IF e.geometry = "cylindrical" THEN "5e-2" ELSE IF Curved(e.geometry) THEN "2e-2" ELSE "1e-4", Noise(e))
\* Gibbs adsorption and the symmetry of dn_dmu need the functional derivative to be the gradient of the discrete functional: exact on Cartesian
\* grids; calibrated bounds on curved grids (measured worst cases: cylindrical 3.3e-2 / 5e-5, spherical at 512 points 3.1e-3 / 7e-5)
TolGibbs(g, n) == IF g = "slit" THEN "1e-7"
                  ELSE IF g = "spherical" THEN FAdd("2e-4", FMul("4e-2", FPowInt(FOfRatio(512, n), 2)))
                  ELSE "0.15"
TolSym(g) == IF g = "slit" THEN "1e-8" ELSE "1e-3"
Response ==
  /\ Ev("Response")
  /\ LET nc == E.components
         b == E.base
         ok == E.complete /\ E.derivatives_ok
     IN
     /\ Report("C19.derivatives_available", <<RInfo, IF Has(E, "why") THEN E.why ELSE "", l>>, E.derivatives_ok)
     /\ (ok =>
          /\ \A j \in 1..nc :
               LET nd == E.rho_nodes[j]
                   dmu == [k \in 1..nc |-> St4(NodeColI(nd, "mu", k))]
                   dom == St4(NodeCol(nd, "omega"))
                   rhs == FNeg(FDot(b.N, dmu))
               IN /\ Chk("C19.gibbs_adsorption", <<RInfo, j, dom, rhs, l>>, dom, rhs, FAdd(Noise(E), TolGibbs(E.geometry, E.points)), FDotAbs(b.N, dmu), "0")
                  /\ \A i \in 1..nc :
                       LET dn == St4(NodeColI(nd, "N", i))
                           col == [k \in 1..nc |-> E.dn_dmu[k][i]]
                           scl == FSum([ii \in 1..nc |-> FDotAbs([k \in 1..nc |-> E.dn_dmu[k][ii]], dmu)])
                       IN Chk("C19.dn_dmu", <<RInfo, j, i, dn, FDot(col, dmu), l>>, dn, FDot(col, dmu), TolDmu(E), scl, "0")
          /\ \A i \in 1..nc :
               /\ Chk("C19.dn_dp", <<RInfo, i, l>>, FDiv(St4(NodeColI(E.p_nodes, "N", i)), FMul("12", FMul(E.h, b.p))), E.dn_dp[i], TolDp(E), FSumAbs(E.dn_dp), "0")
               /\ Chk("C19.dn_dt", <<RInfo, i, l>>, FDiv(St4(NodeColI(E.t_nodes, "N", i)), FMul("12", FMul(E.h, b.T))), E.dn_dt[i], TolDt(E), FSumAbs(E.dn_dt), "0")
               \* a positive diagonal of dn_dmu is a property of STABLE profiles; the Newton polish also converges to unstable stationary points (found: a
               \* cross-associating mixture with dN/dp < 0 for both components), and C19 does not speak about stability: judged on the stable branch only
               /\ ((\A j \in 1..Len(E.dn_dp) : FLt("0", E.dn_dp[j])) => Report("C19.dn_dmu_positive", <<RInfo, i, E.dn_dmu[i][i], l>>, FLt("0", E.dn_dmu[i][i])))
               /\ \A k \in 1..nc : Chk("C19.dn_dmu_symmetric", <<RInfo, i, k, l>>, E.dn_dmu[i][k], E.dn_dmu[k][i], TolSym(E.geometry), FSqrt(FAbs(FMul(E.dn_dmu[i][i], E.dn_dmu[k][k]))), "0")
          /\ (Has(E, "h_partial") =>
                /\ \A k \in 1..nc : Chk("C19.enthalpy_of_adsorption_partial", <<RInfo, k, l>>, FDot(E.dn_dmu[k], E.h_partial), FNeg(FMul(b.T, E.dn_dt[k])), "1e-8",
                                          FAdd(FDotAbs(E.dn_dmu[k], E.h_partial), FAbs(FMul(b.T, E.dn_dt[k]))), "0")
                /\ (Has(E, "h_ads") => Chk("C19.enthalpy_of_adsorption", <<RInfo, l>>, E.h_ads, FDot(E.x, E.h_partial), "1e-10", FDotAbs(E.x, E.h_partial), "0"))))
  /\ cnt' = BumpAll(cnt, {"responses", "response:" \o E.geometry, "response_potential:" \o E.potential, "functional:" \o E.functional}
                \cup (IF E.complete /\ E.derivatives_ok THEN {"responses_judged"} ELSE {}) \cup (IF E.components > 1 THEN {"responses_mixture"} ELSE {})
                \cup (IF E.chain THEN {"responses_chain"} ELSE {}))
  /\ UNCHANGED refobs

(* Henry limit: N_i / (x_i p) -> H_i for p -> 0.  The recorder logs a ladder of bulk states whose density decreases by a    *)
(* factor 4 per rung; with r_k the ratio at rung k, the linear extrapolation E_k = (4 r_(k+1) - r_k) / 3 removes the term    *)
(* linear in p, so |E_k - H| is bounded by the quadratic term, itself bounded by the last difference |r_(k+1) - r_k|;       *)
(* judged on the three lowest rungs of a complete ladder (at higher pressures the linear and quadratic terms may cancel).     *)
(* Temperature dependence: the reported ideal-gas enthalpy of adsorption equals R d ln H / d(1/T) = - T^2 d ln H / dT.        *)
HInfo == <<E.functional, E.geometry, E.potential, E.pore_size, E.T_reduced>>
Henry ==
  /\ Ev("Henry")
  /\ LET pan == Has(E, "panic") IN
     /\ Report("C19.henry_available", <<HInfo, IF pan THEN E.panic ELSE "", l>>, ~pan \/ E.segments_m_not_one)
     /\ (~pan /\ Len(E.t_nodes) = 5 =>
           LET t0 == E.t_nodes[1]  nc == Len(t0.henry) IN
           /\ \A i \in 1..nc :
                LET lnH == [k \in 1..4 |-> FLn(E.t_nodes[k + 1].henry[i])]
                    d == FDiv(St4(lnH), FMul("12", FMul(E.h, E.T)))
                IN /\ Report("C19.henry_positive", <<HInfo, i, t0.henry[i], l>>, FLt("0", t0.henry[i]) /\ FFinite(t0.henry[i]))
                   /\ Chk("C19.ideal_gas_enthalpy_of_adsorption", <<HInfo, i, l>>, t0.h_ig[i], FNeg(FMul(FMul(E.T, E.T), d)), "1e-7", FAdd(FAbs(t0.h_ig[i]), E.T), "0")
           /\ (Len(E.ladder) = 6 =>
                 \A i \in 1..nc : \A k \in (Len(E.ladder) - 3)..(Len(E.ladder) - 1) : k >= 1 =>
                    LET r(kk) == FDiv(E.ladder[kk].N[i], FMul(E.ladder[kk].p, E.ladder[kk].x[i]))
                        ek == FDiv(FSub(FMul("4", r(k + 1)), r(k)), "3")
                    IN Chk("C19.henry_limit", <<HInfo, i, k, ek, t0.henry[i], l>>, ek, t0.henry[i], "1e-4", FAbs(t0.henry[i]), FMul("0.35", FAbs(FSub(r(k + 1), r(k)))))))
  /\ cnt' = BumpAll(cnt, {"henry_cases", "henry:" \o E.geometry, "henry_potential:" \o E.potential, "functional:" \o E.functional}
                \cup (IF Has(E, "panic") THEN {"henry_refused_for_chains"} ELSE {})
                \cup (IF ~Has(E, "panic") /\ Len(E.ladder) = 6 THEN {"henry_limits_judged"} ELSE {}))
  /\ UNCHANGED refobs

(* Planar interfaces.  SurfaceTension: one temperature, several (box length, points): every solved run reports the same     *)
(* surface tension; pDGT stays within the calibrated band; the interface initialised from pDGT gives the same value.         *)
(* SurfaceTensionCurve: gamma decreases with temperature and vanishes towards the critical point at least like the          *)
(* mean-field law (1 - T/Tc)^(3/2) (these functionals are mean-field theories) within a factor; the diagram driver returns  *)
(* a sub-sequence of the requested temperatures and each of its values equals the stand-alone value.                         *)
TolGammaGrid == "2e-4"      \* measured: <= 1.2e-5 for every box at least 4.6 interfacial thicknesses long (dz up to 1.2 A)
TolPdgt == "0.2"
SInfo == <<E.functional, E.T_reduced>>
OkRuns(runs) == SelectSeq(runs, LAMBDA r : r.ok)
\* a box shorter than 4 interfacial (90-10) thicknesses truncates the tails of the profile: finite-size effect, not judged
WideRuns(runs) == SelectSeq(runs, LAMBDA r : r.ok /\ FLe(FMul("4", r.thickness), r.L))
SurfaceTension ==
  /\ Ev("SurfaceTension")
  /\ LET ok == WideRuns(E.runs) IN
     /\ (Len(ok) >= 1 =>
          LET g0 == ok[1].gamma IN
          /\ Report("C19.surface_tension_positive", <<SInfo, g0, l>>, FLt("0", g0) /\ FFinite(g0))
          /\ \A k \in 2..Len(ok) : Chk("C19.surface_tension_grid_independent", <<SInfo, ok[k].L, ok[k].n, ok[1].L, ok[1].n, l>>, ok[k].gamma, g0, TolGammaGrid, FAbs(g0), "0")
          /\ (Has(E, "gamma_pdgt") => Chk("C19.pdgt_close_to_dft", <<SInfo, E.gamma_pdgt, g0, l>>, E.gamma_pdgt, g0, TolPdgt, FAbs(g0), "0"))
          /\ (Has(E, "from_pdgt") /\ E.from_pdgt.ok => Chk("C19.surface_tension_grid_independent", <<SInfo, "from_pdgt", E.from_pdgt.L, l>>, E.from_pdgt.gamma, g0, TolGammaGrid, FAbs(g0), "0")))
  /\ cnt' = BumpAll(BumpBy(BumpBy(BumpBy(cnt, "interface_solves", Len(E.runs)), "interface_solves_ok", Len(OkRuns(E.runs))), "interface_solves_judged", Len(WideRuns(E.runs))),
                {"surface_tension_cases", "functional:" \o E.functional} \cup (IF Has(E, "gamma_pdgt") THEN {"pdgt_compared"} ELSE {}))
  /\ UNCHANGED refobs

CInfo == <<E.functional>>
SurfaceTensionCurve ==
  /\ Ev("SurfaceTensionCurve")
  /\ LET pts == SelectSeq(E.curve \o E.near_critical, LAMBDA c : Has(c, "gamma"))
         one == "1"
     IN
     /\ \A k \in 1..(Len(pts) - 1) :
          /\ Report("C19.surface_tension_decreases_with_temperature", <<CInfo, pts[k], pts[k + 1], l>>, FLt(pts[k].T_reduced, pts[k + 1].T_reduced) => FLt(pts[k + 1].gamma, pts[k].gamma))
          /\ Report("C19.surface_tension_vanishes_at_critical_point", <<CInfo, pts[k], pts[k + 1], l>>,
                    FLe(pts[k + 1].gamma, FMul("2", FMul(pts[k].gamma, FPow(FDiv(FSub(one, pts[k + 1].T_reduced), FSub(one, pts[k].T_reduced)), "1.5")))))
     /\ \A d \in 1..Len(E.diagrams) :
          LET dg == E.diagrams[d] IN
          /\ Report("C19.diagram_is_subsequence", <<CInfo, dg.init_densities, dg.T_reduced, l>>,
                    Len(dg.gamma) <= dg.requested /\ \A k \in 1..(Len(dg.T_reduced) - 1) : FLt(dg.T_reduced[k], dg.T_reduced[k + 1]))
          /\ \A k \in 1..Len(dg.gamma) : \A c \in 1..Len(E.curve) :
               (Has(E.curve[c], "gamma") /\ FClose(E.curve[c].T_reduced, dg.T_reduced[k], "1e-9", "1", "0")) =>
                  Chk("C19.diagram_point_is_standalone", <<CInfo, dg.init_densities, dg.T_reduced[k], l>>, dg.gamma[k], E.curve[c].gamma, TolGammaGrid, FAbs(E.curve[c].gamma), "0")
  /\ cnt' = BumpAll(BumpBy(cnt, "surface_tension_curve_points", Len(SelectSeq(E.curve \o E.near_critical, LAMBDA c : Has(c, "gamma")))),
                {"surface_tension_curves"} \cup (IF \E d \in 1..Len(E.diagrams) : Len(E.diagrams[d].gamma) < E.diagrams[d].requested THEN {"diagrams_with_dropped_points"} ELSE {}))
  /\ UNCHANGED refobs

(* Adsorption isotherm drivers (continuation in pressure with hysteresis).  On any branch N does not decrease with p.  The    *)
(* equilibrium isotherm is the lower envelope of branches each of which has dOmega/dmu = -N with N increasing, hence concave *)
(* in mu: between consecutive points  -N_(k+1) dmu <= dOmega <= -N_k dmu  (no tolerance other than discretisation).         *)
(* The same bracket holds on the adsorption / desorption branch wherever the branch is continuous; a step is taken as      *)
(* continuous when N grows by less than the square of the pressure ratio.                                                    *)
IInfo == <<E.functional, E.geometry, E.T_reduced, E.pore_size>>
OkIdx(a) == {k \in 1..Len(a.ok) : a.ok[k]}
Bracket(a, k, slack) ==
  LET dmu == FSub(a.mu[k + 1], a.mu[k])
      dom == FSub(a.omega[k + 1], a.omega[k])
      lo == FNeg(FMul(FMax(a.N[k], a.N[k + 1]), dmu))
      hi == FNeg(FMul(FMin(a.N[k], a.N[k + 1]), dmu))
      s == FMul(slack, FAbs(lo))
  IN FLe(FSub(lo, s), dom) /\ FLe(dom, FAdd(hi, s))
Continuous(a, k) == FLe(FMul(a.N[k + 1], FMul(a.p[k], a.p[k])), FMul(a.N[k], FMul(a.p[k + 1], a.p[k + 1])))
BranchLaws(name, a, needCont) ==
  \A k \in 1..(Len(a.ok) - 1) : (a.ok[k] /\ a.ok[k + 1]) =>
     /\ Report("C19.isotherm_pressures_increase", <<IInfo, name, k, l>>, FLt(a.p[k], a.p[k + 1]))
     /\ Report("C19.isotherm_adsorption_monotone", <<IInfo, name, k, a.N[k], a.N[k + 1], l>>, FLe(a.N[k], FMul("1.000001", a.N[k + 1])))
     /\ ((~needCont \/ Continuous(a, k)) => Report("C19.isotherm_gibbs_bracket", <<IInfo, name, k, l>>, Bracket(a, k, FAdd("1e-6", TolGibbs(E.geometry, E.points)))))
Isotherm ==
  /\ Ev("Isotherm")
  /\ Report("C19.isotherm_no_panic", <<IInfo, IF Has(E, "panic") THEN E.panic ELSE "", l>>, ~Has(E, "panic"))
  /\ (Has(E, "adsorption") => BranchLaws("adsorption", E.adsorption, TRUE))
  /\ (Has(E, "desorption") => BranchLaws("desorption", E.desorption, TRUE))
  /\ (Has(E, "equilibrium") => BranchLaws("equilibrium", E.equilibrium, FALSE))
  /\ ((Has(E, "adsorption") /\ Has(E, "desorption") /\ Has(E, "equilibrium") /\ Len(E.equilibrium.ok) = E.requested) =>
        \A k \in 1..E.requested : (E.adsorption.ok[k] /\ E.desorption.ok[k] /\ E.equilibrium.ok[k]) =>
           /\ Chk("C19.equilibrium_isotherm_is_lower_envelope", <<IInfo, k, l>>, E.equilibrium.omega[k], FMin(E.adsorption.omega[k], E.desorption.omega[k]), "1e-7",
                   FAbs(E.equilibrium.omega[k]), "0")
           /\ Report("C19.desorption_branch_not_below_adsorption_branch", <<IInfo, k, l>>, FLe(E.adsorption.N[k], FMul("1.000001", E.desorption.N[k]))))
  /\ cnt' = BumpAll(cnt, {"isotherms"} \cup (IF Has(E, "adsorption") THEN {"isotherm_adsorption"} ELSE {}) \cup (IF Has(E, "desorption") THEN {"isotherm_desorption"} ELSE {})
                \cup (IF Has(E, "equilibrium") THEN {"isotherm_equilibrium"} ELSE {}))
  /\ UNCHANGED refobs

\* PoreProfile stores the grand potential and the interfacial tension when it is solved.  Whatever was solved before (another solver, a debug
\* pre-relaxation, a bulk state replaced directly or through update_bulk), what is stored after a successful solve belongs to the profile it holds.
Resolve ==
  /\ Ev("Resolve")
  /\ \A k \in 1..Len(E.after) :
       LET a == E.after[k]  info == <<E.functional, E.history, k, a.step>> IN
       /\ Chk("C18.stored_grand_potential_belongs_to_profile", <<info, a.omega_stored, a.omega_recomputed, l>>, a.omega_stored, a.omega_recomputed, "1e-9", FAbs(a.omega_recomputed), "0")
       /\ Chk("C18.stored_grand_potential_belongs_to_profile", <<info, "interfacial tension", a.tension_stored, a.tension_recomputed, l>>, a.tension_stored, a.tension_recomputed,
              "1e-9", FAdd(FAbs(a.omega_recomputed), FAbs(a.tension_recomputed)), "0")
  /\ cnt' = BumpAll(cnt, {"resolve_histories"} \cup (IF E.ok THEN {"resolve_histories_completed"} ELSE {}))
  /\ UNCHANGED refobs

SkipEv == /\ Ev("Skip") /\ cnt' = Bump(cnt, "skipped") /\ UNCHANGED refobs

Init == l = 1 /\ cnt = NoCount /\ refobs = <<>>
Next == /\ (Uniform \/ Panic \/ Solve \/ SkipEv \/ Var1 \/ Var2 \/ Adjoint \/ BondVar \/ Response \/ Henry \/ SurfaceTension \/ SurfaceTensionCurve \/ Isotherm \/ Resolve)
        /\ (l' > NRec => PrintT("STATS " \o ToJson(cnt')))
TraceSpec == Init /\ [][Next]_vars
================================================================================
