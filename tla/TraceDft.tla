-------------------------------- MODULE TraceDft --------------------------------
(***************************************************************************)
(* Trace specification of the classical-DFT properties.                    *)
(* C16 (action Uniform): a density profile equal to the bulk density with  *)
(* no external potential is an exact solution of the discretised problem   *)
(* on every grid: weighted densities uniform, Euler-Lagrange residual 0,   *)
(* grand potential density -p, N = rho V, reported volume = integral of 1  *)
(* with the grid's own weights, hence zero excess grand potential.         *)
(***************************************************************************)
EXTENDS TraceIO

VARIABLES l, cnt
vars == <<l, cnt>>
E == Rec[l]
Ev(name) == l <= NRec /\ E.ev = name /\ l' = l + 1

RtolUniform == "1e-10"
RtolVolume == "1e-5"

Uniform ==
  /\ Ev("Uniform")
  /\ LET info == <<E.functional, E.state, E.grid, E.points, E.lanczos>>
         pV == FMul(E.p_bulk, E.volume_reported)
         nat == FMul(FSum(E.rho_bulk), "300")     \* rho * T-scale: natural magnitude of pressures of the functional
     IN
     /\ Chk("C16.density_is_bulk", <<info, "min", l>>, E.density_minmax[1], E.rho_bulk_minmax[1], RtolUniform, FAbs(E.rho_bulk_minmax[1]), "0")
     /\ Chk("C16.density_is_bulk", <<info, "max", l>>, E.density_minmax[2], E.rho_bulk_minmax[2], RtolUniform, FAbs(E.rho_bulk_minmax[2]), "0")
     /\ \A c \in 1..Len(E.weighted_densities) : \A k \in 1..Len(E.weighted_densities[c]) :
          LET w == E.weighted_densities[c][k] IN
          Chk("C16.weighted_densities_uniform", <<info, c, k, w, l>>, w[1], w[2], RtolUniform, FMax(FAbs(w[1]), FAbs(w[2])), "1e-13")
     /\ Report("C16.residual_is_zero", <<info, E.residual, l>>,
               E.residual.ok /\ FLe(FAbs(E.residual.min), "1e-9") /\ FLe(FAbs(E.residual.max), "1e-9") /\ FLe(FAbs(E.residual.norm), "1e-9"))
     /\ Chk("C16.grand_potential_density_is_minus_p", <<info, "min", l>>, E.omega_minmax[1], FNeg(E.p_bulk), "1e-9", FAbs(E.p_bulk), FMul("1e-12", E.rho_bulk_minmax[2]))
     /\ Chk("C16.grand_potential_density_is_minus_p", <<info, "max", l>>, E.omega_minmax[2], FNeg(E.p_bulk), "1e-9", FAbs(E.p_bulk), FMul("1e-12", E.rho_bulk_minmax[2]))
     /\ \A i \in 1..Len(E.moles) :
          Chk("C16.moles_is_rho_times_volume", <<info, i, l>>, E.moles[i], FMul(E.rho_bulk[i], E.volume_integrated), "1e-9", FAbs(E.moles[i]), "0")
     /\ Chk("C16.volume_is_integral_of_one", <<info, E.volume_reported, E.volume_integrated, l>>, E.volume_reported, E.volume_integrated, RtolVolume, FAbs(E.volume_integrated), "0")
     /\ Chk("C16.zero_excess_grand_potential", <<info, E.grand_potential, pV, l>>, FAdd(E.grand_potential, pV), "0", RtolVolume, FAdd(FAbs(E.grand_potential), FAbs(pV)), "0")
  /\ cnt' = BumpAll(cnt, {"uniform_profiles", "grid:" \o E.grid, "functional:" \o E.functional} \cup (IF E.lanczos THEN {"lanczos"} ELSE {}))

Panic == /\ Ev("Panic")
         /\ Report("C16.no_panic", <<E.functional, E.grid, E.msg, l>>, FALSE)
         /\ cnt' = Bump(cnt, "panics")

Init == l = 1 /\ cnt = NoCount
Next == /\ (Uniform \/ Panic)
        /\ (l' > NRec => PrintT("STATS " \o ToJson(cnt')))
TraceSpec == Init /\ [][Next]_vars
================================================================================
