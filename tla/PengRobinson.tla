----------------------------- MODULE PengRobinson -----------------------------
(* The Peng-Robinson equation of state in SI units, textbook form (Peng & Robinson 1976), with van der Waals
   one-fluid mixing rules and binary interaction parameter k_ij:
     p = R T / (v - b) - a(T) / (v^2 + 2 b v - b^2)
     a_i = 0.45724 R^2 Tc_i^2 / pc_i * [1 + kappa_i (1 - sqrt(T/Tc_i))]^2,  kappa = 0.37464 + 1.54226 w - 0.26992 w^2
     b_i = 0.07780 R Tc_i / pc_i,   a = sum_ij x_i x_j sqrt(a_i a_j) (1 - k_ij),   b = sum_i x_i b_i           *)
EXTENDS Naturals, Sequences, Float64
RGas == FMul("1.380649e-23", "6.02214076e23")
Kappa(w) == FAdd("0.37464", FSub(FMul("1.54226", w), FMul("0.26992", FMul(w, w))))
Alpha(T, tc, w) == LET s == FAdd("1", FMul(Kappa(w), FSub("1", FSqrt(FDiv(T, tc))))) IN FMul(s, s)
APure(T, tc, pc, w) == FMul(FDiv(FMul("0.45724", FMul(FMul(RGas, RGas), FMul(tc, tc))), pc), Alpha(T, tc, w))
BPure(tc, pc) == FDiv(FMul("0.07780", FMul(RGas, tc)), pc)
AMix(T, tc, pc, w, x, kij) ==
  LET n == Len(x)
      a == [i \in 1..n |-> APure(T, tc[i], pc[i], w[i])]
  IN FSum([p \in 1..(n * n) |->
        LET i == ((p - 1) \div n) + 1
            j == ((p - 1) % n) + 1
        IN FMul(FMul(x[i], x[j]), FMul(FSqrt(FMul(a[i], a[j])), IF i = j THEN "1" ELSE FSub("1", kij)))])
BMix(tc, pc, x) == FDot(x, [i \in 1..Len(x) |-> BPure(tc[i], pc[i])])
Pressure(T, v, tc, pc, w, x, kij) ==
  LET a == AMix(T, tc, pc, w, x, kij)
      b == BMix(tc, pc, x)
  IN FSub(FDiv(FMul(RGas, T), FSub(v, b)), FDiv(a, FSub(FAdd(FMul(v, v), FMul("2", FMul(b, v))), FMul(b, b))))
PressureScale(T, v, tc, pc, w, x, kij) ==
  LET a == AMix(T, tc, pc, w, x, kij)
      b == BMix(tc, pc, x)
  IN FAdd(FDiv(FMul(RGas, T), FSub(v, b)), FAbs(FDiv(a, FSub(FAdd(FMul(v, v), FMul("2", FMul(b, v))), FMul(b, b)))))
================================================================================
