------------------------------ MODULE MinimizeTpd ------------------------------
(* The minimisation of the tangent-plane distance of one trial phase (feos-core/src/phase_equilibria/stability_analysis.rs: minimize_tpd), the loop's
   decisions transcribed over Float64.  One action per iteration; the environment supplies what the thermodynamics produces in that iteration:

     err      the residual of the step (successive substitution: sum |y_i / sum y - x_i|; Newton: sum |gradient_i|)
     t        the tangent-plane distance after the step
     triv     is_trivial_solution(feed, trial) after the step
     fail     a density iteration or the LU decomposition failed (`?`)

   What the code decides from them: the switch to the Newton scheme (from the NEXT iteration on, never back), the trivial exit (None), the tolerance that
   is RELAXED by 10 / 100 / 1000 the more negative the distance is (and tightened again from 100 / 1000 to 10 when the distance rises above -0.1: the
   three `if`s overwrite each other in sequence - TLC exhibits it, MinimizeTpd_tighten.cfg), convergence (Some(tpd)), NotConverged after max_iter.
   Bound to the code by hook H11 (TraceMinimizeTpd.tla replays every recorded minimisation as a behaviour of this module). *)
EXTENDS Naturals, Float64
CONSTANTS MaxIterChoices, TolChoices, ErrChoices, TpdChoices     \* finite sets for model checking (doubles as strings)
VARIABLES pc,       \* "idle" | "iter" | "done"
          i,        \* iterations done
          newton,   \* the next iteration is a Newton step
          stol,     \* scaled tolerance
          tpd,      \* tangent-plane distance of the current iterate
          tol, maxit,
          lasterr, lasttriv,
          result    \* "none" | "Some" | "None" | "NotConverged" | "Error"
vars == <<pc, i, newton, stol, tpd, tol, maxit, lasterr, lasttriv, result>>

Init == /\ pc = "idle" /\ i = 0 /\ newton = FALSE /\ stol = "1e-6" /\ tpd = "1e10" /\ tol = "1e-6" /\ maxit = 0
        /\ lasterr = "1e0" /\ lasttriv = FALSE /\ result = "none"
Start(mi, tl) ==
  /\ pc \in {"idle", "done"}
  /\ pc' = "iter" /\ i' = 0 /\ newton' = FALSE /\ stol' = tl /\ tpd' = "1e10" /\ tol' = tl /\ maxit' = mi
  /\ lasterr' = "1e0" /\ lasttriv' = FALSE /\ result' = "none"

\* the tolerance after an iteration that ended with distance t (three `if`s in sequence, each overwriting)
Scaled(cur, t, k) ==
  LET s1 == IF FLt(t, "-1e-2") THEN FMul(tol, "1e1") ELSE cur
      s2 == IF FLt(t, "-1e-1") THEN FMul(tol, "1e2") ELSE s1
  IN IF FLt(t, "-1e-1") /\ k > 5 THEN FMul(tol, "1e3") ELSE s2
\* the switch is decided inside the substitution branch, with the tolerance of the PREVIOUS iteration and the distance before / after the step
Switch(err, told, t, k) == (k > 4 /\ FLt(stol, err)) \/ (FLt(FAdd(told, "1e-5"), t) /\ k > 2)

Iterate(err, t, triv) ==
  /\ pc = "iter" /\ i < maxit
  /\ i' = i + 1 /\ tpd' = t /\ lasterr' = err /\ lasttriv' = triv
  /\ newton' = (newton \/ Switch(err, tpd, t, i + 1))
  /\ IF triv THEN /\ pc' = "done" /\ result' = "None" /\ UNCHANGED stol
     ELSE LET s == Scaled(stol, t, i + 1) IN
          /\ stol' = s
          /\ IF FLt(err, s) THEN pc' = "done" /\ result' = "Some" ELSE pc' = "iter" /\ UNCHANGED result
  /\ UNCHANGED <<tol, maxit>>
Fail ==
  /\ pc = "iter" /\ i < maxit
  /\ pc' = "done" /\ result' = "Error" /\ UNCHANGED <<i, newton, stol, tpd, tol, maxit, lasterr, lasttriv>>
Exhausted ==
  /\ pc = "iter" /\ i >= maxit
  /\ pc' = "done" /\ result' = "NotConverged" /\ UNCHANGED <<i, newton, stol, tpd, tol, maxit, lasterr, lasttriv>>

Next == \/ \E mi \in MaxIterChoices, tl \in TolChoices : Start(mi, tl)
        \/ \E err \in ErrChoices, t \in TpdChoices, triv \in BOOLEAN : Iterate(err, t, triv)
        \/ Fail \/ Exhausted
Spec == Init /\ [][Next]_vars

Relaxations == {tol, FMul(tol, "1e1"), FMul(tol, "1e2"), FMul(tol, "1e3")}
SomeMeansConverged == result = "Some" => FLt(lasterr, stol) /\ ~lasttriv /\ i >= 1
NoneMeansTrivial == result = "None" => lasttriv
ToleranceIsARelaxation == stol \in Relaxations
RelaxedOnlyForNegativeDistance == (pc = "iter" /\ stol # tol) => i >= 1
NotConvergedIsHonest == result = "NotConverged" => i = maxit
Bounded == i <= maxit \/ pc = "idle"
\* action properties: the Newton scheme is never left; NeverTightened is an expected counter-example (see above)
NewtonStays == [][(i' = i + 1) => (newton => newton')]_vars
NeverTightened == [][(i' > 0 /\ i' = i + 1) => FLe(stol, stol')]_vars
\* expected counter-example: a minimum is accepted at up to 1000 times the requested tolerance
SomeMeansConvergedToTol == result = "Some" => FLt(lasterr, tol)
================================================================================
