SPECIFICATION Spec
CONSTANTS
  NComp = 2
  Objs = {1, 2}
  Threads = {1, 2}
  MaxOps = 3
  Granularity = "split"
  Variant = "ok"
INVARIANTS TypeOK CacheSound ReturnSound
PROPERTY Stable
CHECK_DEADLOCK FALSE
