------------------------- MODULE MCPolylineDistance -------------------------
(* Bounded instance of PolylineDistance: every polyline of 3 or 4 vertices with abscissae from a 5-point grid (strictly increasing, as the
   liquid and vapor curves of a binary diagram are in x) and scaled ordinates from a 4-point grid, against experimental points on and off
   the grid.  One initial state per case; the invariants are the design properties of the residual.

   Variant "distance" is the textbook nearest point of a polyline (projection clamped to each segment, minimum over the segments): it is
   the yardstick for NearestPoint and shows what the function does NOT compute. *)
EXTENDS PolylineDistance, TLC
CONSTANT Variant
VARIABLE c
XG == <<"0", "0.25", "0.5", "0.75", "1">>
YG == <<"0.8", "1", "1.25", "1.6">>
XSets == {s \in SUBSET (1..5) : Cardinality(s) \in {3, 4}}
SeqOfSet(s) == LET F[i \in 0..5] == IF i = 0 THEN <<>> ELSE IF i \in s THEN Append(F[i - 1], XG[i]) ELSE F[i - 1] IN F[5]
Polylines == UNION {{[xv |-> SeqOfSet(s), tpv |-> [k \in 1..Cardinality(s) |-> YG[f[k]]]] : f \in [1..Cardinality(s) -> 1..4]} : s \in XSets}
ExpX == {"0", "0.25", "0.4", "0.5", "0.9", "1"}
ExpTp == {"0.8", "1", "1.1", "2"}
Cases == {[xv |-> p.xv, tpv |-> p.tpv, x |-> x, tp |-> tp] : p \in Polylines, x \in ExpX, tp \in ExpTp}

\* textbook: clamp the parameter to [0, 1], nearest over all segments
Clamp(t) == IF FLt(t, "0") THEN "0" ELSE IF FLt("1", t) THEN "1" ELSE t
Sq(a) == FMul(a, a)
D2(px, py, x) == FAdd(Sq(FSub(px, x)), Sq(FSub(py, "1")))
ClampedFoot(xv, tpv, x, tp, i) ==
  LET t == Clamp(TPar(xv, tpv, x, tp, i)) IN <<FAdd(FMul(t, DX(xv, i)), xv[i]), FAdd(FMul(t, DY(tpv, tp, i)), YV(tpv, tp, i))>>
DistanceFoot(xv, tpv, x, tp) ==
  LET m == Len(xv) - 1
      F == [i \in 1..m |-> ClampedFoot(xv, tpv, x, tp, i)]
      best == CHOOSE i \in 1..m : \A j \in 1..m : FLe(D2(F[i][1], F[i][2], x), D2(F[j][1], F[j][2], x))
  IN <<"distance", F[best][1], F[best][2]>>
TheFoot(k) == IF Variant = "distance" THEN DistanceFoot(k.xv, k.tpv, k.x, k.tp) ELSE Foot(Variant, k.xv, k.tpv, k.x, k.tp)

Init == c \in Cases
Next == UNCHANGED c
Spec == Init /\ [][Next]_c

Close(a, b) == FClose(a, b, "1e-12", "1", "0")
\* the foot point is a point of the polyline: on the carrier line of some segment and inside its bounding box
FootOnPolyline ==
  LET f == TheFoot(c)
      m == Len(c.xv) - 1
      On(i) == LET x1 == c.xv[i]
                   x2 == c.xv[i + 1]
                   y1 == YV(c.tpv, c.tp, i)
                   y2 == YV(c.tpv, c.tp, i + 1)
               IN /\ FLe(FSub(FMin(x1, x2), "1e-12"), f[2]) /\ FLe(f[2], FAdd(FMax(x1, x2), "1e-12"))
                  /\ FLe(FSub(FMin(y1, y2), "1e-12"), f[3]) /\ FLe(f[3], FAdd(FMax(y1, y2), "1e-12"))
                  /\ Close(FMul(FSub(f[2], x1), FSub(y2, y1)), FMul(FSub(f[3], y1), FSub(x2, x1)))
  IN \E i \in 1..m : On(i)
\* an experimental point that is a vertex of the diagram is its own foot point (model-generated target: residual (1, 1))
VertexIsOwnFoot ==
  (\E k \in 1..Len(c.xv) : FEq(c.xv[k], c.x) /\ FEq(YV(c.tpv, c.tp, k), "1"))
    => LET r == IF Variant = "distance" THEN <<FAdd(FSub(TheFoot(c)[2], c.x), "1"), TheFoot(c)[3]>> ELSE Residual(Variant, c.xv, c.tpv, c.x, c.tp)
       IN Close(r[1], "1") /\ Close(r[2], "1")
\* no vertex of the polyline is nearer to the experimental point than the foot point
NearestPoint ==
  LET f == TheFoot(c) IN
  \A k \in 1..Len(c.xv) : FLe(D2(f[2], f[3], c.x), FAdd(D2(c.xv[k], YV(c.tpv, c.tp, k), c.x), "1e-12"))
\* the code and its repair differ only where a parameter is exactly 0 or 1
VariantsDifferOnlyAtVertices ==
  LET m == Len(c.xv) - 1 IN
  (\A i \in 1..m : LET t == TPar(c.xv, c.tpv, c.x, c.tp, i) IN ~FEq(t, "0") /\ ~FEq(t, "1"))
    => Foot("code", c.xv, c.tpv, c.x, c.tp) = Foot("fixed", c.xv, c.tpv, c.x, c.tp)
================================================================================
