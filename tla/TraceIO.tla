------------------------------- MODULE TraceIO -------------------------------
(***************************************************************************)
(* Common machinery of all trace specifications: the recorded trace (an    *)
(* ndjson file named by the environment variable TRACE), the cursor, law   *)
(* reporting that does not stop the run, per-law counters, acceptance.     *)
(***************************************************************************)
EXTENDS Naturals, Sequences, FiniteSets, TLC, Json, IOUtils, Float64, SequencesExt

ASSUME FLoaded   \* the Float64 Java override must be active

Rec == ndJsonDeserialize(IOEnv.TRACE)
NRec == Len(Rec)

\* A law evaluation: TRUE always (so the behaviour continues); prints one line on failure.
\* (IF/THEN/ELSE, not a disjunction: TLC evaluates both disjuncts of an action-level \/ .)
\* Output is one line: LAWFAIL <law> <info as JSON>  (a tuple would be pretty-printed over several lines)
Report(law, info, ok) == IF ok THEN TRUE ELSE PrintT("LAWFAIL " \o law \o " " \o ToJson(info))
Note(tag, info) == PrintT("NOTE " \o tag \o " " \o ToJson(info))

\* A numeric law |a - b| <= rtol * scale + atol.  In calibration mode (CONSTANT Calibrate = TRUE, never in a
\* registered check) nothing is judged; instead every evaluation whose defect exceeds CalMin of its
\* tolerance prints "MARGIN <law> <ratio> <info>", which is how the tolerances were calibrated.
CONSTANT Calibrate
CalMin == "0.01"
Chk(law, info, a, b, rtol, scale, atol) ==
  IF Calibrate
  THEN LET r == FRatio(a, b, rtol, scale, atol) IN
       IF FLt(CalMin, r) THEN PrintT("MARGIN " \o law \o " " \o r \o " " \o ToJson(info)) ELSE TRUE
  ELSE Report(law, info, FClose(a, b, rtol, scale, atol))
\* the same with the five numbers packed in a tuple
ChkT(law, info, t) == Chk(law, info, t[1], t[2], t[3], t[4], t[5])

\* counters: function from names to naturals with a growing domain
Bump(c, name) == IF name \in DOMAIN c THEN [c EXCEPT ![name] = @ + 1] ELSE c @@ (name :> 1)
BumpBy(c, name, n) == IF name \in DOMAIN c THEN [c EXCEPT ![name] = @ + n] ELSE c @@ (name :> n)
BumpAll(c, names) == [k \in DOMAIN c \cup names |->
                        (IF k \in DOMAIN c THEN c[k] ELSE 0) + (IF k \in names THEN 1 ELSE 0)]
NoCount == [k \in {} |-> 0]

\* sets / functions out of JSON arrays
\* ToSet(s) (the set of elements of a sequence) comes from SequencesExt
PairsToFcn(ps) == [k \in {ps[i][1] : i \in 1..Len(ps)} |->
                     ps[CHOOSE i \in 1..Len(ps) : ps[i][1] = k][2]]
Has(r, f) == f \in DOMAIN r

\* acceptance: every line of the trace was consumed
Accepted ==
  LET d == TLCGet("stats").diameter IN
  IF d - 1 = NRec THEN PrintT("ACCEPTED " \o ToString(NRec))
  ELSE /\ PrintT("REJECTED " \o ToString(d) \o " " \o (IF d <= NRec THEN ToJson(Rec[d]) ELSE "eof"))
       /\ FALSE
================================================================================
