---------------------------- MODULE ApaBubbleDew ----------------------------
(* BubbleDew.tla for Apalache: max_iter of both loops is ANY natural number and the outer tolerance may lie on either side of the Newton switch.
   apalache-mc check --init=IndInit --inv=IndInv --length=1 ApaBubbleDew.tla   (IndInv is inductive)
   apalache-mc check --init=Init0 --inv=IndInv --length=0 ApaBubbleDew.tla      (it holds initially)
   IndInv contains OkMeansConverged, NotConvergedIsHonest, NewtonOnlyBelowSwitch and the bounds. *)
EXTENDS Naturals
VARIABLES
  \* @type: Str;
  pc,
  \* @type: Str;
  spec,
  \* @type: Bool;
  given,
  \* @type: Str;
  stage,
  \* @type: Bool;
  big,
  \* @type: Bool;
  small,
  \* @type: Bool;
  trivial,
  \* @type: Bool;
  innerc,
  \* @type: Int;
  ko,
  \* @type: Int;
  ki,
  \* @type: Int;
  steps,
  \* @type: Int;
  maxo,
  \* @type: Int;
  maxi,
  \* @type: Str;
  lastkind,
  \* @type: Str;
  result
BD == INSTANCE BubbleDew WITH MaxOuterChoices <- Nat, MaxInnerChoices <- Nat, TolAboveNewton <- TRUE
Next == BD!Next
IndInv == BD!IndInv
IndInit == BD!IndInv
Init0 == /\ pc = "start" /\ spec \in {"T", "p"} /\ given \in BOOLEAN /\ (spec = "p" => given) /\ stage = "none"
         /\ big = TRUE /\ small = FALSE /\ trivial = FALSE /\ innerc = FALSE /\ ko = 0 /\ ki = 0 /\ steps = 0
         /\ maxo \in Nat /\ maxi \in Nat /\ lastkind = "none" /\ result = "none"
================================================================================
