---- MODULE GenEstimator ----
(* Construction histories of an Estimator: new(k entries), then up to two add_data, the cost vector requested after every operation.
   Entries are drawn from a pool of 3 data sets x 3 weights x 2 losses; TLC enumerates the histories (the harness attaches real data sets). *)
EXTENDS Naturals, Sequences, FiniteSets, TLC, Json, IOUtils, SequencesExt
DSs == <<"vapor_pressure", "liquid_density", "viscosity">>
Ws == <<"1", "3", "0.25">>
Ls == <<"linear", "huber">>
\* a thinned pool keeps the plan small: index triples with an even sum (9 of 18 entries)
Pool == {[ds |-> DSs[t[1]], w |-> Ws[t[2]], loss |-> Ls[t[3]]] : t \in {u \in (1..3) \X (1..3) \X (1..2) : (u[1] + u[2] + u[3]) % 2 = 0}}
News == UNION {[1..k -> Pool] : k \in 0..2}
Adds == UNION {[1..k -> Pool] : k \in 0..2}
Histories == {[new |-> n, adds |-> a] : n \in News, a \in Adds}
Plan == {h \in Histories : Len(h.new) + Len(h.adds) >= 1}
ASSUME /\ ndJsonSerialize(IOEnv.PLAN, SetToSeq(Plan)) /\ PrintT(<<"PLAN", Cardinality(Plan)>>)
VARIABLE zz
GSpec == zz = 0 /\ [][UNCHANGED zz]_zz
====
