----------------------------- MODULE TraceVirial -----------------------------
(***************************************************************************)
(* C13: the virial coefficients a model reports equal the zero-density     *)
(* limit of (Z-1)/rho and of its density derivative, computed from states  *)
(* of the same model, and their temperature derivatives equal the          *)
(* numerical temperature derivative of the coefficient.                    *)
(*                                                                         *)
(* One "Virial" event: B, C, dB/dT, dC/dT at T and at T-2h,T-h,T+h,T+2h,   *)
(* and Z_res at densities rho_k = rho_1 / 2^k.  With f(rho) = Z_res/rho    *)
(* = B + C rho + D rho^2 + ..., polynomial (Neville) extrapolation to      *)
(* rho = 0 of f gives B and of the divided differences of f gives C; the   *)
(* change of the extrapolant when the largest density is dropped estimates *)
(* the discretisation error.                                               *)
(***************************************************************************)
EXTENDS TraceIO

VARIABLES l, cnt
vars == <<l, cnt>>
E == Rec[l]
Ev(name) == l <= NRec /\ E.ev = name /\ l' = l + 1

\* value at 0 of the polynomial through (xs[i], ys[i]), i in a..b
RECURSIVE Neville(_, _, _, _)
Neville(xs, ys, a, b) ==
  IF a = b THEN ys[a]
  ELSE FDiv(FSub(FMul(xs[a], Neville(xs, ys, a + 1, b)), FMul(xs[b], Neville(xs, ys, a, b - 1))), FSub(xs[a], xs[b]))

RtolVirial == "1e-6"
Stencil4V(P, h) == Stencil4(P, h)
DiscErrV(P, h) == FMul("0.3", FAbs(FSub(Stencil4(P, h), Stencil2(<<P[2], P[3]>>, h))))

Virial ==
  /\ Ev("Virial")
  /\ LET e == E
         S == e.series
         m == Len(S)
         rho == [k \in 1..m |-> S[k].rho]
         f == [k \in 1..m |-> FDiv(S[k].zres, S[k].rho)]
         g == [k \in 1..(m - 1) |-> FDiv(FSub(f[k], f[k + 1]), FSub(rho[k], rho[k + 1]))]
         B0 == Neville(rho, f, 1, m)
         B1 == Neville(rho, f, 2, m)
         C0 == Neville(rho, g, 1, m - 1)
         C1 == Neville(rho, g, 2, m - 1)
         vB == FDiv("1", e.rho_max)                 \* natural magnitudes of B and C
         vC == FDiv(vB, e.rho_max)
         errB == FAbs(FSub(B0, B1))
         errC == FAbs(FSub(C0, C1))
         at == e.at
         Bn == [k \in 1..4 |-> e.Tn[k].B]
         Cn == [k \in 1..4 |-> e.Tn[k].C]
         \* the extrapolation is meaningful only in the asymptotic regime |B rho_1| << 1
         asym == FLe(FAbs(S[1].zres), "0.05")
     IN /\ Report("C13.finite", <<e.case, at, l>>, FFinite(at.B) /\ FFinite(at.C) /\ FFinite(at.dB) /\ FFinite(at.dC))
        /\ ((FFinite(at.B) /\ asym) => Chk("C13.second_virial_is_limit", <<e.case, at.B, B0, errB, l>>, at.B, B0, RtolVirial,
                                 FAdd(FMax(FAbs(at.B), FAbs(B0)), vB), FMul("3", errB)))
        /\ ((FFinite(at.C) /\ asym) => Chk("C13.third_virial_is_limit", <<e.case, at.C, C0, errC, l>>, at.C, C0, "1e-5",
                                 FAdd(FMax(FAbs(at.C), FAbs(C0)), vC), FMul("3", errC)))
        /\ ((FFinite(at.dB) /\ FAllFinite(Bn)) =>
               Chk("C13.dB_dT", <<e.case, at.dB, Stencil4(Bn, e.h), l>>, at.dB, Stencil4(Bn, e.h), RtolVirial,
                   FAdd(FMax(FAbs(at.dB), FAbs(Stencil4(Bn, e.h))), FMul("1e-7", FDiv(FAdd(FMaxAbs(Bn), vB), e.T))), DiscErrV(Bn, e.h)))
        /\ ((FFinite(at.dC) /\ FAllFinite(Cn)) =>
               Chk("C13.dC_dT", <<e.case, at.dC, Stencil4(Cn, e.h), l>>, at.dC, Stencil4(Cn, e.h), RtolVirial,
                   FAdd(FMax(FAbs(at.dC), FAbs(Stencil4(Cn, e.h))), FMul("1e-7", FDiv(FAdd(FMaxAbs(Cn), vC), e.T))), DiscErrV(Cn, e.h)))
        /\ cnt' = BumpAll(cnt, {"virial_cases", "family:" \o e.family}
                     \cup (IF FFinite(at.B) /\ FLt(FMul("3", errB), FMul("1e-4", FAdd(FAbs(at.B), vB))) THEN {"B_resolved_to_1e-4"} ELSE {})
                     \cup (IF FFinite(at.C) /\ FLt(FMul("3", errC), FMul("1e-3", FAdd(FAbs(at.C), vC))) THEN {"C_resolved_to_1e-3"} ELSE {})
                     \cup (IF e.n > 1 THEN {"mixtures"} ELSE {}) \cup (IF asym THEN {"asymptotic"} ELSE {}))

Panic == /\ Ev("Panic")
         /\ Report("C13.no_panic", <<E.case, E.msg, l>>, FALSE)
         /\ cnt' = Bump(cnt, "panics")

Init == l = 1 /\ cnt = NoCount
Next == /\ (Virial \/ Panic)
        /\ (l' > NRec => PrintT("STATS " \o ToJson(cnt')))
TraceSpec == Init /\ [][Next]_vars
================================================================================
