----------------------------- MODULE RachfordRice -----------------------------
(* The Rachford-Rice solver as a state machine (one action per statement group of fn rachford_rice); the operators are in RachfordRiceOps. *)
EXTENDS RachfordRiceOps

\* ---- the same algorithm as a state machine (for model checking)
CONSTANT Inputs     \* a set of records [z, k, betaIn]
VARIABLES inp, pc, st, it, res
vars == <<inp, pc, st, it, res>>

Init == /\ inp \in Inputs /\ pc = "check" /\ st = <<>> /\ it = 0 /\ res = <<>>
Check == /\ pc = "check"
         /\ IF SolutionExists(inp.z, inp.k)
            THEN pc' = "iterate" /\ st' = InitState(inp.z, inp.k, inp.betaIn) /\ res' = res
            ELSE pc' = "done" /\ res' = <<"Err">> /\ st' = st
         /\ UNCHANGED <<inp, it>>
Iterate == /\ pc = "iterate" /\ it < MaxIter
           /\ LET s2 == StepIter(inp.z, inp.k, st) IN
              /\ st' = s2 /\ it' = it + 1
              /\ IF Converged(s2) THEN pc' = "done" /\ res' = <<"Ok", s2.beta, it + 1, TRUE>>
                 ELSE pc' = pc /\ res' = res
           /\ UNCHANGED inp
GiveUp == /\ pc = "iterate" /\ it = MaxIter
          /\ pc' = "done" /\ res' = <<"Ok", st.beta, it, FALSE>>      \* the code returns Ok(beta) here
          /\ UNCHANGED <<inp, st, it>>
Next == Check \/ Iterate \/ GiveUp
Spec == Init /\ [][Next]_vars

\* invariants
BracketKept == pc = "iterate" => FLe(st.bmin, st.beta) /\ FLe(st.beta, st.bmax) /\ FLe("0", st.bmin) /\ FLe(st.bmax, "1")
ErrIffNoSolution == pc = "done" => ((res[1] = "Err") <=> ~SolutionExists(inp.z, inp.k))
StateMachineIsFunction == pc = "done" => res = Run(inp.z, inp.k, inp.betaIn)
\* what a caller relies on; the code as written violates the first one when 10 steps do not suffice
OkImpliesConverged == (pc = "done" /\ res[1] = "Ok") => res[4]
OkImpliesRoot == (pc = "done" /\ res[1] = "Ok") => IsRoot(inp.z, inp.k, res[2], "10")
OkInsideBounds == (pc = "done" /\ res[1] = "Ok") => InsideBounds(inp.z, inp.k, res[2])
\* the bracket only shrinks
BracketShrinks == [][(pc = "iterate" /\ pc' = "iterate" /\ st # <<>> /\ st' # <<>> /\ it' = it + 1) => (FLe(st.bmin, st'.bmin) /\ FLe(st'.bmax, st.bmax))]_vars
================================================================================
