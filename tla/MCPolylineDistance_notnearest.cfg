SPECIFICATION Spec
CONSTANTS
  Variant = "fixed"
INVARIANTS
  NearestPoint
CHECK_DEADLOCK FALSE
