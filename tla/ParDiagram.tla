------------------------------ MODULE ParDiagram ------------------------------
(***************************************************************************)
(* PhaseDiagram::par_pure (phase_diagram_pure.rs): the N-1 sub-critical    *)
(* temperatures are cut into chunks of size C; W pool workers take chunks, *)
(* solve each chunk sequentially with continuation inside the chunk        *)
(* (failed points are dropped), and the per-chunk lists are concatenated   *)
(* BY CHUNK INDEX (rayon's indexed collect); the critical point is last.   *)
(* C11: the result equals PhaseDiagram::pure for every W, C and schedule.  *)
(* The model assumes what C12 establishes on the code: whether and to what *)
(* a point converges does not depend on the continuation guess.            *)
(***************************************************************************)
EXTENDS Naturals, Sequences, FiniteSets, TLC
CONSTANTS N,        \* number of sub-critical points
          Workers,
          Assemble  \* "by_index" (the code) | "by_completion" (defect used by the self test)

Points == 1..N
Chunks(c) == 1..((N + c - 1) \div c)
ChunkPts(c, k) == {i \in Points : (i - 1) \div c + 1 = k}

VARIABLES c,       \* chunk size (chosen initially)
          fails,   \* set of points whose solve fails (chosen initially, any subset)
          taken,   \* chunk -> worker or 0
          done,    \* sequence of finished chunks in completion order
          result   \* final list of points (0 = critical point) once assembled, else <<>>
vars == <<c, fails, taken, done, result>>

SeqOf(S) == \* increasing sequence of a set of naturals
  LET RECURSIVE F(_, _)
      F(T, acc) == IF T = {} THEN acc
                   ELSE LET m == CHOOSE x \in T : \A y \in T : x <= y IN F(T \ {m}, Append(acc, m))
  IN F(S, <<>>)
Solved(S) == SeqOf(S \ fails)
Sequential == Solved(Points) \o <<0>>

Init == /\ c \in 1..N /\ fails \in SUBSET Points
        /\ taken = [k \in 1..N |-> 0] /\ done = <<>> /\ result = <<>>
Take(w, k) == /\ k \in Chunks(c) /\ taken[k] = 0 /\ \A j \in Chunks(c) : taken[j] # w \/ \E i \in 1..Len(done) : done[i] = j
              /\ taken' = [taken EXCEPT ![k] = w] /\ UNCHANGED <<c, fails, done, result>>
Finish(w, k) == /\ k \in Chunks(c) /\ taken[k] = w /\ ~\E i \in 1..Len(done) : done[i] = k
                /\ done' = Append(done, k) /\ UNCHANGED <<c, fails, taken, result>>
Concat(order) == LET RECURSIVE G(_, _)
                     G(i, acc) == IF i > Len(order) THEN acc ELSE G(i + 1, acc \o Solved(ChunkPts(c, order[i])))
                 IN G(1, <<>>)
Collect == /\ Len(done) = Cardinality(Chunks(c)) /\ result = <<>>
           /\ result' = (IF Assemble = "by_index" THEN Concat(SeqOf(Chunks(c))) ELSE Concat(done)) \o <<0>>
           /\ UNCHANGED <<c, fails, taken, done>>
Next == (\E w \in Workers, k \in 1..N : Take(w, k) \/ Finish(w, k)) \/ Collect
Spec == Init /\ [][Next]_vars

SameAsSequential == result # <<>> => result = Sequential
EventuallyDone == <>(result # <<>>)
================================================================================
