SPECIFICATION GSpec
