SPECIFICATION Spec
CONSTANTS
  NP = 6
  MaxFails = 2
INVARIANTS
  Sound
  LoopOrdered
  AdsMonotone
  DesMonotone
  EquilibriumIsStable
  EquilibriumIsLowerEnvelope
CHECK_DEADLOCK FALSE
