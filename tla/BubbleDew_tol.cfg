SPECIFICATION Spec
CONSTANTS
  MaxOuterChoices = {0, 1, 3}
  MaxInnerChoices = {0, 2}
  TolAboveNewton = TRUE
INVARIANTS
  TypeOK
  IndInv
  OkMeansConverged
  NotConvergedIsHonest
  GivenIsFinal
  CascadeOrder
  NewtonOnlyBelowSwitch
  Bounded
PROPERTIES
  Terminates
CHECK_DEADLOCK FALSE
