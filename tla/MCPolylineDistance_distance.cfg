SPECIFICATION Spec
CONSTANTS
  Variant = "distance"
INVARIANTS
  FootOnPolyline
  VertexIsOwnFoot
  NearestPoint
CHECK_DEADLOCK FALSE
