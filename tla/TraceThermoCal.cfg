SPECIFICATION TraceSpec
CONSTANTS
  Calibrate = TRUE
  TolScale = "1"
  TolExact = "300"
POSTCONDITION Accepted
CHECK_DEADLOCK FALSE
