SPECIFICATION TraceSpec
CONSTANTS
  Calibrate = TRUE
  TolScale = "1"
POSTCONDITION Accepted
CHECK_DEADLOCK FALSE
