------------------------------- MODULE BubbleDew -------------------------------
(* Control flow of the bubble- and dew-point calculation (feos-core/src/phase_equilibria/bubble_dew.rs: TemperatureOrPressure::bubble_dew_point for
   both specifications, iterate_bubble_dew, bubble_dew, adjust_t_p, adjust_x2, newton_step), one action per step of the code.  The thermodynamics
   is abstracted to what the control flow looks at:

     big      err_out > NEWTON_TOL   (the outer step is the inner T/p loop followed by the substitution of x2; otherwise one Newton step)
     small    err_out < tol_outer    (the convergence test of the outer loop; also the test that decides between Ok and NotConverged at the end)
     trivial  the last is_trivial_solution test found the two phases to be copies of each other
     innerc   the last inner T/p loop ended by its own convergence test (not by exhausting max_iter_inner) - NOT looked at by the code

   The cascade of the temperature specification: given pressure (its failure is final) | ideal-gas estimate -> iterate, and on ANY error of either
   the spinodal estimate -> iterate.  The pressure specification has the given temperature only.

   TolAboveNewton = TRUE admits option sets with tol_outer > NEWTON_TOL (then big and small can hold together).
   Bound to the code by hook H9 (TraceBubbleDew.tla replays every recorded call as a behaviour of this module). *)
EXTENDS Naturals, TLC
CONSTANTS
  \* @type: Set(Int);
  MaxOuterChoices,  \* possible values of options_outer.max_iter (default 400)
  \* @type: Set(Int);
  MaxInnerChoices,  \* possible values of options_inner.max_iter (default 5)
  \* @type: Bool;
  TolAboveNewton    \* BOOLEAN
VARIABLES
  \* @type: Str;
  pc,       \* where the code is
  \* @type: Str;
  spec,     \* "T" | "p"
  \* @type: Bool;
  given,    \* an initial pressure (temperature) was supplied
  \* @type: Str;
  stage,    \* "none" | "given" | "idealgas" | "spinodal"
  \* @type: Bool;
  big,
  \* @type: Bool;
  small,
  \* @type: Bool;
  trivial,
  \* @type: Bool;
  innerc,
  \* @type: Int;
  ko,       \* outer iterations started
  \* @type: Int;
  ki,       \* inner iterations done in the current outer iteration
  \* @type: Int;
  steps,    \* outer iterations completed (err_out assigned) in this attempt
  \* @type: Int;
  maxo,
  \* @type: Int;
  maxi,
  \* @type: Str;
  lastkind, \* kind of the last completed outer step: "none" | "subst" | "newton"
  \* @type: Str;
  result    \* "none" | "Ok" | "TrivialSolution" | "NotConverged" | "Error"
vars == <<pc, spec, given, stage, big, small, trivial, innerc, ko, ki, steps, maxo, maxi, lastkind, result>>

MaxOf(S) == CHOOSE m \in S : \A k \in S : k <= m
Init == /\ pc = "start" /\ spec \in {"T", "p"} /\ given \in BOOLEAN /\ (spec = "p" => given) /\ stage = "none"
        /\ big = TRUE /\ small = FALSE /\ trivial = FALSE /\ innerc = FALSE /\ ko = 0 /\ ki = 0 /\ steps = 0
        /\ maxo = MaxOf(MaxOuterChoices) /\ maxi = MaxOf(MaxInnerChoices) /\ lastkind = "none" /\ result = "none"

Finish(r) == pc' = "done" /\ result' = r
\* the end of one iterate_bubble_dew: an error of the ideal-gas attempt falls through to the spinodal attempt, everything else is final
EndAttempt(r) ==
  IF r # "Ok" /\ stage = "idealgas" THEN pc' = "spinodal" /\ UNCHANGED result ELSE Finish(r)
loopvars == <<big, small, trivial, innerc, ko, ki, steps, lastkind>>
cfgvars == <<spec, given, maxo, maxi>>

Start ==
  /\ pc = "start"
  /\ IF given THEN pc' = "iterate" /\ stage' = "given" ELSE pc' = "idealgas" /\ stage' = "idealgas"
  /\ UNCHANGED <<loopvars, cfgvars, result>>

\* starting_pressure_ideal_gas: Ok((p, x)) -> iterate; Err -> the spinodal
IdealGasStart ==
  /\ pc = "idealgas"
  /\ \/ pc' = "iterate"
     \/ pc' = "spinodal"
  /\ UNCHANGED <<stage, loopvars, cfgvars, result>>
\* starting_pressure_spinodal(..)? inside or_else: its error is the error of the call
SpinodalStart ==
  /\ pc = "spinodal"
  /\ stage' = "spinodal"
  /\ \/ pc' = "iterate" /\ UNCHANGED result
     \/ Finish("Error")
  /\ UNCHANGED <<loopvars, cfgvars>>

\* iterate_bubble_dew: starting_x2_bubble / starting_x2_dew (two or three density iterations) ?
StartX2 ==
  /\ pc = "iterate"
  /\ \/ /\ pc' = "trivial0" /\ UNCHANGED result
     \/ EndAttempt("Error")
  /\ big' = TRUE /\ small' = FALSE /\ innerc' = FALSE /\ ko' = 0 /\ ki' = 0 /\ steps' = 0 /\ lastkind' = "none"   \* err_out = 1.0, k_out = 0
  /\ UNCHANGED <<stage, trivial, cfgvars>>

\* bubble_dew: the options are unpacked, then is_trivial_solution before the loop.  (The exit test of a `for` loop is folded into the step before it.)
Trivial0 ==
  /\ pc = "trivial0"
  /\ maxo' \in MaxOuterChoices /\ maxi' \in MaxInnerChoices
  /\ \/ trivial' = TRUE /\ EndAttempt("TrivialSolution")
     \/ trivial' = FALSE /\ pc' = (IF maxo' = 0 THEN "final" ELSE "outer") /\ UNCHANGED result
  /\ UNCHANGED <<stage, big, small, innerc, ko, ki, steps, lastkind, spec, given>>

\* head of the body of the outer loop: the branch on err_out > NEWTON_TOL
Outer ==
  /\ pc = "outer" /\ ko < maxo
  /\ ko' = ko + 1 /\ ki' = 0
  /\ IF big THEN pc' = (IF maxi = 0 THEN "x2" ELSE "inner") /\ innerc' = FALSE
            ELSE pc' = "newton" /\ UNCHANGED innerc
  /\ UNCHANGED <<stage, big, small, trivial, steps, lastkind, cfgvars, result>>

\* one successful adjust_t_p: residual below tol_inner -> break; the loop ends silently when max_iter_inner is exhausted
Inner ==
  /\ pc = "inner" /\ ki < maxi
  /\ ki' = ki + 1
  /\ \/ pc' = "x2" /\ innerc' = TRUE                                             \* converged: break
     \/ pc' = (IF ki + 1 >= maxi THEN "x2" ELSE "inner") /\ UNCHANGED innerc      \* not converged
  /\ UNCHANGED <<stage, big, small, trivial, ko, steps, lastkind, cfgvars, result>>

ErrClass == /\ big' \in BOOLEAN /\ small' \in BOOLEAN
            /\ (~TolAboveNewton => ~(big' /\ small'))
\* a successful adjust_x2: err_out from the K values, then the second phase rebuilt at the new composition
X2 ==
  /\ pc = "x2"
  /\ ErrClass /\ steps' = steps + 1 /\ lastkind' = "subst" /\ pc' = "trivial"
  /\ UNCHANGED <<stage, trivial, innerc, ko, ki, cfgvars, result>>
\* a successful newton_step: the residual norm of the CURRENT iterate is the error, then both states are rebuilt from the Newton update
Newton ==
  /\ pc = "newton"
  /\ ErrClass /\ steps' = steps + 1 /\ lastkind' = "newton" /\ pc' = "trivial"
  /\ UNCHANGED <<stage, trivial, innerc, ko, ki, cfgvars, result>>
\* any of the three fallible steps returns an error (density iteration, LU decomposition): `?` leaves bubble_dew
FailSites == {"inner", "x2", "newton"}
Fail ==
  /\ pc \in FailSites
  /\ EndAttempt("Error")
  /\ UNCHANGED <<stage, loopvars, cfgvars>>

\* after every outer step: trivial -> Err(TrivialSolution); err_out < tol -> break; loop exhausted -> the final test
TrivialK ==
  /\ pc = "trivial"
  /\ \/ trivial' = TRUE /\ EndAttempt("TrivialSolution")
     \/ trivial' = FALSE /\ pc' = (IF small \/ ko >= maxo THEN "final" ELSE "outer") /\ UNCHANGED result
  /\ UNCHANGED <<stage, big, small, innerc, ko, ki, steps, lastkind, cfgvars>>

Final ==
  /\ pc = "final"
  /\ EndAttempt(IF small THEN "Ok" ELSE "NotConverged")
  /\ UNCHANGED <<stage, loopvars, cfgvars>>

Next == Start \/ IdealGasStart \/ SpinodalStart \/ StartX2 \/ Trivial0 \/ Outer \/ Inner \/ X2 \/ Newton \/ Fail \/ TrivialK \/ Final
Spec == Init /\ [][Next]_vars /\ WF_vars(Next)

TypeOK == /\ pc \in {"start", "idealgas", "spinodal", "iterate", "trivial0", "outer", "inner", "x2", "newton", "trivial", "final", "done"}
          /\ spec \in {"T", "p"} /\ given \in BOOLEAN /\ stage \in {"none", "given", "idealgas", "spinodal"}
          /\ big \in BOOLEAN /\ small \in BOOLEAN /\ trivial \in BOOLEAN /\ innerc \in BOOLEAN
          /\ ko \in 0..MaxOf(MaxOuterChoices) /\ ki \in 0..MaxOf(MaxInnerChoices) /\ steps \in 0..MaxOf(MaxOuterChoices)
          /\ lastkind \in {"none", "subst", "newton"}
          /\ result \in {"none", "Ok", "TrivialSolution", "NotConverged", "Error"}
\* what C05 / C12 rely on
OkMeansConverged == result = "Ok" => small /\ ~trivial /\ steps >= 1
NotConvergedIsHonest == result = "NotConverged" => ~small
GivenIsFinal == stage = "given" => given
CascadeOrder == (stage = "spinodal" => ~given /\ spec = "T") /\ (spec = "p" => stage \in {"none", "given"})
NewtonOnlyBelowSwitch == pc = "newton" => ~big
Bounded == ko <= maxo /\ ki <= maxi /\ steps <= ko
Terminates == <>(pc = "done")
\* expected counter-examples (the code does not look at these)
OkMeansInnerConverged == (result = "Ok" /\ lastkind = "subst") => innerc
OkMeansNewtonFinished == result = "Ok" => lastkind = "newton"

\* ---- unbounded: an inductive invariant for ANY max_iter (checked by Apalache: IndInit => IndInv, IndInv /\ Next => IndInv', see ApaBubbleDew.tla)
LoopPcs == {"trivial0", "outer", "inner", "x2", "newton", "trivial", "final"}
IndInv ==
  /\ pc \in {"start", "idealgas", "spinodal", "iterate", "trivial0", "outer", "inner", "x2", "newton", "trivial", "final", "done"}
  /\ spec \in {"T", "p"} /\ given \in BOOLEAN /\ stage \in {"none", "given", "idealgas", "spinodal"}
  /\ big \in BOOLEAN /\ small \in BOOLEAN /\ trivial \in BOOLEAN /\ innerc \in BOOLEAN
  /\ ko \in Nat /\ ki \in Nat /\ steps \in Nat /\ maxo \in Nat /\ maxi \in Nat
  /\ lastkind \in {"none", "subst", "newton"}
  /\ result \in {"none", "Ok", "TrivialSolution", "NotConverged", "Error"}
  /\ (result # "none" => pc = "done")
  /\ (result = "Ok" => small /\ ~trivial /\ steps >= 1)
  /\ (result = "NotConverged" => ~small)
  /\ ((pc \in LoopPcs /\ steps = 0) => ~small)
  /\ (pc = "trivial" => steps >= 1)
  /\ (pc = "trivial0" => ko = 0 /\ steps = 0)
  /\ (pc \in {"outer", "inner", "x2", "newton", "final"} => ~trivial)
  /\ (pc = "newton" => ~big)
  /\ (pc \in {"outer", "inner", "x2", "newton", "trivial", "final"} => ko <= maxo /\ steps <= ko)
  /\ (pc \in {"inner", "x2", "newton", "trivial"} => ko >= 1)
  /\ (pc = "inner" => ki < maxi)
  /\ (pc = "outer" => ko < maxo)
  /\ (pc \in {"inner", "x2"} => steps < ko)
  /\ (pc = "newton" => steps < ko)
IndInit == IndInv
================================================================================
