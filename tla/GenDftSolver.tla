---- MODULE GenDftSolver ----
EXTENDS DftSolver, Json, IOUtils, SequencesExt
Plan == {[chain |-> c] : c \in UNION {[1..k -> Stage] : k \in 1..2}}
ASSUME /\ ndJsonSerialize(IOEnv.PLAN, SetToSeq(Plan)) /\ PrintT(<<"PLAN", Cardinality(Plan)>>)
GSpec == (chain = <<>> /\ j = 0 /\ res = 0 /\ converged = FALSE /\ result = "none") /\ [][UNCHANGED vars]_vars
====
