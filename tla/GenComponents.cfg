SPECIFICATION GSpec
