SPECIFICATION Spec
CONSTANTS
  MaxIter = 4
  Variant = "intended"
INVARIANTS TypeOK OkImpliesConverged
CHECK_DEADLOCK FALSE
