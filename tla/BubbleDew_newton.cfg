SPECIFICATION Spec
CONSTANTS
  MaxOuterChoices = {0, 1, 3}
  MaxInnerChoices = {0, 2}
  TolAboveNewton = FALSE
INVARIANTS
  TypeOK
  OkMeansNewtonFinished

CHECK_DEADLOCK FALSE
