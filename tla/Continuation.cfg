SPECIFICATION Spec
CONSTANTS
  N = 6
  GuessIndependent = TRUE
  AppendFinal = TRUE
INVARIANTS EachPointIsStandalone InOrder FinalIsLast
CHECK_DEADLOCK FALSE
