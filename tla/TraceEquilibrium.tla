--------------------------- MODULE TraceEquilibrium ---------------------------
(* Trace specification for C04, C05, C06, C07 and C12: every result the equilibrium solvers returned is checked
   against the conditions of Equilibrium.tla, and results obtained with different guesses against each other. *)
EXTENDS TraceIO, Equilibrium

VARIABLES l, cnt, lastBubble
vars == <<l, cnt, lastBubble>>
E == Rec[l]
Ev(name) == l <= NRec /\ E.ev = name /\ l' = l + 1

TolPure == "1e-8"
TolBubble == "1e-5"
TolFlash == "1e-6"
TolGuess == "1e-7"     \* C12: results with different guesses
TolGuessFlash == "1e-5"

\* numeric comparisons go through TraceIO!Chk so that the calibration mode can report their margins
CEqualP(law, info, a, b, tol) == Chk(law, <<info, "p", a.p, b.p, l>>, a.p, b.p, tol, PScale(a, b), "0")
CIsoFug(law, info, a, b, tol) ==
  \A i \in 1..NC(a) : (FLt("0", a.x[i]) /\ FLt("0", b.x[i])) =>
     Chk(law, <<info, "fugacity", i, l>>, FugDefect(a, b, i), "0", tol, FugScale(a, b, i), "0")
CSameX(law, info, a, z, tol) == \A i \in 1..Len(z) : Chk(law, <<info, "x", i, l>>, a.x[i], z[i], tol, "1", "0")
CSamePhase(law, info, a, b, rtol) ==
  /\ Chk(law, <<info, "T", a.T, b.T, l>>, a.T, b.T, rtol, FAbs(a.T), "0")
  /\ Chk(law, <<info, "p", a.p, b.p, l>>, a.p, b.p, rtol, PScale(a, b), "0")
  /\ Chk(law, <<info, "rho", a.rho, b.rho, l>>, a.rho, b.rho, rtol, FAbs(a.rho), "0")
  /\ CSameX(law, info, a, b.x, rtol)

\* conditions on a two-phase result r = [ok, v, l] of a mixture calculation
\* A failure signature of its own (call site: the bubble / dew point iteration of bubble_dew.rs): the pressure runs to zero, both phases become ideal
\* gases of vanishing density, the residual vanishes and the iteration returns Ok (p ~ 1e-144 .. 1e-197 observed).  Such a result is reported once,
\* under its own law, instead of through every condition it happens to break; it is listed as a known finding by call site.
Collapsed(r) == r.ok /\ FLt(r.v.p, "1e-100")
TwoPhase(pid, what, info, r, tol) ==
  r.ok => IF Collapsed(r) THEN Report(pid \o ".result_collapsed_to_zero_pressure", <<what, info, r.v.p, l>>, FALSE)
          ELSE /\ Report(pid \o ".equal_T_p", <<what, info, r.v.T, r.l.T, l>>, EqualT(r.v, r.l))
               /\ CEqualP(pid \o ".equal_T_p", <<what, info>>, r.v, r.l, tol)
               /\ CIsoFug(pid \o ".isofugacity", <<what, info>>, r.v, r.l, tol)
               /\ Report(pid \o ".not_trivial", <<what, info, l>>, NotTrivial(r.v, r.l))
Agree(law, info, r0, r1, tol) ==
  (r0.ok /\ r1.ok) => IF Collapsed(r0) \/ Collapsed(r1) THEN Report("C12.result_collapsed_to_zero_pressure", <<law, info, r0.v.p, r1.v.p, l>>, FALSE)
                       ELSE CSamePhase(law, <<info, "vapor">>, r0.v, r1.v, tol) /\ CSamePhase(law, <<info, "liquid">>, r0.l, r1.l, tol)

\* ---------------------------------------------------------------- C04 / C12 pure
PureVle ==
  /\ Ev("PureVle")
  /\ LET r == E.res IN
     /\ (E.calibrated => Report("C04.found", <<E.case, E.Tr, r, l>>, r.ok))
     /\ (r.ok =>
          /\ Report("C04.equal_T_p", <<E.case, E.Tr, r.v.T, r.l.T, l>>, EqualT(r.v, r.l) /\ FEq(r.v.T, E.spec_val))
          /\ CEqualP("C04.equal_T_p", <<E.case, E.Tr>>, r.v, r.l, TolPure)
          /\ Chk("C04.equal_chemical_potential", <<E.case, E.Tr, PureMuDefect(r.v, r.l), l>>, PureMuDefect(r.v, r.l), "0", TolPure,
                 FAdd("1", FAdd(FAbs(r.v.mu_res_T[1]), FAbs(r.l.mu_res_T[1]))), "0")
          /\ Report("C04.vapor_less_dense", <<E.case, E.Tr, r.v.rho, r.l.rho, l>>, FLt(r.v.rho, r.l.rho))
          \* "solving at given T and at the resulting p are mutually inverse": on the calibrated records the solve at the resulting pressure succeeds
          /\ (E.calibrated => Report("C04.found_at_pressure", <<E.case, E.Tr, E.inverse, l>>, E.inverse.ok))
          /\ (E.inverse.ok => CSamePhase("C04.T_p_inverse", <<E.case, E.Tr, "vapor">>, E.inverse.v, r.v, TolGuess)
                                /\ CSamePhase("C04.T_p_inverse", <<E.case, E.Tr, "liquid">>, E.inverse.l, r.l, TolGuess))
          /\ \A k \in 1..Len(E.guesses) :
               LET g == E.guesses[k].res IN
               /\ Agree("C12.pure_vle_guess", <<E.case, E.Tr, E.guesses[k].guess>>, r, g, TolGuess)
               /\ (g.ok => Report("C04.vapor_less_dense", <<E.case, E.Tr, E.guesses[k].guess, g.v.rho, g.l.rho, l>>,
                                  FLt(g.v.rho, g.l.rho) /\ NotTrivial(g.v, g.l))))
     /\ cnt' = BumpAll(cnt, {"pure_vle"} \cup (IF r.ok THEN {"pure_vle_ok"} ELSE {}) \cup (IF r.ok /\ E.inverse.ok THEN {"pure_vle_inverse_ok"} ELSE {}) \cup (IF E.calibrated THEN {"pure_vle_calibrated"} ELSE {}))
  /\ UNCHANGED lastBubble

PureDiagram ==
  /\ Ev("PureDiagram")
  /\ LET P == E.points
         n == Len(P)
         CSame(k, a, b) == Chk("C12.diagram_point_equals_standalone", <<E.case, E.n, k, a, b, l>>, a, b, TolGuess, FAbs(b), "0")
     IN
     /\ (E.calibrated => Report("C04.diagram_complete", <<E.case, E.n, n, l>>, E.ok /\ n = E.n))
     /\ (E.ok =>
          /\ Report("C04.diagram_monotone", <<E.case, E.n, l>>,
                    \A k \in 1..(n - 1) : /\ FLt(P[k].T, P[k + 1].T) /\ FLt(P[k].p, P[k + 1].p)
                                          /\ FLt(P[k].rv, P[k + 1].rv) /\ FLt(P[k + 1].rl, P[k].rl))
          /\ Report("C04.diagram_ends_at_critical_point", <<E.case, E.n, P[n], l>>,
                    FEq(P[n].rv, P[n].rl) /\ FEq(P[n].T, E.crit.T) /\ FEq(P[n].rv, E.crit.rho))
          /\ \A k \in 1..Len(E.alone) :
               LET a == E.alone[k]
                   j == CHOOSE i \in 1..n : P[i].T = a.T
               IN a.ok => (CSame(<<k, "p">>, P[j].p, a.p) /\ CSame(<<k, "rv">>, P[j].rv, a.rv) /\ CSame(<<k, "rl">>, P[j].rl, a.rl)))
     \* C12: an initial value for the critical temperature changes neither the temperature grid nor the states.  Points that do not converge are dropped by the
     \* driver (fragile models drop different points with different warm-start chains - not a converged result, not judged): every state of the diagram
     \* computed with the guess lies on the requested grid  Tmin + (Tc - Tmin) m / (n - 1), and where the diagram without guess has a state at the same
     \* temperature the two agree
     /\ ((E.ok /\ Has(E, "guessed")) =>
           \A q \in 1..Len(E.guessed) :
              LET gd == E.guessed[q]
                  Tc == E.crit.T
                  Tmin == FMul(E.Tmin_r, Tc)
                  Grid(m) == FAdd(Tmin, FMul(FSub(Tc, Tmin), FOfRatio(m, E.n - 1)))
                  OnGrid(T) == \E m \in 0..(E.n - 1) : FClose(T, Grid(m), "1e-6", FAbs(T), "0")
                  Same(k) == \A j \in 1..n : FClose(gd.T[k], P[j].T, "1e-6", FAbs(P[j].T), "0") => FClose(gd.p[k], P[j].p, "1e-4", FAbs(P[j].p), "0")
              IN gd.ok => Report("C12.diagram_independent_of_critical_temperature_guess", <<E.case, E.n, gd.f, Len(gd.T), n, l>>,
                              \A k \in 1..Len(gd.T) : OnGrid(gd.T[k]) /\ Same(k)))
     /\ cnt' = BumpAll(cnt, {"pure_diagrams"} \cup (IF E.ok /\ n = E.n THEN {"pure_diagrams_complete"} ELSE {})
                            \cup (IF E.ok /\ Has(E, "guessed") THEN {"pure_diagrams_with_critical_temperature_guess"} ELSE {}))
  /\ UNCHANGED lastBubble

\* ---------------------------------------------------------------- C06
TolCritLam == "1e-6"
ThirdDerivative(case, what, q) ==
  (q.ok /\ Has(q, "neighbours") /\ Len(q.neighbours) = 4) =>
     LET lam == [k \in 1..4 |-> LamMin(q.neighbours[k])] IN
     Chk("C06.mixture_criticality_third_derivative", <<case, what, Stencil4(lam, q.eps), l>>, Stencil4(lam, q.eps), "0", "1", "0", "1e-3")
Critical ==
  /\ Ev("Critical")
  /\ (E.calibrated => Report("C06.found", <<E.case, E.kind, l>>, E.ok))
  /\ (E.ok =>
       LET s == E.state IN
       /\ (E.kind = "pure" =>
             /\ Report("C06.pure_criticality", <<E.case, "p > 0", s.p, l>>, FLt("0", s.p))
             /\ Chk("C06.pure_criticality", <<E.case, "dp/dV V/p", l>>, FDiv(FMul(s.dp_dv, s.V), s.p), "0", "1", "0", "1e-5")
             /\ Chk("C06.pure_criticality", <<E.case, "d2p/dV2 V^2/p", l>>, FDiv(FMul(s.d2p_dv2, FMul(s.V, s.V)), s.p), "0", "1", "0", "1e-3")
             /\ \A k \in 1..Len(E.variants) :
                  E.variants[k].ok => /\ Chk("C12.critical_point_guess", <<E.case, E.variants[k].f, "T", l>>, E.variants[k].T, s.T, "1e-6", FAbs(s.T), "0")
                                      /\ Chk("C06.initial_temperature_independent", <<E.case, E.variants[k].f, "T", l>>, E.variants[k].T, s.T, "1e-6", FAbs(s.T), "0")
                                      /\ Chk("C06.initial_temperature_independent", <<E.case, E.variants[k].f, "rho", l>>, E.variants[k].rho, s.rho, "1e-3", FAbs(s.rho), "0"))
       /\ (E.kind = "binary" =>
             LET lam == [k \in 1..Len(E.neighbours) |-> LamMin(E.neighbours[k])] IN
             /\ Chk("C06.mixture_criticality_eigenvalue", <<E.case, LamMin(s), l>>, LamMin(s), "0", "1", "0", TolCritLam)
             /\ (Len(E.neighbours) = 4 =>
                   Chk("C06.mixture_criticality_third_derivative", <<E.case, Stencil4(lam, E.eps), l>>, Stencil4(lam, E.eps), "0", "1", "0", "1e-3"))
             /\ (E.at_T.ok => Report("C06.binary_at_T", <<E.case, E.at_T.state.T, s.T, LamMin(E.at_T.state), l>>,
                                     FEq(E.at_T.state.T, s.T) /\ FLe(FAbs(LamMin(E.at_T.state)), TolCritLam)))
             /\ (E.at_p.ok => Report("C06.binary_at_p", <<E.case, E.at_p.state.p, s.p, LamMin(E.at_p.state), l>>,
                                     FClose(E.at_p.state.p, s.p, "1e-7", FAbs(s.p), "0") /\ FLe(FAbs(LamMin(E.at_p.state)), TolCritLam)))
             \* a critical point returned for a given T or p satisfies the second criticality condition as well (probe along its own eigenvector)
             /\ ThirdDerivative(E.case, "at given T", E.at_T)
             /\ ThirdDerivative(E.case, "at given p", E.at_p)
             /\ (Has(E, "at_p_more") => \A k \in 1..Len(E.at_p_more) :
                    LET q == E.at_p_more[k] IN
                    /\ (q.ok => Report("C06.binary_at_p", <<E.case, q.x_ref, q.state.p, q.p_spec, LamMin(q.state), l>>,
                                        FClose(q.state.p, q.p_spec, "1e-7", FAbs(q.p_spec), "0") /\ FLe(FAbs(LamMin(q.state)), TolCritLam)))
                    /\ ThirdDerivative(E.case, <<"at given p", q.x_ref>>, q))))
  /\ cnt' = BumpAll(cnt, {"critical:" \o E.kind} \cup (IF E.ok THEN {"critical_ok:" \o E.kind} ELSE {}))
  /\ UNCHANGED lastBubble

CriticalPR ==
  /\ Ev("CriticalPR")
  /\ LET Chk1(r, tag) == r.ok => Report("C06.peng_robinson_critical_point", <<E.case, tag, E.tc, E.pc, r, l>>,
                                        \* the textbook constants 0.45724 and 0.07780 are rounded: the critical point of the
                                        \* cubic is the input (Tc, pc) to 3e-5 / 8e-5 only
                                        FClose(r.T_K, E.tc, "2e-4", FAbs(E.tc), "0") /\ FClose(r.p_Pa, E.pc, "5e-4", FAbs(E.pc), "0"))
                         /\ (r.ok => Chk("C06.peng_robinson_critical_point", <<E.case, tag, "T", l>>, r.T_K, E.tc, "2e-4", FAbs(E.tc), "0"))
         \* without an initial temperature the solver starts at 300 K (then 700 K, 500 K); C06 quantifies over initial
         \* temperatures within [0.5, 1.6] of the true value, so the default start is judged only when 300 K is in that window
         defaultInWindow == FLe(FMul("0.5", E.tc), "300") /\ FLe("300", FMul("1.6", E.tc))
     IN (defaultInWindow => Chk1(E.default, "default")) /\ Chk1(E.with_t0, "with initial temperature")
  /\ cnt' = BumpAll(cnt, {"critical_pr"} \cup (IF E.default.ok THEN {"critical_pr_ok"} ELSE {}))
  /\ UNCHANGED lastBubble

Spinodal ==
  /\ Ev("Spinodal")
  /\ (E.res.ok =>
        LET a == E.res.a
            b == E.res.b
            lo == IF FLt(a.rho, b.rho) THEN a ELSE b
            hi == IF FLt(a.rho, b.rho) THEN b ELSE a
            same == FClose(a.rho, b.rho, "1e-6", FAbs(a.rho), "0")
        IN /\ Report("C06.spinodal_two_distinct_states", <<E.case, E.Tr, a.rho, b.rho, l>>, ~same)
           /\ Chk("C06.spinodal_eigenvalue", <<E.case, E.Tr, "a", l>>, LamMin(a), "0", "1", "0", "1e-6")
           /\ Chk("C06.spinodal_eigenvalue", <<E.case, E.Tr, "b", l>>, LamMin(b), "0", "1", "0", "1e-6")
           /\ (~same => Report("C06.spinodal_brackets_critical_density", <<E.case, E.Tr, lo.rho, E.rho_c, hi.rho, l>>,
                     FLt(lo.rho, E.rho_c) /\ FLt(E.rho_c, hi.rho)))
           /\ ((E.binodal.ok /\ ~same) => Report("C06.spinodal_inside_binodal", <<E.case, E.Tr, E.binodal.v.rho, lo.rho, hi.rho, E.binodal.l.rho, l>>,
                                      FLt(E.binodal.v.rho, lo.rho) /\ FLt(hi.rho, E.binodal.l.rho))))
  /\ cnt' = BumpAll(cnt, {"spinodals"} \cup (IF E.res.ok THEN {"spinodals_ok"} ELSE {}))
  /\ UNCHANGED lastBubble

\* ---------------------------------------------------------------- C05 / C12 mixtures
BubbleDew ==
  /\ Ev("BubbleDew")
  /\ LET r == E.res
         info == <<E.case, E.kind, E.T, E.z>>
     IN
     /\ (E.calibrated => Report("C05.found", <<E.case, E.kind, E.grid, r, l>>, r.ok))
     /\ TwoPhase("C05", E.kind, info, r, TolBubble)
     /\ (r.ok => Report("C05.specification_kept", <<info, r.v.T, r.l.x, r.v.x, l>>,
                        /\ FEq(r.v.T, E.T)
                        /\ IF E.kind = "bubble" THEN SameX(r.l, E.z, "1e-14") ELSE SameX(r.v, E.z, "1e-14")))
     /\ \A k \in 1..Len(E.guesses) :
          LET g == E.guesses[k] IN
          /\ TwoPhase("C05", E.kind \o " " \o g.guess, info, g.res, TolBubble)
          /\ Agree("C12.bubble_dew_guess", <<info, g.guess>>, r, g.res, TolGuess)
          /\ ((g.guess = "p-spec" /\ g.res.ok) => Report("C05.specification_kept", <<info, "p-spec", g.res.v.p, r.v.p, l>>,
                                                         FClose(g.res.v.p, r.v.p, "1e-9", FAbs(r.v.p), "0")))
     /\ ((E.kind = "dew" /\ r.ok /\ lastBubble # <<>> /\ lastBubble.case = E.case /\ lastBubble.T = E.T /\ lastBubble.z = E.z) =>
            Report("C05.bubble_pressure_not_below_dew_pressure", <<info, lastBubble.p, r.v.p, l>>,
                   FLe(r.v.p, FMul(lastBubble.p, "1.0000001"))))
     /\ lastBubble' = IF E.kind = "bubble" /\ r.ok THEN [case |-> E.case, T |-> E.T, z |-> E.z, p |-> r.v.p]
                      ELSE IF E.kind = "bubble" THEN <<>> ELSE lastBubble
     /\ cnt' = BumpAll(cnt, {"bubble_dew"} \cup (IF r.ok THEN {"bubble_dew_ok"} ELSE {}) \cup (IF E.calibrated THEN {"bubble_dew_calibrated"} ELSE {}))

\* what a successful flash owes to its specification, whatever the initial state was (a warm start from a result at
\* other conditions included)
FlashLaws(what, info, r, T, p, feed) ==
  r.ok =>
     /\ Report("C05.flash_specification_kept", <<what, info, r.v.T, r.v.p, l>>,
               FEq(r.v.T, T) /\ FEq(r.l.T, T) /\ FClose(r.v.p, p, "1e-9", FAbs(p), "0"))
     /\ Report("C05.flash_conserves_feed", <<what, info, r.v.N, r.l.N, l>>,
               \A i \in 1..Len(feed) : /\ FClose(FAdd(r.v.N[i], r.l.N[i]), feed[i], "1e-12", FAbs(feed[i]), "0")
                                       /\ FLe("0", r.v.N[i]) /\ FLe("0", r.l.N[i]))
     /\ Report("C05.flash_phase_fraction", <<what, info, l>>, FLt("0", FSum(r.v.N)) /\ FLt("0", FSum(r.l.N)))

\* PhaseDiagram::lle: npoints flashes of one feed along a line in T (p fixed) or p (T fixed), each warm-started from the
\* previous result; points that fail are dropped.  Every returned state is a flash result AT ITS grid point, in order.
GridPoint(k) == FAdd(E.min, FMul(FSub(E.max, E.min), FOfRatio(k - 1, E.npoints - 1)))
FlashSweep ==
  /\ Ev("FlashSweep")
  /\ LET S == E.states
         n == Len(S)
         Var(s) == IF E.vary = "T" THEN s.v.T ELSE s.v.p
         Fix(s) == IF E.vary = "T" THEN s.v.p ELSE s.v.T
         \* index of the grid point a state sits on (0 if none)
         At(s) == LET K == {k \in 1..E.npoints : FClose(Var(s), GridPoint(k), "1e-9", FAbs(GridPoint(k)), "0")} IN
                  IF K = {} THEN 0 ELSE CHOOSE k \in K : TRUE
         info == <<E.case, E.vary, E.fixed, E.min, E.max>>
     IN
     /\ Report("C05.sweep_points_on_grid_in_order", <<info, [k \in 1..n |-> Var(S[k])], l>>,
               /\ n <= E.npoints
               /\ \A k \in 1..n : At(S[k]) > 0
               /\ \A k \in 1..(n - 1) : At(S[k]) < At(S[k + 1]))
     /\ \A k \in 1..n :
          LET r == [ok |-> TRUE, v |-> S[k].v, l |-> S[k].l]
              T == IF E.vary = "T" THEN GridPoint(At(S[k])) ELSE E.fixed
              p == IF E.vary = "T" THEN E.fixed ELSE GridPoint(At(S[k]))
          IN At(S[k]) > 0 =>
             /\ TwoPhase("C05", "flash sweep", <<info, k>>, r, TolFlash)
             /\ Report("C05.flash_specification_kept", <<"sweep", info, k, r.v.T, r.v.p, l>>,
                       /\ FClose(r.v.T, T, "1e-12", FAbs(T), "0") /\ FEq(r.v.T, r.l.T) /\ FClose(r.v.p, p, "1e-9", FAbs(p), "0"))
             /\ Report("C05.flash_conserves_feed", <<"sweep", info, k, l>>,
                       \A i \in 1..Len(E.feed) : FClose(FAdd(r.v.N[i], r.l.N[i]), E.feed[i], "1e-12", FAbs(E.feed[i]), "0"))
  /\ cnt' = BumpAll(cnt, {"flash_sweeps", "flash_sweep_vary_" \o E.vary} \cup (IF Len(E.states) = E.npoints THEN {"flash_sweeps_complete"} ELSE {}))
  /\ UNCHANGED lastBubble

Flash ==
  /\ Ev("Flash")
  /\ LET r == E.res
         info == <<E.case, E.T, E.p, E.feed>>
     IN
     /\ (E.calibrated => Report("C05.found", <<E.case, "flash", E.grid, r, l>>, r.ok))
     /\ Report("C07.flash_splits_inside_envelope", <<info, r, l>>, r.ok \/ r.err # "NoPhaseSplit")
     \* on the calibrated domain a feed strictly inside the envelope leads the flash to a phase split (the same grid points as C05.found, seen from C07)
     /\ (E.calibrated => Report("C07.unstable_feed_splits", <<E.case, "flash", E.grid, r, l>>, r.ok))
     /\ TwoPhase("C05", "flash", info, r, TolFlash)
     /\ FlashLaws("initial state: none", info, r, E.T, E.p, E.feed)
     /\ \A k \in 1..Len(E.guesses) :
          /\ TwoPhase("C05", "flash " \o E.guesses[k].guess, info, E.guesses[k].res, TolFlash)
          /\ FlashLaws(E.guesses[k].guess, info, E.guesses[k].res, E.T, E.p, E.feed)
          /\ ((r.ok /\ E.guesses[k].res.ok) =>
                 Report("C12.flash_guess", <<info, E.guesses[k].guess, l>>,
                        /\ SameX(r.v, E.guesses[k].res.v.x, TolGuessFlash) /\ SameX(r.l, E.guesses[k].res.l.x, TolGuessFlash)
                        /\ FClose(FSum(r.v.N), FSum(E.guesses[k].res.v.N), TolGuessFlash, FSum(E.feed), "0")))
     /\ cnt' = BumpAll(cnt, {"flashes"} \cup (IF r.ok THEN {"flashes_ok"} ELSE {}))
  /\ UNCHANGED lastBubble

\* Tp flash with components declared non-volatile (ions): whenever it returns phases they share T and p, the volatile components have the same
\* fugacity in both phases (CIsoFug skips components absent from a phase), the non-volatile ones are absent from the vapor, the feed is conserved.
FlashNvc ==
  /\ Ev("FlashNvc")
  /\ LET r == E.res
         info == <<E.case, E.T, E.p, E.feed, E.grid>>
     IN
     /\ TwoPhase("C05", "flash with non-volatile components", info, r, TolFlash)
     /\ FlashLaws("non-volatile components", info, r, E.T, E.p, E.feed)
     /\ (r.ok => Report("C05.nonvolatile_absent_from_vapor", <<info, r.v.N, l>>, \A k \in 1..Len(E.nonvolatile) : FEq(r.v.N[E.nonvolatile[k]], "0") /\ FEq(r.v.x[E.nonvolatile[k]], "0")))
     /\ cnt' = BumpAll(cnt, {"flashes_nonvolatile"} \cup (IF r.ok THEN {"flashes_nonvolatile_ok"} ELSE {}))
  /\ UNCHANGED lastBubble

FlashOutside ==
  /\ Ev("FlashOutside")
  /\ TwoPhase("C05", "flash outside", <<E.case, E.T, E.p>>, E.res, TolFlash)
  /\ cnt' = BumpAll(cnt, {"flashes_outside"} \cup (IF ~E.res.ok /\ E.res.err = "NoPhaseSplit" THEN {"flashes_outside_no_split"} ELSE {}))
  /\ UNCHANGED lastBubble

BinaryDiagram ==
  /\ Ev("BinaryDiagram")
  /\ \A k \in 1..Len(E.points) :
       LET pt == E.points[k]
           r == [ok |-> TRUE, v |-> pt.v, l |-> pt.l]
       IN /\ TwoPhase("C05", "binary_vle point", <<E.case, E.T, k>>, r, TolBubble)
          /\ Agree("C12.binary_diagram_point_equals_standalone", <<E.case, E.T, E.npoints, k>>, r, pt.alone, TolGuess)
  /\ cnt' = BumpAll(cnt, {"binary_diagrams"})
  /\ UNCHANGED lastBubble


\* ---------------------------------------------------------------- phase envelope at fixed composition, three-phase equilibria
\* bubble_point_line / dew_point_line: every state is a bubble (dew) point of the given composition at its own temperature, temperatures
\* increase, the last state is the critical point (both phases identical) and every point equals the stand-alone calculation (C12).
\* spinodal line: both states of every point sit on the spinodal (smallest eigenvalue of the scaled Hessian zero) at the feed composition.
EnvelopeLine ==
  /\ Ev("EnvelopeLine")
  /\ LET P == E.points  n == Len(P)  info == <<E.case, E.kind, E.z, E.npoints>> IN
     \* a point that does not converge is dropped by the drivers (counted below, not a law); a panic is not an outcome the property allows
     /\ Report("C05.envelope_no_panic", <<info, IF Has(E, "err") THEN E.err ELSE "", l>>, E.ok \/ ~Has(E, "err") \/ SubSeq(E.err, 1, 11) # "Other:Panic")
     /\ (E.ok /\ n >= 1) =>
       /\ Report("C05.envelope_ends_at_critical_point", <<info, P[n].v.rho, P[n].l.rho, l>>, FClose(P[n].v.rho, P[n].l.rho, "1e-9", FAbs(P[n].v.rho), "0"))
       \* every entry is the point of its own slot: a point that failed is dropped, never replaced by a copy of its predecessor (temperatures strictly increase
       \* along the bubble line and along the temperature-specified part of the dew line)
       /\ \A k \in 1..(n - 2) :
            ((E.kind = "bubble" \/ (E.kind = "dew" /\ 2 * (k + 2) <= E.npoints)) =>
               Report("C12.envelope_points_are_distinct", <<info, k, P[k].v.T, P[k + 1].v.T, l>>, FLt(P[k].v.T, P[k + 1].v.T)))
       /\ \A k \in 1..(n - 1) :
            LET r == [ok |-> TRUE, v |-> P[k].v, l |-> P[k].l] IN
            /\ (E.kind \in {"bubble", "dew"} =>
                  /\ TwoPhase("C05", E.kind \o " point line", <<info, k>>, r, TolBubble)
                  /\ CSameX("C05.specification_kept", <<info, k, "composition">>, IF E.kind = "bubble" THEN P[k].l ELSE P[k].v, E.z, "1e-12")
                  \* between the critical temperature and the cricondentherm a composition has two dew points: compared only below T_c
                  \* dew_point_line solves its first npoints/2 - 1 points at given temperature (like the stand-alone solve) and the rest at given
                  \* pressure, where the same temperature may belong to another branch of the dew curve (two dew pressures at one temperature occur for
                  \* asymmetric mixtures such as eicosane + ethyl ethanoate even below the mixture critical temperature): only the first part is compared
                  /\ ((Has(P[k], "alone") /\ FLt(P[k].v.T, FMul("0.99", P[n].v.T)) /\ (E.kind = "bubble" \/ 2 * (k + 1) <= E.npoints)) =>
                        Agree("C12.envelope_point_equals_standalone", <<info, k>>, r, P[k].alone, TolGuess)))
            /\ (E.kind = "spinodal" =>
                  /\ Report("C06.spinodal_line_equal_T", <<info, k, l>>, EqualT(P[k].v, P[k].l))
                  /\ Chk("C06.spinodal_eigenvalue", <<info, k, "vapor side", l>>, LamMin(P[k].v), "0", "1", "0", "1e-6")
                  /\ Chk("C06.spinodal_eigenvalue", <<info, k, "liquid side", l>>, LamMin(P[k].l), "0", "1", "0", "1e-6")
                  /\ CSameX("C06.spinodal_line_composition", <<info, k, "vapor side">>, P[k].v, E.z, "1e-12")
                  /\ CSameX("C06.spinodal_line_composition", <<info, k, "liquid side">>, P[k].l, E.z, "1e-12")
                  /\ Report("C06.spinodal_two_distinct_states", <<info, k, P[k].v.rho, P[k].l.rho, l>>, FLt(P[k].v.rho, P[k].l.rho)))
  /\ cnt' = BumpAll(cnt, {"envelope_lines", "envelope:" \o E.kind} \cup (IF E.ok THEN {"envelope_lines_ok"} ELSE {})
                \cup (IF E.ok /\ Len(E.points) < E.npoints THEN {"envelope_lines_with_dropped_points"} ELSE {}))
  /\ UNCHANGED lastBubble

\* heteroazeotrope: three phases at one temperature and pressure with pairwise equal fugacities; the two liquids differ; T- and p-specified agree
Hetero ==
  /\ Ev("Hetero")
  /\ (E.ok =>
        LET info == <<E.case, E.T>>
            vl1 == [ok |-> TRUE, v |-> E.v, l |-> E.l1]
            vl2 == [ok |-> TRUE, v |-> E.v, l |-> E.l2]
            ll == [ok |-> TRUE, v |-> E.l1, l |-> E.l2]
        IN /\ TwoPhase("C05", "heteroazeotrope vapor/liquid1", info, vl1, TolBubble)
           /\ TwoPhase("C05", "heteroazeotrope vapor/liquid2", info, vl2, TolBubble)
           /\ TwoPhase("C05", "heteroazeotrope liquid1/liquid2", info, ll, TolBubble)
           /\ (Has(E, "same_as") =>
                 /\ CSamePhase("C12.heteroazeotrope_T_p_inverse", <<info, "vapor">>, E.v, E.same_as.v, TolGuessFlash)
                 /\ CSamePhase("C12.heteroazeotrope_T_p_inverse", <<info, "liquid1">>, E.l1, E.same_as.l1, TolGuessFlash)
                 /\ CSamePhase("C12.heteroazeotrope_T_p_inverse", <<info, "liquid2">>, E.l2, E.same_as.l2, TolGuessFlash)))
  /\ cnt' = BumpAll(cnt, {"heteroazeotropes"} \cup (IF E.ok THEN {"heteroazeotropes_ok"} ELSE {}))
  /\ UNCHANGED lastBubble

\* ---------------------------------------------------------------- C07
Stability ==
  /\ Ev("Stability")
  /\ LET r == E.res
         \* at non-positive pressure no vapour-like trial phase exists and ln(phi) is undefined: the analysis may fail there
         positive == FLt("0", E.state.p)
     IN
     /\ (positive => Report("C07.analysis_completes", <<E.case, E.expect, r, l>>, r.ok))
     /\ (r.ok =>
          /\ \A k \in 1..Len(r.trials) :
               Report("C07.returned_trial_has_negative_tpd", <<E.case, E.state.x, r.trials[k].x, Tpd(r.trials[k], E.state), l>>,
                      FLt(Tpd(r.trials[k], E.state), "0"))
          /\ Report("C07.verdict", <<E.case, E.expect, E.state.T, E.state.rho, E.state.x, Len(r.trials), l>>,
                    /\ r.is_stable = (Len(r.trials) = 0)
                    /\ (E.expect = "stable" => Len(r.trials) = 0)
                    /\ (E.expect = "unstable" => Len(r.trials) > 0)))
     /\ cnt' = BumpAll(cnt, {"stability", "stability_expect_" \o E.expect} \cup (IF ~positive THEN {"stability_at_negative_pressure"} ELSE {}) \cup (IF r.ok /\ Len(r.trials) > 0 THEN {"stability_trials_returned"} ELSE {}))
  /\ UNCHANGED lastBubble

LleSkip == /\ Ev("LleSkip") /\ cnt' = Bump(cnt, "lle_skipped") /\ UNCHANGED lastBubble

Init == l = 1 /\ cnt = NoCount /\ lastBubble = <<>>
Next == /\ (PureVle \/ PureDiagram \/ Critical \/ CriticalPR \/ Spinodal \/ BubbleDew \/ Flash \/ FlashNvc \/ FlashSweep \/ FlashOutside \/ BinaryDiagram \/ Stability \/ LleSkip \/ EnvelopeLine \/ Hetero)
        /\ (l' > NRec => PrintT("STATS " \o ToJson(cnt')))
TraceSpec == Init /\ [][Next]_vars
================================================================================
