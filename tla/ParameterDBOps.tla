--------------------------- MODULE ParameterDBOps ---------------------------
(* Declarative meaning of parameter construction from record files (C14); see ParameterDB.tla. *)
EXTENDS Naturals, Sequences, FiniteSets, TLC


\* ---------------------------------------------------------------- declarative
Range(s) == {s[i] : i \in 1..Len(s)}
HasDup(q) == \E i, j \in 1..Len(q) : i # j /\ q[i] = q[j]
\* file: sequence of distinct substances; visible: the substances whose record carries the queried kind
Lookup(q, file, visible) ==
  IF HasDup(q) THEN [ok |-> FALSE, err |-> "Duplicate"]
  ELSE IF \E i \in 1..Len(q) : q[i] \notin (Range(file) \cap visible) THEN [ok |-> FALSE, err |-> "Missing"]
  ELSE [ok |-> TRUE, order |-> q]

\* inputs: sequence of <<query, file, visible>>
Flatten(qs) == LET RECURSIVE F(_) F(i) == IF i > Len(qs) THEN <<>> ELSE qs[i] \o F(i + 1) IN F(1)
LookupMulti(inputs) ==
  LET qs == [i \in 1..Len(inputs) |-> inputs[i][1]]
      all == Flatten(qs)
  IN IF HasDup(all) THEN [ok |-> FALSE, err |-> "Duplicate"]
     ELSE IF \E i \in 1..Len(inputs) : ~Lookup(inputs[i][1], inputs[i][2], inputs[i][3]).ok
          THEN [ok |-> FALSE, err |-> "Missing"]
     ELSE [ok |-> TRUE, order |-> all]

\* bfile: sequence of <<a, b>> (stored orientation), each unordered pair at most once; entry = the unordered
\* pair whose record applies, or {} for the default
BinaryEntry(a, b, bfile) ==
  IF a # b /\ \E k \in 1..Len(bfile) : {bfile[k][1], bfile[k][2]} = {a, b} THEN {a, b} ELSE {}
BinaryMatrix(order, bfile) ==
  [i \in 1..Len(order) |-> [j \in 1..Len(order) |-> BinaryEntry(order[i], order[j], bfile)]]

================================================================================
