SPECIFICATION Spec
INVARIANTS Agree OkNeedsAmount TargetsGiven
CHECK_DEADLOCK FALSE
