--------------------------- MODULE TraceStateSpec ---------------------------
(***************************************************************************)
(* C03 conformance: every recorded call of State::new_full / new_npt is    *)
(* compared with the documented meaning of its inputs (StateSpecOps!Decl): *)
(* verdict class, echo of the inputs that determine the state on the       *)
(* selected route, rejection of invalid values, root selection and the     *)
(* success clause on the Gross-Sadowski (T,p) domain.                      *)
(***************************************************************************)
EXTENDS TraceIO, StateSpecOps

VARIABLES l, cnt,
          \* the density iteration as DensityIteration.tla sees it (driven by the hook H2 events of the current call)
          pc, iterations, converged, result, synced
vars == <<l, cnt, pc, iterations, converged, result, synced>>
DI == INSTANCE DensityIteration WITH MaxIter <- 50, Variant <- "code"
divars == <<pc, iterations, converged, result, synced>>
E == Rec[l]
Ev(name) == l <= NRec /\ E.ev = name /\ l' = l + 1

RtolExactIn == "1e-12"     \* T, V, N, x are passed through
RtolTarget == "1e-7"       \* p, h, s, u are met to 100x the solver tolerances

Sum(s) == FSum(s)
ExpRho(S, i) == IF "rho" \in S THEN i.rho ELSE Sum(i.rhoi)
ExpN(S, i) == IF "N" \in S THEN i.N
              ELSE IF "Ni" \in S THEN Sum(i.Ni)
              ELSE IF DensityType(S) # {} /\ "V" \in S THEN FMul(ExpRho(S, i), i.V)
              ELSE "1"
ExpX(S, i, n) == IF "x" \in S THEN [k \in 1..Len(i.x) |-> FDiv(i.x[k], Sum(i.x))]
                 ELSE IF "Ni" \in S THEN [k \in 1..Len(i.Ni) |-> FDiv(i.Ni[k], Sum(i.Ni))]
                 ELSE IF "rhoi" \in S THEN [k \in 1..Len(i.rhoi) |-> FDiv(i.rhoi[k], Sum(i.rhoi))]
                 ELSE <<"1">>
ExpV(S, i) == IF "V" \in S THEN i.V ELSE FDiv(ExpN(S, i), ExpRho(S, i))

Rel(a, b, rtol, extra) == FClose(a, b, rtol, FAdd(FMax(FAbs(a), FAbs(b)), extra), "0")

Echo(S, route, i, r, n) ==
  LET tg == Targets(route)
      x == ExpX(S, i, n)
  IN /\ ("T" \in tg => Rel(r.T, i.T, RtolExactIn, "0"))
     /\ ("V" \in tg => Rel(r.V, ExpV(S, i), RtolExactIn, "0"))
     /\ Len(r.x) = Len(x) /\ \A k \in 1..Len(x) : Rel(r.x[k], x[k], RtolExactIn, "1e-3")
     /\ (route # "TpVx" => \A k \in 1..Len(x) : Rel(r.N[k], FMul(ExpN(S, i), x[k]), RtolExactIn, "0"))
     /\ ("p" \in tg => Rel(r.p, i.p, RtolTarget, FMul("1e-3", FMul(r.rho, r.T))))
     /\ ("h" \in tg => Rel(r.h, i.h, RtolTarget, r.T))
     /\ ("s" \in tg => Rel(r.s, i.s, RtolTarget, "1"))
     /\ ("u" \in tg => Rel(r.u, i.u, RtolTarget, r.T))

ValidState(r) == /\ FFinite(r.T) /\ FLe("0", r.T) /\ FFinite(r.V) /\ FLe("0", r.V)
                 /\ \A k \in 1..Len(r.N) : FFinite(r.N[k]) /\ FLe("0", r.N[k])

SolverErrs == {"NotConverged", "IterationFailed", "Undetermined", "InvalidState"}

Build ==
  /\ Ev("Build")
  /\ LET S == ToSet(E.given)
         d == Decl(S, E.ncomp)
         r == E.res
         f == E.fault
     IN
     /\ (f.field = "none" =>
          /\ Report("C03.verdict", <<E.model, E.given, E.pass, r, l>>,
                    IF ~d.ok THEN ~r.ok /\ r.err = "Undetermined"
                    ELSE IF ~Iterative(d.route) THEN r.ok
                    ELSE r.ok \/ r.err \in SolverErrs)
          /\ ((d.ok /\ r.ok) => Report("C03.echo", <<E.model, E.given, E.pass, d.route, E.inp, r, l>>, Echo(S, d.route, E.inp, r, E.ncomp))))
     /\ (f.field # "none" =>
          /\ (r.ok => Report("C03.never_invalid_state", <<E.model, E.given, f, r, l>>, ValidState(r)))
          \* a faulty value must be rejected whenever it determines T, V or N of the state on the selected route
          \* (a volume that the hierarchy ignores, e.g. {p, h, N, V}, or an infinite density are not in the property's list)
          /\ ((d.ok /\ (\/ f.tag = "wronglen"
                         \/ f.field \in {"T", "N", "Ni"}
                         \/ (f.field = "V" /\ (d.route \in {"TVN", "TpVx", "Vu"} \/ (DensityType(S) # {} /\ AmountType(S) = {}))))) =>
                 Report("C03.invalid_input_rejected", <<E.model, E.given, f, d.route, r, l>>, ~r.ok)))
     /\ cnt' = BumpAll(cnt, {"builds", "pass:" \o E.pass}
                  \cup (IF f.field = "none" /\ d.ok THEN {"route:" \o d.route} \cup (IF r.ok THEN {"route_ok:" \o d.route} ELSE {"route_err:" \o d.route}) ELSE {})
                  \cup (IF f.field = "none" /\ ~d.ok THEN {"declared_undetermined"} ELSE {})
                  \cup (IF f.field # "none" THEN {"fault:" \o f.tag} ELSE {}))

NoCritical == /\ Ev("NoCritical")
              /\ Report("C03.tp_state_found", <<E.file, E.index, "no critical point", l>>, FALSE)
              /\ cnt' = Bump(cnt, "no_critical")

Npt ==
  /\ Ev("Npt")
  /\ LET PEcho(o) == o.ok => FClose(o.p, E.p_in, "1e-9", FAbs(E.p_in), "1e-11")
         both == E.vapor.ok /\ E.liquid.ok
         distinct == both /\ ~FClose(E.vapor.rho, E.liquid.rho, "1e-6", FAbs(E.liquid.rho), "0")
         gdiff == both /\ ~FClose(E.vapor.g, E.liquid.g, "1e-9", FAdd(FAbs(E.vapor.g), FAbs(E.liquid.g)), "1e-9")
         stable == IF FLt(E.vapor.g, E.liquid.g) THEN E.vapor ELSE E.liquid
         inDomain == FLe(E.Tr, "1.65") /\ FLe(E.pr, "10") /\ (Has(E, "success_clause") => E.success_clause)
     IN /\ (inDomain => Report("C03.tp_state_found", <<E.file, E.index, E.Tr, E.pr, E.none, E.vapor, E.liquid, l>>,
                  E.none.ok /\ E.vapor.ok /\ E.liquid.ok))
        /\ Report("C03.pressure_met", <<E.file, E.index, E.Tr, E.pr, E.p_in, E.none, E.vapor, E.liquid, E.init, l>>,
                  PEcho(E.none) /\ PEcho(E.vapor) /\ PEcho(E.liquid) /\ PEcho(E.init))
        /\ (distinct => Report("C03.hint_selects_branch", <<E.file, E.index, E.Tr, E.pr, E.vapor.rho, E.liquid.rho, l>>,
                               FLt(E.vapor.rho, E.liquid.rho)))
        \* the builder's other routes to the same (T, p) - a volume or the total amount instead of the mole numbers - return the root new_npt returns for the same hint
        /\ (Has(E, "routes") =>
              \A k \in 1..Len(E.routes) :
                 LET q == E.routes[k]
                     direct == IF q.hint = "vapor" THEN E.vapor ELSE IF q.hint = "liquid" THEN E.liquid ELSE E.none
                 IN (q.ok /\ direct.ok) => Report("C03.hint_selects_branch_on_every_route", <<E.file, E.index, E.Tr, E.pr, q.route, q.hint, q.rho, direct.rho, l>>,
                                                   FClose(q.rho, direct.rho, "1e-8", FAbs(direct.rho), "0")))
        /\ ((distinct /\ gdiff /\ E.none.ok) =>
               Report("C03.no_hint_selects_lower_gibbs_energy", <<E.file, E.index, E.Tr, E.pr, E.none, E.vapor, E.liquid, l>>,
                      FClose(E.none.rho, stable.rho, "1e-8", FAbs(stable.rho), "0")))
        /\ cnt' = BumpAll(cnt, {"npt_cells"} \cup (IF inDomain THEN {"npt_in_success_domain"} ELSE {}) \cup (IF distinct THEN {"npt_two_roots"} ELSE {}) \cup (IF Has(E, "x") THEN {"npt_mixture_cells"} ELSE {}) \cup (IF Has(E, "x") /\ distinct /\ gdiff THEN {"npt_mixture_two_roots_judged"} ELSE {}) \cup (IF E.init.ok THEN {"npt_init_ok"} ELSE {"npt_init_err"}))


\* ---------------------------------------------------------------- density iteration, bound by hook H2
\* The hook reports DIStart, one DIIter per executed loop iteration (unstable: a repair branch re-seated the density and `continue`d;
\* otherwise a Newton step with the outcome of the convergence test) and DIEnd with the result.  Each event must be the corresponding
\* action of DensityIteration.tla (MaxIter = 50, the loop exactly as written).  Whether the recorded run IS a behaviour of the model is a
\* binding fact, not a claim of C03: it is counted (di_as_modelled / di_not_as_modelled; ./check stops with a tool error when the
\* model no longer describes the code).  What C03 does imply is judged on DICall: inside the stated (T, p) domain a density iteration
\* that returns Ok left the loop through a converged Newton step, and the returned state has the specified pressure.
DIStart == /\ Ev("DIStart")
           /\ pc' = "loop" /\ iterations' = 0 /\ converged' = FALSE /\ result' = "none" /\ synced' = TRUE     \* DI!Init followed by DI!Enter
           /\ cnt' = Bump(cnt, "di_runs")
DIIterNewton(c) == /\ pc = "loop" /\ iterations < 50 /\ ~converged
                   /\ iterations' = iterations + 1 /\ converged' = c /\ UNCHANGED <<pc, result>>          \* DI!Newton with the logged test outcome
DIIterUnstable == /\ pc = "loop" /\ iterations < 50 /\ ~converged
                  /\ iterations' = iterations + 1 /\ converged' = FALSE /\ UNCHANGED <<pc, result>>        \* DI!Unstable, `continue`
DIIter == /\ Ev("DIIter")
          /\ LET A == IF E.unstable THEN DIIterUnstable ELSE DIIterNewton(E.converged)
                 fits == synced /\ pc = "loop" /\ iterations < 50 /\ ~converged /\ E.k = iterations
             IN IF fits THEN A /\ synced' = TRUE ELSE UNCHANGED <<pc, iterations, converged, result>> /\ synced' = FALSE
          /\ cnt' = BumpAll(cnt, {"di_iterations"} \cup (IF E.unstable THEN {"di_unstable_branch"} ELSE {}))
\* the result the model's Exit / Finish gives for the current state (Variant "code": Ok unless iterations = MaxIter + 1, which cannot happen)
DIEnd == /\ Ev("DIEnd")
         /\ LET modelled == \/ (E.result = "InvalidState" /\ iterations = 0)
                            \/ (E.result = "IterationFailed" /\ pc = "loop")
                            \/ (E.result = "Ok" /\ pc = "loop" /\ (converged \/ iterations = 50) /\ E.iterations = iterations)
            IN /\ synced' = (synced /\ modelled)
               /\ pc' = "done" /\ result' = E.result /\ UNCHANGED <<iterations, converged>>
         /\ cnt' = BumpAll(cnt, {"di_end:" \o E.result})
DICall ==
  /\ Ev("DICall")
  /\ LET inDomain == FLe(E.Tr, "1.65") /\ FLe(E.pr, "10")
         ranToEnd == pc = "done"
     IN
     \* the API result is what the loop reported (Ok <-> Ok)
     /\ (ranToEnd => Report("C03.density_iteration_result_is_returned", <<E.file, E.index, E.init, E.status, result, l>>, (E.status = "Ok") <=> (result = "Ok")))
     /\ ((inDomain /\ E.status = "Ok" /\ ranToEnd) =>
           /\ Report("C03.density_iteration_ok_means_converged", <<E.file, E.index, E.init, E.Tr, E.pr, iterations, l>>, converged)
           /\ Report("C03.pressure_met", <<E.file, E.index, E.Tr, E.pr, E.p_in, E.p, E.init, l>>, FClose(E.p, E.p_in, "1e-9", FAbs(E.p_in), "1e-11")))
     /\ cnt' = BumpAll(cnt, {"di_calls"} \cup (IF synced /\ ranToEnd THEN {"di_as_modelled"} ELSE {"di_not_as_modelled"})
                   \cup (IF E.status = "Ok" /\ ~converged /\ ranToEnd THEN {"di_ok_without_convergence"} ELSE {}))
     /\ pc' = "start" /\ iterations' = 0 /\ converged' = FALSE /\ result' = "none" /\ synced' = TRUE

Init == l = 1 /\ cnt = NoCount /\ pc = "start" /\ iterations = 0 /\ converged = FALSE /\ result = "none" /\ synced = TRUE
Next == /\ ((Build /\ UNCHANGED divars) \/ (Npt /\ UNCHANGED divars) \/ (NoCritical /\ UNCHANGED divars) \/ DIStart \/ DIIter \/ DIEnd \/ DICall)
        /\ (l' > NRec => PrintT("STATS " \o ToJson(cnt')))
TraceSpec == Init /\ [][Next]_vars
================================================================================
