------------------------------ MODULE Equilibrium ------------------------------
(***************************************************************************)
(* Conditions of phase equilibrium, criticality and stability (C04-C07),   *)
(* stated over the projection of a phase recorded from a State:            *)
(*   [T, p, rho, V, N, x, mu_res_T (= mu_i^res / T), ln_phi, dp_dv,        *)
(*    d2p_dv2, dmu_dni_res]     in reduced units (k_B = 1).                *)
(***************************************************************************)
EXTENDS Naturals, Sequences, FiniteSets, Float64

NC(ph) == Len(ph.x)
\* Two pressures are "the same" relative to the larger of the pressure itself and 1 % of the bulk modulus
\* K = -V dp/dV of the stiffer phase: a liquid's pressure responds to a relative density change d by K d, so a
\* solver that has converged the densities to d leaves a pressure mismatch of K d however small p itself is.
Bulk(a) == FAbs(FMul(a.V, a.dp_dv))
PScale(a, b) == FAdd(FMax(FAbs(a.p), FAbs(b.p)), FMul("1e-2", FMax(Bulk(a), Bulk(b))))

EqualT(a, b) == FEq(a.T, b.T)
EqualP(a, b, rtol) == FClose(a.p, b.p, rtol, PScale(a, b), "0")
\* ln f_i / (rho R T)-free form: ln phi_i + ln x_i equal in both phases
FugDefect(a, b, i) == FSub(FAdd(a.ln_phi[i], FLn(a.x[i])), FAdd(b.ln_phi[i], FLn(b.x[i])))
FugScale(a, b, i) == FAdd("1", FAdd(FAdd(FAbs(a.ln_phi[i]), FAbs(b.ln_phi[i])), FAdd(FAbs(FLn(a.x[i])), FAbs(FLn(b.x[i])))))
IsoFugacity(a, b, tol) == \A i \in 1..NC(a) :
   (FLt("0", a.x[i]) /\ FLt("0", b.x[i])) => FLe(FAbs(FugDefect(a, b, i)), FMul(tol, FugScale(a, b, i)))
\* pure fluid: mu^res/T + ln rho equal
PureMuDefect(a, b) == FAdd(FSub(a.mu_res_T[1], b.mu_res_T[1]), FLn(FDiv(a.rho, b.rho)))
PureMuEqual(a, b, tol) == FLe(FAbs(PureMuDefect(a, b)), FMul(tol, FAdd("1", FAdd(FAbs(a.mu_res_T[1]), FAbs(b.mu_res_T[1])))))
\* the phases are not copies of each other (relative deviation of some partial density >= 1e-5)
NotTrivial(a, b) == \E i \in 1..NC(a) :
   FLe("1e-5", FAbs(FSub(FDiv(FMul(b.rho, b.x[i]), FMul(a.rho, a.x[i])), "1")))
SameX(a, z, tol) == \A i \in 1..Len(z) : FClose(a.x[i], z[i], tol, "1", "0")
SamePhase(a, b, rtol) == /\ FClose(a.T, b.T, rtol, FAbs(a.T), "0") /\ FClose(a.p, b.p, rtol, PScale(a, b), "0")
                         /\ FClose(a.rho, b.rho, rtol, FAbs(a.rho), "0") /\ SameX(a, b.x, rtol)

\* smallest eigenvalue of  delta_ij + sqrt(N_i N_j) d2(beta A_res)/dN_i dN_j  (n <= 2, closed form)
Mij(ph, i, j) == FAdd(IF i = j THEN "1" ELSE "0", FDiv(FMul(FSqrt(FMul(ph.N[i], ph.N[j])), ph.dmu_dni_res[i][j]), ph.T))
LamMin(ph) ==
  IF NC(ph) = 1 THEN Mij(ph, 1, 1)
  ELSE LET a == Mij(ph, 1, 1)
           b == Mij(ph, 1, 2)
           d == Mij(ph, 2, 2)
       IN FSub(FMul("0.5", FAdd(a, d)), FSqrt(FAdd(FMul("0.25", FMul(FSub(a, d), FSub(a, d))), FMul(b, b))))

\* tangent plane distance of trial phase w with respect to the analysed state z (both at the same T, p)
Tpd(w, z) == FSum([i \in 1..NC(w) |->
                IF FLt("0", w.x[i]) THEN FMul(w.x[i], FSub(FAdd(FLn(w.x[i]), w.ln_phi[i]), FAdd(FLn(z.x[i]), z.ln_phi[i]))) ELSE "0"])
================================================================================
