SPECIFICATION Spec
CONSTANTS
  MaxIter = 4
  Variant = "code"
INVARIANTS TypeOK OkImpliesConverged
CHECK_DEADLOCK FALSE
