SPECIFICATION Spec
CONSTANTS
  Inputs <- Extreme
INVARIANTS
  OkImpliesConverged
CHECK_DEADLOCK FALSE
