SPECIFICATION TraceSpec
CONSTANTS
  Calibrate = FALSE
  MaxIterChoices = {100}
  TolChoices = {"1e-6"}
  ErrChoices = {}
  TpdChoices = {}
POSTCONDITION Accepted
CHECK_DEADLOCK FALSE
