---- MODULE GenStateSpec ----
EXTENDS StateSpecOps, Json, IOUtils, SequencesExt, TLC
Cases == {[given |-> SetToSeq(S), ncomp |-> n] : S \in SUBSET Inputs, n \in {1, 2}}
ASSUME /\ ndJsonSerialize(IOEnv.PLAN, SetToSeq(Cases))
       /\ PrintT(<<"PLAN", Cardinality(Cases), Cardinality({c \in Cases : Decl(ToSet(c.given), c.ncomp).ok})>>)
VARIABLE z
GSpec == z = 0 /\ [][UNCHANGED z]_z
====
