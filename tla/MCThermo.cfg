SPECIFICATION Spec
CONSTANT TolScale = "1"
CONSTANT TolExact = "1"
INVARIANT CatalogueOK
CHECK_DEADLOCK FALSE
