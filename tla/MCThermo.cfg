SPECIFICATION Spec
CONSTANT TolScale = "1"
INVARIANT CatalogueOK
CHECK_DEADLOCK FALSE
