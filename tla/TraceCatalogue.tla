---------------------------- MODULE TraceCatalogue ----------------------------
(***************************************************************************)
(* C15: integrity of the shipped parameter collections, evaluated by TLC   *)
(* on the COMPLETE data as the library's own deserialisers read it.        *)
(* State: the set of lookup identifiers (names) seen per pure file and the *)
(* set of segment identifiers per segment table.                           *)
(*   File        a file parsed with the record type of its model           *)
(*   PureRec     one pure record: unique name within its file, positive    *)
(*               m, sigma, epsilon_k and (for equations of state) molar    *)
(*               weight                                                    *)
(*   SegmentRec  one segment record: unique identifier (group parameters   *)
(*               may be negative by construction of the GC method)         *)
(*   BinaryRec / SegBinaryRec  both identifiers exist in the collection(s) *)
(*               the binary file accompanies (referential integrity)       *)
(*   GcSubstance assembles from the shipped homo- and heterosegmented      *)
(*               tables                                                    *)
(*   Pipeline    Parsed -> Model -> Critical -> Saturation reaches Done    *)
(*               with finite properties                                    *)
(***************************************************************************)
EXTENDS TraceIO

VARIABLES l, cnt, names, segs, cur
vars == <<l, cnt, names, segs, cur>>
E == Rec[l]
Ev(name) == l <= NRec /\ E.ev = name /\ l' = l + 1

EosModels == {"PcSaft", "SaftVRMie", "SaftVRQMie", "ElectrolytePcSaft"}
Get(f, k) == IF k \in DOMAIN f THEN f[k] ELSE {}
Pos(v) == v = "absent" \/ FLt("0", v)

File == /\ Ev("File")
        /\ Report("C15.file_parses", <<E.file, E.kind, l>>, E.parsed)
        /\ cur' = E
        /\ cnt' = BumpAll(cnt, {"files", "files:" \o E.kind})
        /\ UNCHANGED <<names, segs>>
PureRec == /\ Ev("PureRec")
           /\ Report("C15.unique_lookup_identifier", <<E.file, E.idx, E.ids.name, l>>, E.ids.name # "" /\ E.ids.name \notin Get(names, E.file))
           /\ Report("C15.positive_parameters", <<E.file, E.idx, E.ids.name, E.m, E.sigma, E.epsilon_k, E.mw, l>>,
                     /\ Pos(E.m) /\ Pos(E.sigma) /\ Pos(E.epsilon_k)
                     /\ (cur.model \in EosModels => FLt("0", E.mw)))
           /\ names' = (E.file :> (Get(names, E.file) \cup {E.ids.name})) @@ names
           /\ cnt' = Bump(cnt, "pure_records")
           /\ UNCHANGED <<segs, cur>>
SegmentRec == /\ Ev("SegmentRec")
              /\ Report("C15.unique_lookup_identifier", <<E.file, E.idx, E.id, l>>, E.id # "" /\ E.id \notin Get(segs, E.file))
              /\ Report("C15.positive_parameters", <<E.file, E.idx, E.id, E.mw, l>>, FLt("0", E.mw))
              /\ segs' = (E.file :> (Get(segs, E.file) \cup {E.id})) @@ segs
              /\ cnt' = BumpAll(cnt, {"segment_records"} \cup (IF E.m # "absent" /\ ~FLt("0", E.m) THEN {"segment_records_with_negative_m"} ELSE {}))
              /\ UNCHANGED <<names, cur>>
Known(acc, nm) == \E k \in 1..Len(acc) : nm \in Get(names, acc[k])
BinaryRec == /\ Ev("BinaryRec")
             /\ Report("C15.binary_refers_to_collection", <<E.file, E.idx, E.id1.name, E.id2.name, l>>,
                       Known(E.accompanies, E.id1.name) /\ Known(E.accompanies, E.id2.name))
             /\ cnt' = Bump(cnt, "binary_records")
             /\ UNCHANGED <<names, segs, cur>>
KnownSeg(acc, id) == \E k \in 1..Len(acc) : id \in Get(segs, acc[k])
SegBinaryRec == /\ Ev("SegBinaryRec")
                /\ Report("C15.binary_refers_to_collection", <<E.file, E.idx, E.id1, E.id2, l>>,
                          KnownSeg(E.accompanies, E.id1) /\ KnownSeg(E.accompanies, E.id2))
                /\ cnt' = Bump(cnt, "segment_binary_records")
                /\ UNCHANGED <<names, segs, cur>>
GcSubstance == /\ Ev("GcSubstance")
               /\ Report("C15.gc_substance_assembles", <<E.name, E.segments, E.homo_err, l>>, E.homo /\ E.hetero)
               /\ \A k \in 1..Len(E.tables) : Report("C15.gc_substance_assembles", <<E.name, E.tables[k].table, E.tables[k].err, l>>, E.tables[k].ok)
               /\ cnt' = BumpAll(BumpBy(cnt, "gc_table_assemblies", Len(E.tables)), {"gc_substances"} \cup (IF E.joback THEN {"gc_substances_with_joback"} ELSE {})
                                         \cup (IF E.hetero_critical_point THEN {"gc_substances_with_critical_point"} ELSE {}))
               /\ UNCHANGED <<names, segs, cur>>
Pipeline == /\ Ev("Pipeline")
            /\ Report("C15.usable_model", <<E.file, E.idx, E.stage, E.err, E.finite, l>>, E.stage = "Done" /\ E.finite /\ E.points > 0)
            /\ cnt' = BumpAll(cnt, {"pipelines"} \cup (IF E.stage = "Done" THEN {"pipelines_done"} ELSE {}))
            /\ UNCHANGED <<names, segs, cur>>

Init == l = 1 /\ cnt = NoCount /\ names = <<>> /\ segs = <<>> /\ cur = <<>>
Next == /\ (File \/ PureRec \/ SegmentRec \/ BinaryRec \/ SegBinaryRec \/ GcSubstance \/ Pipeline)
        /\ (l' > NRec => PrintT("STATS " \o ToJson(cnt')))
TraceSpec == Init /\ [][Next]_vars
================================================================================
