SPECIFICATION Spec
CONSTANTS
  NStages = 3
  CheckTrivial = TRUE
INVARIANT OkOnlyFromConvergedNonTrivial
PROPERTY LaterStageOnlyAfterFailure
CHECK_DEADLOCK FALSE
