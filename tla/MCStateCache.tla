---- MODULE MCStateCache ----
EXTENDS StateCache
\* observation variable hidden from the fingerprint? no: lastret is part of the property
====
