SPECIFICATION TraceSpec
CONSTANTS
  Calibrate = FALSE
  TolScale = "1"
POSTCONDITION Accepted
CHECK_DEADLOCK FALSE
