SPECIFICATION TraceSpec
CONSTANTS
  Calibrate = FALSE
  TolScale = "1"
  TolExact = "300"
POSTCONDITION Accepted
CHECK_DEADLOCK FALSE
