SPECIFICATION Spec
CONSTANT NComp = 3
INVARIANTS EveryReturnedIsNegative NoDuplicates StableIffNoNegative EveryMinimumRepresented
CHECK_DEADLOCK FALSE
