SPECIFICATION Spec
CONSTANTS
  MaxStages = 3
  Debug = FALSE
INVARIANTS OkMeansLastToleranceMet OkMeansConverged
CHECK_DEADLOCK FALSE
