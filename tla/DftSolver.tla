------------------------------- MODULE DftSolver -------------------------------
(***************************************************************************)
(* DFTProfile::call_solver (feos-dft/src/solver.rs): a solver is a CHAIN   *)
(* of stages (Picard iteration, Anderson mixing, Newton-GMRES; each with   *)
(* its own tolerance, logarithmic or not).  Stages run in order on the     *)
(* same density; every stage reports (converged, iterations); the flag     *)
(* `converged` is OVERWRITTEN by each stage; after the last stage:         *)
(* Ok if converged, Ok if debug, else Err(NotConverged).  A stage may also *)
(* abort the whole chain with an error (non-finite residual).              *)
(* Consequences checked here:                                              *)
(*  - Ok without debug  =>  the LAST stage met ITS tolerance (C18: "the    *)
(*    residual of the returned profile is below the solver tolerance")     *)
(*  - with debug = TRUE, Ok carries no information                         *)
(*  - a stage that starts from a profile already below its tolerance       *)
(*    converges in 0 iterations (so a loose final stage after a tight one  *)
(*    keeps the tight residual)                                            *)
(***************************************************************************)
EXTENDS Naturals, Sequences, FiniteSets, TLC
CONSTANTS MaxStages, Debug
Algos == {"picard", "anderson", "newton"}
Tols == {5, 11}            \* 1e-5 and 1e-11 as exponents
Stage == [algo : Algos, tol : Tols, log : BOOLEAN]
Chains == UNION {[1..k -> Stage] : k \in 1..MaxStages}

VARIABLES chain, j, res, converged, result
\* res: exponent class of the current residual: 0 (far), 5 (< 1e-5), 11 (< 1e-11)
vars == <<chain, j, res, converged, result>>
Init == chain \in Chains /\ j = 1 /\ res = 0 /\ converged = FALSE /\ result = "none"
RunStage == /\ result = "none" /\ j <= Len(chain)
            /\ \/ \* already below this stage's tolerance: converged at once, density untouched
                  /\ res >= chain[j].tol /\ converged' = TRUE /\ res' = res
               \/ \* iterates and reaches its tolerance (possibly overshooting to the tighter class)
                  /\ res < chain[j].tol /\ converged' = TRUE /\ res' \in {r \in {5, 11} : r >= chain[j].tol}
               \/ \* runs out of iterations; the residual may have improved or not
                  /\ res < chain[j].tol /\ converged' = FALSE /\ res' \in {r \in {0, 5} : r < chain[j].tol}
            /\ j' = j + 1 /\ UNCHANGED <<chain, result>>
Abort == /\ result = "none" /\ j <= Len(chain) /\ result' = "Err(IterationFailed)" /\ UNCHANGED <<chain, j, res, converged>>
Finish == /\ result = "none" /\ j = Len(chain) + 1
          /\ result' = IF converged \/ Debug THEN "Ok" ELSE "Err(NotConverged)"
          /\ UNCHANGED <<chain, j, res, converged>>
Next == RunStage \/ Abort \/ Finish
Spec == Init /\ [][Next]_vars

OkMeansLastToleranceMet == (result = "Ok" /\ ~Debug) => res >= chain[Len(chain)].tol
OkMeansConverged == (result = "Ok") => converged      \* violated with Debug = TRUE
================================================================================
