SPECIFICATION GSpec
