SPECIFICATION TraceSpec
CONSTANTS
  Calibrate = FALSE
  PolylineVariant = "fixed"
POSTCONDITION Accepted
CHECK_DEADLOCK FALSE
