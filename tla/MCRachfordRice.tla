--------------------------- MODULE MCRachfordRice ---------------------------
(* Bounded instance of RachfordRice: feeds and K-factors from small grids (2 and 3 components), with and without an initial beta. *)
EXTENDS RachfordRice, TLC
KGrid == <<"1e-3", "0.3", "0.9", "0.999", "1", "1.001", "1.5", "4", "1e3">>
ZGrid2 == {<<"0.5", "0.5">>, <<"0.02", "0.98">>, <<"0.98", "0.02">>, <<"0.3", "0.7">>, <<"1e-6", "0.999999">>}
ZGrid3 == {<<"0.2", "0.3", "0.5">>, <<"0.01", "0.01", "0.98">>, <<"0.6", "0.39", "0.01">>, <<"0.333", "0.333", "0.334">>}
BetaIns == {"none", "-0.1", "0.05", "0.5", "0.95", "1.2"}
KIdx == 1..Len(KGrid)
MCInputs == {[z |-> z, k |-> <<KGrid[a], KGrid[b]>>, betaIn |-> bi] : z \in ZGrid2, a \in KIdx, b \in KIdx, bi \in BetaIns}
      \cup {[z |-> z, k |-> <<KGrid[a], KGrid[b], KGrid[c]>>, betaIn |-> bi] : z \in ZGrid3, a \in {1, 3, 5, 7, 9}, b \in KIdx, c \in {2, 4, 6, 8}, bi \in {"none", "0.5", "0.95"}}
\* extreme inputs: K-factors over 16 decades, trace components (here the 10 safeguarded Newton steps of the code do not always suffice)
XK == <<"1e-8", "1e-3", "0.5", "0.99", "0.999999", "1.000001", "1.01", "2", "1e3", "1e8">>
XZ2 == {<<"0.5", "0.5">>, <<"1e-9", "0.999999999">>, <<"0.999999999", "1e-9">>, <<"1e-4", "0.9999">>}
XZ3 == {<<"1e-8", "0.5", "0.49999999">>, <<"0.5", "0.49999999", "1e-8">>, <<"1e-5", "1e-5", "0.99998">>}
XB == {"none", "1e-9", "0.5", "0.999999999"}
XI == 1..Len(XK)
Extreme == {[z |-> z, k |-> <<XK[a], XK[b]>>, betaIn |-> bi] : z \in XZ2, a \in XI, b \in XI, bi \in XB}
      \cup {[z |-> z, k |-> <<XK[a], XK[b], XK[c]>>, betaIn |-> bi] : z \in XZ3, a \in XI, b \in {1, 3, 5, 6, 8, 10}, c \in {1, 2, 5, 6, 9, 10}, bi \in {"none", "0.5"}}
\* zero K-factor: feed / k is inf or NaN (0/0) - the code filters NaN out of the sum
Degenerate == {[z |-> <<"0", "1">>, k |-> <<"0", "2">>, betaIn |-> "none"], [z |-> <<"0.5", "0.5">>, k |-> <<"0", "3">>, betaIn |-> "none"],
               [z |-> <<"0", "0.4", "0.6">>, k |-> <<"0", "3", "0.2">>, betaIn |-> "0.5"]}
================================================================================
