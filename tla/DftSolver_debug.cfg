SPECIFICATION Spec
CONSTANTS
  MaxStages = 2
  Debug = TRUE
INVARIANTS OkMeansConverged
CHECK_DEADLOCK FALSE
