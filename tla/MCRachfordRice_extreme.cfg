SPECIFICATION Spec
CONSTANTS
  Inputs <- Extreme
INVARIANTS
  BracketKept
  ErrIffNoSolution
  StateMachineIsFunction
  OkInsideBounds
PROPERTIES
  BracketShrinks
CHECK_DEADLOCK FALSE
