SPECIFICATION GSpec
CONSTANTS
  NComp = 2
  Objs = {1, 2}
  Threads = {1}
  MaxOps = 3
  Granularity = "get"
  Variant = "ok"
  MaxLen = 3
