----------------------------- MODULE Continuation -----------------------------
(***************************************************************************)
(* Drivers that thread results through a sequence of solves                *)
(* (PhaseDiagram::pure, binary_vle, bubble/dew_point_line, lle): points    *)
(* 1..N are visited in order; the last successful result is carried as the *)
(* initial guess of the next point and reset (.ok()) on failure; failed    *)
(* points are dropped silently; optionally a final (critical) point is     *)
(* appended.  C12 for drivers: under the assumption that a converged solve *)
(* does not depend on its guess (GuessIndependent = TRUE, what the trace   *)
(* laws C12.* establish on the code), the returned list is exactly         *)
(* <<Sol(pt) : pt solved>> in order - independent of N, of the direction   *)
(* and of failures at earlier points.  With GuessIndependent = FALSE TLC   *)
(* exhibits the counter-example, i.e. the assumption is necessary.         *)
(***************************************************************************)
EXTENDS Naturals, Sequences, TLC
CONSTANTS N, GuessIndependent, AppendFinal
VARIABLES pos,      \* next point
          carry,    \* 0 = no guess, else the point whose solution is carried
          results   \* sequence of <<point, value>>; value 0 = the guess-independent solution, else biased by a guess
vars == <<pos, carry, results>>
Init == pos = 1 /\ carry = 0 /\ results = <<>>
Solve == /\ pos <= N
         /\ \/ \* failure: dropped, guess reset
               /\ carry' = 0 /\ UNCHANGED results
            \/ \* success
               /\ results' = Append(results, <<pos, IF GuessIndependent \/ carry = 0 THEN 0 ELSE carry>>)
               /\ carry' = pos
         /\ pos' = pos + 1
Final == /\ pos = N + 1 /\ AppendFinal
         /\ results' = Append(results, <<N + 1, 0>>) /\ pos' = N + 2 /\ UNCHANGED carry
Next == Solve \/ Final
Spec == Init /\ [][Next]_vars

EachPointIsStandalone == \A i \in 1..Len(results) : results[i][2] = 0
InOrder == \A i, j \in 1..Len(results) : i < j => results[i][1] < results[j][1]
FinalIsLast == (pos = N + 2) => results[Len(results)][1] = N + 1
================================================================================
