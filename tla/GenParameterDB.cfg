SPECIFICATION GSpec
CONSTANTS
  Subst = {1, 2, 3, 4}
  MaxQuery = 3
