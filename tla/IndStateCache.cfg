SPECIFICATION ISpec
CONSTANTS
  NComp = 2
  Variant = "ok"
INVARIANTS
  Inductive
  ByProductsSound
CHECK_DEADLOCK FALSE
