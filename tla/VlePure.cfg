SPECIFICATION Spec
CONSTANTS
  MaxIterChoices = {0, 1, 3}
INVARIANTS
  TypeOK
  IndInv
  OkMeansConverged
  NotConvergedIsHonest
  CascadeOrder
  ErrorOnlyFromLastStage
  Bounded
PROPERTIES
  Terminates
CHECK_DEADLOCK FALSE
