SPECIFICATION Spec
CONSTANTS
  MaxIterChoices = {0, 1, 3}
INVARIANTS
  TypeOK
  OkMeansConverged
  NotConvergedIsHonest
  CascadeOrder
  ErrorOnlyFromLastStage
  Bounded
PROPERTIES
  Terminates
CHECK_DEADLOCK FALSE
