SPECIFICATION Spec
CONSTANTS
  N = 6
  GuessIndependent = FALSE
  AppendFinal = TRUE
INVARIANTS EachPointIsStandalone InOrder FinalIsLast
CHECK_DEADLOCK FALSE
