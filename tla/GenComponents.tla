---- MODULE GenComponents ----
EXTENDS Components, Json, IOUtils, SequencesExt
Plan == UNION {{[n |-> n, kind |-> t.kind, map |-> t.map, arg |-> t.arg] : t \in Transformations(n)} : n \in 2..4}
ASSUME /\ \A n \in 1..4 : \A t \in Transformations(n) : MapOK(n, t)
       /\ ndJsonSerialize(IOEnv.PLAN, SetToSeq(Plan))
       /\ PrintT(<<"PLAN", Cardinality(Plan), [n \in 1..4 |-> Cardinality(Transformations(n))]>>)
VARIABLE z
GSpec == z = 0 /\ [][UNCHANGED z]_z
====
