SPECIFICATION Spec
CONSTANTS
  NStages = 3
  CheckTrivial = FALSE
INVARIANT OkOnlyFromConvergedNonTrivial
PROPERTY LaterStageOnlyAfterFailure
CHECK_DEADLOCK FALSE
