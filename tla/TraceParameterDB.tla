-------------------------- MODULE TraceParameterDB --------------------------
(***************************************************************************)
(* C14 conformance: what the real constructors returned for every replayed *)
(* case must be what the declarative meaning of ParameterDBOps.tla gives   *)
(* for the same inputs (identifier sequence exact, binary matrix entries   *)
(* exact doubles, error kind).  Group-contribution combining rules: see    *)
(* the Segments actions.                                                   *)
(***************************************************************************)
EXTENDS TraceIO, Segments
DB == INSTANCE ParameterDBOps

VARIABLES l, cnt
vars == <<l, cnt>>
E == Rec[l]
Ev(name) == l <= NRec /\ E.ev = name /\ l' = l + 1

Same(res, exp) ==
  /\ res.ok = exp.ok
  /\ (exp.ok => res.order = exp.order)
  /\ (~exp.ok => res.err = exp.err)

Lookup ==
  /\ Ev("Lookup")
  /\ LET exp == DB!Lookup(E.q, E.file, ToSet(E.vis)) IN
     /\ Report("C14.lookup", <<E.model, E.kind, E.q, E.file, E.vis, E.res, l>>, Same(E.res, exp))
     /\ cnt' = BumpAll(cnt, {"lookups", "model:" \o E.model, "kind:" \o E.kind, IF exp.ok THEN "lookup_ok" ELSE "lookup_" \o exp.err}
                  \cup (IF exp.ok /\ E.q # E.file /\ Len(E.q) > 1 THEN {"lookup_ok_query_order_differs_from_file_order"} ELSE {}))

\* tag written into the binary record of the unordered pair {a,b}: 0.01 min + 0.001 max
TagOf(p) == IF p = {} THEN "0"
            ELSE LET a == CHOOSE x \in p : \A y \in p : x <= y
                     b == CHOOSE x \in p : \A y \in p : y <= x
                 IN FAdd(FMul("0.01", FOfInt(a)), FMul("0.001", FOfInt(b)))
Binary ==
  /\ Ev("Binary")
  /\ LET exp == DB!Lookup(E.q, <<1, 2, 3, 4>>, {1, 2, 3, 4})
         mat == DB!BinaryMatrix(E.q, E.bfile)
     IN
     /\ Report("C14.binary_matrix", <<E.model, E.kind, E.q, E.bfile, E.res, l>>,
               /\ Same(E.res, exp)
               /\ exp.ok => \A i, j \in 1..Len(E.q) : FClose(E.res.kij[i][j], TagOf(mat[i][j]), "1e-15", "1", "0"))
     /\ cnt' = BumpAll(cnt, {"binary_cases", "model:" \o E.model}
                  \cup (IF \E i, j \in 1..Len(E.q) : mat[i][j] # {} /\ \E k \in 1..Len(E.bfile) : E.bfile[k] = <<E.q[j], E.q[i]>>
                        THEN {"binary_found_in_reverse_orientation"} ELSE {})
                  \cup (IF \E i, j \in 1..Len(E.q) : i # j /\ mat[i][j] = {} THEN {"binary_default_used"} ELSE {}))

Multi ==
  /\ Ev("Multi")
  /\ LET all == {1, 2, 3, 4}
         exp == DB!LookupMulti(<< <<E.q1, E.f1, all>>, <<E.q2, E.f2, all>> >>) IN
     /\ Report("C14.multiple_files", <<E.model, E.kind, E.q1, E.f1, E.q2, E.f2, E.res, l>>, Same(E.res, exp))
     /\ cnt' = BumpAll(cnt, {"multi_cases", IF exp.ok THEN "multi_ok" ELSE "multi_" \o exp.err})

\* ---------------------------------------------------------------- group contribution
RtolGC == "1e-13"
Tbl(e) == PairsToFcn(e.table)
SegHomo ==
  /\ Ev("SegHomo")
  /\ LET t == Tbl(E)
         m == HomoM(E.segs, t)
         tooPolar == PolarCount(E.segs, t) > 1
         Rel(a, b) == FClose(a, b, RtolGC, FMax(FAbs(a), FAbs(b)), "0")
     IN /\ Report("C14.gc_polar_segments", <<E.segs, E.res, l>>, tooPolar <=> (~E.res.ok /\ E.res.err = "Incompatible"))
        /\ (~tooPolar => Report("C14.gc_combining_rules", <<E.segs, E.res, l>>,
               /\ E.res.ok
               /\ Rel(E.res.m, m)
               /\ Rel(E.res.mw, HomoMW(E.segs, t))
               /\ Rel(FMul(E.res.m, FMul(E.res.sigma, FMul(E.res.sigma, E.res.sigma))), HomoMSigma3(E.segs, t))
               /\ Rel(FMul(E.res.m, E.res.epsilon_k), HomoMEps(E.segs, t))))
        /\ cnt' = BumpAll(cnt, {"gc_homo", IF tooPolar THEN "gc_homo_rejected" ELSE "gc_homo_ok"})
SegKij ==
  /\ Ev("SegKij")
  /\ LET t == Tbl(E)
         bad == PolarCount(E.a, t) > 1 \/ PolarCount(E.b, t) > 1
         k == Kij(E.a, E.b, E.kab)
     IN /\ (bad => Report("C14.gc_polar_segments", <<E.a, E.b, E.res, l>>, ~E.res.ok))
        /\ (~bad => Report("C14.gc_kij_averaging", <<E.a, E.b, E.res, l>>,
               /\ E.res.ok
               /\ FClose(FMul(E.res.kij, k.den), k.num, RtolGC, FAdd(k.scale, FAbs(FMul(E.res.kij, k.den))), "1e-300")
               /\ FEq(E.res.kij, E.res.kji)))
        /\ cnt' = BumpAll(cnt, {"gc_kij"} \cup (IF ~bad /\ ~FEq(k.num, "0") THEN {"gc_kij_nonzero"} ELSE {}))
SegKijN ==
  /\ Ev("SegKijN")
  /\ LET t == Tbl(E)
         n == Len(E.mols)
         bad == \E i \in 1..n : PolarCount(E.mols[i], t) > 1
     IN /\ (bad => Report("C14.gc_polar_segments", <<E.mols, E.res, l>>, ~E.res.ok))
        /\ (~bad => /\ Report("C14.gc_kij_averaging", <<E.mols, "construction succeeds", E.res, l>>, E.res.ok)
                    /\ (E.res.ok => \A i \in 1..n : \A j \in 1..n :
                           IF i = j THEN Report("C14.gc_kij_averaging", <<E.mols, i, j, "diagonal is zero", E.res.k[i][j], l>>, FEq(E.res.k[i][j], "0"))
                           ELSE LET k == Kij(E.mols[i], E.mols[j], E.kab) IN
                                Report("C14.gc_kij_averaging", <<E.mols, i, j, E.res.k[i][j], l>>,
                                       /\ FClose(FMul(E.res.k[i][j], k.den), k.num, RtolGC, FAdd(k.scale, FAbs(FMul(E.res.k[i][j], k.den))), "1e-300")
                                       /\ FEq(E.res.k[i][j], E.res.k[j][i]))))
        /\ cnt' = BumpAll(cnt, {"gc_kij_multi"} \cup (IF ~bad THEN {"gc_kij_multi_ok"} ELSE {}))
SegHetero ==
  /\ Ev("SegHetero")
  /\ LET t == Tbl(E)
         bonds == IF E.default_bonds THEN ChainBonds(E.segs) ELSE E.bonds
         types == Types(E.segs)
         got == E.res.segs
         Rel(a, b) == FClose(a, b, RtolGC, FMax(FAbs(a), FAbs(b)), "0")
         gotB(a, b) == LET ks == {k \in 1..Len(E.res.bonds) : {E.res.bonds[k][1], E.res.bonds[k][2]} = {a, b}}
                       IN FSum([i \in 1..Cardinality(ks) |-> E.res.bonds[SetToSeq(ks)[i]][3]])
     IN /\ Report("C14.gc_hetero_segments", <<E.segs, E.res, l>>,
                  /\ E.res.ok
                  /\ {got[k][1] : k \in 1..Len(got)} = types /\ Len(got) = Cardinality(types)
                  /\ \A k \in 1..Len(got) :
                        /\ Rel(got[k][2], FMul(FOfInt(Count(E.segs, got[k][1])), t[got[k][1]].m))
                        /\ FEq(got[k][3], t[got[k][1]].sigma) /\ FEq(got[k][4], t[got[k][1]].eps)
                  /\ Rel(E.res.mw, HomoMW(E.segs, t)))
        /\ (E.res.ok => Report("C14.gc_hetero_bonds", <<E.segs, bonds, E.res.bonds, l>>,
                  \A a, b \in types : FEq(gotB(a, b), FOfInt(BondCount(E.segs, bonds, a, b)))))
        /\ cnt' = BumpAll(cnt, {"gc_hetero"} \cup (IF bonds # ChainBonds(E.segs) THEN {"gc_hetero_explicit_bonds"} ELSE {}))
\* serialising and re-reading a record reproduces a model with identical behaviour
Serde ==
  /\ Ev("Serde")
  /\ Report("C14.serde_round_trip", <<E.what, E.before, E.after, l>>,
            /\ E.reparsed /\ Len(E.before) = Len(E.after)
            /\ \A i \in 1..Len(E.before) : E.before[i] = E.after[i] \/ FClose(E.before[i], E.after[i], "1e-14", FAbs(E.before[i]), "0"))
  /\ cnt' = Bump(cnt, "serde_round_trips")

\* a binary record with association parameters reaches BOTH cross entries (A-site of i with B-site of j, and B of i with A of j) of the built association matrices,
\* whatever the order of the query and the orientation in which the record is stored
AssocBinary ==
  /\ Ev("AssocBinary")
  /\ Report("C14.binary_association_record_is_orientation_free", <<E.model, E.pair, E.stored_swapped, E.query_swapped, E.eps_record, E.eps, E.rc_record, E.rc, l>>,
            /\ E.ok /\ Len(E.eps) = 2 /\ Len(E.rc) = 2
            /\ \A i, j \in 1..2 : i # j => (FClose(E.eps[i][j], E.eps_record, "1e-14", FAbs(E.eps_record), "0") /\ FClose(E.rc[i][j], E.rc_record, "1e-14", FAbs(E.rc_record), "0")))
  /\ cnt' = Bump(cnt, "binary_association_records")

Init == l = 1 /\ cnt = NoCount
Next == /\ (Lookup \/ Binary \/ Multi \/ SegHomo \/ SegKij \/ SegKijN \/ SegHetero \/ Serde \/ AssocBinary)
        /\ (l' > NRec => PrintT("STATS " \o ToJson(cnt')))
TraceSpec == Init /\ [][Next]_vars
================================================================================
