-------------------------------- MODULE Float64 --------------------------------
(***************************************************************************)
(* IEEE-754 binary64 arithmetic for TLC.                                   *)
(*                                                                         *)
(* A double is represented by a TLA+ string holding a decimal literal that *)
(* round-trips (Rust `{:e}` / Java Double.toString), or "NaN", "Infinity", *)
(* "-Infinity".  Every operator below is a placeholder that is replaced at *)
(* run time by the Java module override Float64.java (same directory on    *)
(* the class path).  The definitions given here are never evaluated by TLC *)
(* when the override is loaded; the module ASSUMEs that it is.             *)
(***************************************************************************)
LOCAL INSTANCE Naturals
LOCAL INSTANCE Sequences

F64 == STRING   \* the carrier

\* arithmetic
FAdd(a, b) == CHOOSE x \in F64 : TRUE
FSub(a, b) == CHOOSE x \in F64 : TRUE
FMul(a, b) == CHOOSE x \in F64 : TRUE
FDiv(a, b) == CHOOSE x \in F64 : TRUE
FNeg(a)    == CHOOSE x \in F64 : TRUE
FAbs(a)    == CHOOSE x \in F64 : TRUE
FMin(a, b) == CHOOSE x \in F64 : TRUE
FMax(a, b) == CHOOSE x \in F64 : TRUE
FSqrt(a)   == CHOOSE x \in F64 : TRUE
FExp(a)    == CHOOSE x \in F64 : TRUE
FLn(a)     == CHOOSE x \in F64 : TRUE
FSinh(a)   == CHOOSE x \in F64 : TRUE
FCosh(a)   == CHOOSE x \in F64 : TRUE
FTanh(a)   == CHOOSE x \in F64 : TRUE
FAtan(a)   == CHOOSE x \in F64 : TRUE
FPow(a, b) == CHOOSE x \in F64 : TRUE       \* a^b, b a double
FPowInt(a, n) == CHOOSE x \in F64 : TRUE    \* a^n, n an integer
FOfInt(n)  == CHOOSE x \in F64 : TRUE       \* integer -> double
FOfRatio(n, d) == CHOOSE x \in F64 : TRUE   \* n/d as a double (n, d integers)

\* comparisons (all FALSE when an argument is NaN, like IEEE)
FLt(a, b)  == CHOOSE x \in BOOLEAN : TRUE
FLe(a, b)  == CHOOSE x \in BOOLEAN : TRUE
FEq(a, b)  == CHOOSE x \in BOOLEAN : TRUE   \* numeric equality (0.0 = -0.0)
FFinite(a) == CHOOSE x \in BOOLEAN : TRUE
FIsNaN(a)  == CHOOSE x \in BOOLEAN : TRUE

\* sequences of doubles
FSum(s)     == CHOOSE x \in F64 : TRUE      \* sum of a sequence (left to right)
FDot(s, t)  == CHOOSE x \in F64 : TRUE      \* sum_i s[i]*t[i]
FSumAbs(s)  == CHOOSE x \in F64 : TRUE      \* sum_i |s[i]|
FDotAbs(s, t) == CHOOSE x \in F64 : TRUE    \* sum_i |s[i]*t[i]|
FMaxAbs(s)  == CHOOSE x \in F64 : TRUE      \* max_i |s[i]| (0 for the empty sequence)
FAllFinite(s) == CHOOSE x \in BOOLEAN : TRUE

\* |a - b| <= rtol * scale + atol     (FALSE if anything is NaN or infinite)
FClose(a, b, rtol, scale, atol) == CHOOSE x \in BOOLEAN : TRUE
\* |a - b| / max(scale, tiny)  as a double, for reporting
FDefect(a, b, scale) == CHOOSE x \in F64 : TRUE
\* |a - b| / (rtol * |scale| + atol) as a double (> 1 means FClose fails; NaN/inf operands give Infinity)
FRatio(a, b, rtol, scale, atol) == CHOOSE x \in F64 : TRUE
\* TRUE iff the Java override is active
FLoaded == FEq("1", "1.0")

--------------------------------------------------------------------------------
\* derived operators, plain TLA+ on top of the primitives

\* relative closeness on the scale of the two operands themselves
ApproxEq(a, b, rtol, atol) == FClose(a, b, rtol, FMax(FAbs(a), FAbs(b)), atol)

\* 4th-order central difference of a quantity sampled at x-2h, x-h, x+h, x+2h
\* P is a sequence <<P(-2), P(-1), P(+1), P(+2)>>
Stencil4(P, h) ==
    FDiv(FAdd(FSub(FMul("8", FSub(P[3], P[2])), P[4]), P[1]), FMul("12", h))
\* second-order central difference from <<P(-1), P(+1)>>
Stencil2(P, h) == FDiv(FSub(P[2], P[1]), FMul("2", h))
\* magnitude of the data entering a stencil (for the scale of the comparison)
StencilScale(P, h) == FDiv(FMaxAbs(P), h)

FSeqMap1(Op(_), s) == [i \in 1..Len(s) |-> Op(s[i])]
FSeqMap2(Op(_,_), s, t) == [i \in 1..Len(s) |-> Op(s[i], t[i])]
================================================================================
