----------------------------- MODULE ApaVlePure -----------------------------
(* VlePure.tla for Apalache: max_iter is ANY natural number.
   apalache-mc check --init=IndInit --inv=IndInv --length=1 ApaVlePure.tla   (IndInv is inductive)
   apalache-mc check --init=Init0 --inv=IndInv --length=0 ApaVlePure.tla      (it holds initially)
   IndInv contains OkMeansConverged, NotConvergedIsHonest, CascadeOrder, ErrorOnlyFromLastStage and the bound. *)
EXTENDS Naturals
VARIABLES
  \* @type: Str;
  pc,
  \* @type: Str;
  spec,
  \* @type: Bool;
  given,
  \* @type: Str;
  stage,
  \* @type: Bool;
  conv,
  \* @type: Bool;
  trivial,
  \* @type: Int;
  i,
  \* @type: Int;
  maxit,
  \* @type: Str;
  result
VP == INSTANCE VlePure WITH MaxIterChoices <- Nat
Next == VP!Next
IndInv == VP!IndInv
IndInit == VP!IndInv
Init0 == /\ pc = "start" /\ spec \in {"T", "p"} /\ given \in BOOLEAN /\ stage = "none" /\ conv = FALSE /\ trivial = FALSE /\ i = 0
         /\ maxit \in Nat /\ result = "none"
================================================================================
