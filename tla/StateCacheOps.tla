------------------------------ MODULE StateCacheOps ------------------------------
(***************************************************************************)
(* The lazily filled derivative cache of a thermodynamic State             *)
(* (feos-core/src/state/cache.rs, residual_properties.rs, State::clone).   *)
(*                                                                         *)
(* A State is immutable except for one Mutex<HashMap<key, f64>>.  A        *)
(* request for a partial derivative of the residual Helmholtz energy locks *)
(* the map, looks the key up and on a miss performs ONE evaluation with a  *)
(* (hyper-)dual number whose components are all stored as by-products.     *)
(*                                                                         *)
(* Abstraction: a stored number is represented by the multiset (sorted     *)
(* tuple) of directions it is the derivative of.  Property C11 says that   *)
(* what a request returns depends on the request only -- not on the        *)
(* history of earlier requests, clones, or the thread schedule.            *)
(***************************************************************************)
EXTENDS Naturals, Sequences, FiniteSets, TLC

CONSTANTS NComp,      \* number of components of the model
          Variant     \* "ok" | a named defect used by the self test

NName == <<"N1", "N2", "N3", "N4">>
Dirs == {"V", "T"} \cup {NName[i] : i \in 1..NComp}
\* the derived Ord of enum Derivative: DV < DT < DN(0) < DN(1) < ...
Rank(d) == IF d = "V" THEN 0 ELSE IF d = "T" THEN 1 ELSE 1 + (CHOOSE i \in 1..NComp : NName[i] = d)
DMin(a, b) == IF Rank(a) <= Rank(b) THEN a ELSE b
DMax(a, b) == IF Rank(a) <= Rank(b) THEN b ELSE a

\* requests (enum PartialDerivative) and stored keys
Reqs == {<<"Z">>} \cup {<<"F", d>> : d \in Dirs} \cup {<<"S", d>> : d \in Dirs}
        \cup {<<"M", a, b>> : a \in Dirs, b \in Dirs} \cup {<<"T3", d>> : d \in Dirs}
Keys == {<<"Z">>} \cup {<<"F", d>> : d \in Dirs}
        \cup {<<"M", a, b>> : a \in Dirs, b \in Dirs} \cup {<<"T3", d>> : d \in Dirs}

\* sorted tuple of directions = the derivative a number is
Sort2(a, b) == <<DMin(a, b), DMax(a, b)>>
Sym(k) == CASE k[1] = "Z"  -> <<>>
            [] k[1] = "F"  -> <<k[2]>>
            [] k[1] = "S"  -> <<k[2], k[2]>>
            [] k[1] = "M"  -> Sort2(k[2], k[3])
            [] k[1] = "T3" -> <<k[2], k[2], k[2]>>

\* key under which a request is looked up
LookupKey(r) == CASE r[1] = "S" -> <<"M", r[2], r[2]>>
                  [] r[1] = "M" -> <<"M", DMin(r[2], r[3]), DMax(r[2], r[3])>>
                  [] OTHER      -> r

\* One evaluation with the dual number type of the request's arm: the set of
\* <<key, stored symbol>> pairs inserted on a miss (transcription of cache.rs).
Inserted(r) ==
  CASE r[1] = "Z"  -> {<< <<"Z">>, <<>> >>}
    [] r[1] = "F"  -> {<< <<"Z">>, <<>> >>, << <<"F", r[2]>>, <<r[2]>> >>}
    [] r[1] = "S"  -> {<< <<"Z">>, <<>> >>, << <<"F", r[2]>>, <<r[2]>> >>,
                       << <<"M", r[2], r[2]>>, <<r[2], r[2]>> >>}
    [] r[1] = "M"  ->
         LET e1 == IF Variant = "swap_eps" THEN <<r[3]>> ELSE <<r[2]>>   \* eps1
             e2 == IF Variant = "swap_eps" THEN <<r[2]>> ELSE <<r[3]>>   \* eps2
         IN {<< <<"Z">>, <<>> >>, << <<"F", r[2]>>, e1 >>, << <<"F", r[3]>>, e2 >>,
             << LookupKey(r), Sort2(r[2], r[3]) >>}
    [] r[1] = "T3" -> {<< <<"Z">>, <<>> >>, << <<"F", r[2]>>, <<r[2]>> >>,
                       << <<"M", r[2], r[2]>>,
                          IF Variant = "third_v1" THEN <<r[2]>> ELSE <<r[2], r[2]>> >>,
                       << <<"T3", r[2]>>, <<r[2], r[2], r[2]>> >>}

\* the pure step function on one cache (a function from a subset of Keys to symbols)
Hit(c, r) == LookupKey(r) \in DOMAIN c
Fill(c, r) == LET ins == Inserted(r)
                  ks  == {p[1] : p \in ins}
              IN [k \in DOMAIN c \cup ks |->
                    IF k \in ks THEN (CHOOSE p \in ins : p[1] = k)[2] ELSE c[k]]
Step(c, r) == IF Hit(c, r) THEN [cache |-> c, ret |-> c[LookupKey(r)], hit |-> TRUE, ins |-> {}]
              ELSE LET c2 == Fill(c, r)
                   IN [cache |-> c2, ret |-> c2[LookupKey(r)], hit |-> FALSE,
                       ins |-> {p[1] : p \in Inserted(r)}]

Empty == [k \in {} |-> <<>>]
Idle == [busy |-> FALSE, obj |-> 1, req |-> <<"Z">>]

================================================================================
