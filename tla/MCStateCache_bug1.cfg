SPECIFICATION Spec
CONSTANTS
  NComp = 2
  Objs = {1, 2}
  Threads = {1, 2}
  MaxOps = 3
  Granularity = "get"
  Variant = "swap_eps"
INVARIANTS TypeOK CacheSound ReturnSound
PROPERTY Stable
CHECK_DEADLOCK FALSE
