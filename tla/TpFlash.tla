------------------------------- MODULE TpFlash -------------------------------
(* Control flow of the Tp flash (feos-core/src/phase_equilibria/tp_flash.rs: State::tp_flash, tp_flash_, successive_substitution,
   accelerated_successive_substitution, vle_init_stability), one action per step of the code.  The thermodynamics is abstracted
   to what the control flow looks at:

     conv        the current iterate passes the convergence test  res < tol  (chosen by the environment whenever the iterate changes)
     consistent  the phase amounts of the iterate were produced by update_states with THIS feed (Rachford-Rice + update_moles), so they add up to it

   Variant "pinned"  the function before /repo dc057d21: a user-supplied initial state goes straight into the iteration;
   Variant "code"    the function as repaired: the feed is distributed over the phases of the initial state first (one update_states); if that
                     fails the stability-based initialisation is used, as for any other failure of the first attempt.

   Environment assumption (stated, not proved): an initial state built from stability-analysis candidates is never converged at the very first
   test (its phases are minima of the tangent-plane distance, not phases in equilibrium with each other).  A user-supplied initial state can be:
   the flash of another feed at the same (T, p) is.

   Bound to the code by hook H8 (TraceEquilibrium!TF* actions replay every recorded flash as a behaviour of this module). *)
EXTENDS Naturals, TLC
CONSTANTS CycleChoices,     \* possible values of the option max_iter (accelerated cycles before NotConverged; default 400)
          Variant
VARIABLES pc,               \* where the code is
          attempt,          \* "none" | "given" | "stab1" | "stab2"
          given,            \* an initial state was supplied
          avail2,           \* the stability analysis returned two candidates (a second initialisation exists)
          conv, consistent, \* see above
          changed,          \* the iterate changed since the last convergence test
          ss,               \* successive-substitution steps left in the current block
          cycles,           \* accelerated cycles done in this attempt
          iter,             \* the code's iteration counter of this attempt
          maxc,             \* max_iter of this attempt (options are unpacked at the start of every attempt)
          result            \* "none" | "Ok" | "NoPhaseSplit" | "NotConverged" | "Error"
vars == <<pc, attempt, given, avail2, conv, consistent, changed, ss, cycles, iter, maxc, result>>
MaxCycles == maxc
MaxOfChoices == CHOOSE m \in CycleChoices : \A k \in CycleChoices : k <= m

Init == /\ pc = "start" /\ attempt = "none" /\ given \in BOOLEAN /\ avail2 = FALSE
        /\ conv = FALSE /\ consistent = FALSE /\ changed = TRUE /\ ss = 0 /\ cycles = 0 /\ iter = 0 /\ maxc = MaxOfChoices /\ result = "none"

Finish(r) == /\ pc' = "done" /\ result' = r
\* a failed attempt: the next initialisation, or the error of this one
FailAttempt(r) ==
  IF attempt = "given" THEN /\ pc' = "stability" /\ UNCHANGED result
  ELSE IF attempt = "stab1" /\ avail2 THEN /\ pc' = "begin" /\ attempt' = "stab2" /\ UNCHANGED result
  ELSE Finish(r)
KeepAttemptUnlessRetry == IF attempt = "stab1" /\ avail2 THEN TRUE ELSE UNCHANGED attempt

Start ==
  /\ pc = "start"
  /\ IF given THEN pc' = "update_pressure" /\ attempt' = "given" ELSE pc' = "stability" /\ UNCHANGED attempt
  /\ UNCHANGED <<given, avail2, conv, consistent, changed, ss, cycles, iter, result>>

\* init.clone().update_pressure(T, p)?  - an error here is propagated, not retried
UpdatePressure ==
  /\ pc = "update_pressure"
  /\ \/ /\ pc' = (IF Variant = "code" THEN "redistribute" ELSE "begin")
        /\ conv' \in BOOLEAN            \* the supplied state may or may not satisfy the equilibrium conditions
        /\ consistent' = FALSE          \* its amounts belong to whatever it was calculated for
        /\ changed' = TRUE /\ UNCHANGED result
     \/ /\ Finish("Error") /\ UNCHANGED <<conv, consistent, changed>>
  /\ UNCHANGED <<attempt, given, avail2, ss, cycles, iter>>

\* Variant "code": one update_states with the K values of the initial state
Redistribute ==
  /\ pc = "redistribute"
  /\ \/ /\ pc' = "begin" /\ consistent' = TRUE /\ conv' \in BOOLEAN /\ changed' = TRUE /\ UNCHANGED <<attempt, result>>
     \/ /\ pc' = "stability" /\ UNCHANGED <<attempt, result, conv, consistent, changed>>
  /\ UNCHANGED <<given, avail2, ss, cycles, iter>>

\* vle_init_stability: error, no candidate, one candidate (candidate + feed), two candidates (pair first, candidate + feed second)
Stability ==
  /\ pc = "stability"
  /\ \/ Finish("Error") /\ UNCHANGED <<attempt, avail2, conv, consistent, changed>>
     \/ Finish("NoPhaseSplit") /\ UNCHANGED <<attempt, avail2, conv, consistent, changed>>
     \/ /\ pc' = "begin" /\ attempt' = "stab1" /\ avail2' \in BOOLEAN
        /\ conv' = FALSE /\ consistent' = FALSE /\ changed' = TRUE /\ UNCHANGED result
  /\ UNCHANGED <<given, ss, cycles, iter>>

\* tp_flash_: three steps of successive substitution whose outcome is ignored; with non-volatile components the plain steps and the tangent-plane
\* repair are skipped and the accelerated iteration starts at once
Begin ==
  /\ pc = "begin"
  /\ \/ pc' = "ss3" /\ ss' = 3
     \/ pc' = "to_accel" /\ ss' = 0
  /\ cycles' = 0 /\ iter' = 0 /\ maxc' \in CycleChoices
  /\ (IF attempt = "stab2" THEN conv' = FALSE /\ consistent' = FALSE /\ changed' = TRUE ELSE UNCHANGED <<conv, consistent, changed>>)
  /\ UNCHANGED <<attempt, given, avail2, result>>

\* one pass of the loop body of successive_substitution: test first, update afterwards
SSStep(block, onConverged, onExhausted) ==
  /\ pc = block /\ ss > 0
  /\ iter' = iter + 1
  /\ IF conv
     THEN /\ pc' = onConverged /\ ss' = 0 /\ changed' = FALSE /\ UNCHANGED <<conv, consistent, attempt, result>>
     ELSE \/ /\ conv' \in BOOLEAN /\ consistent' = TRUE /\ changed' = TRUE /\ ss' = ss - 1      \* update_states succeeded
             /\ pc' = (IF ss = 1 THEN onExhausted ELSE block) /\ UNCHANGED <<attempt, result>>
          \/ /\ FailAttempt("Error") /\ KeepAttemptUnlessRetry /\ ss' = 0 /\ UNCHANGED <<conv, consistent, changed>>   \* rachford_rice / update_moles failed
  /\ UNCHANGED <<given, avail2, cycles>>

SS3 == SSStep("ss3", "tpd", "tpd")
\* the two repairs after the tangent-plane test, each taken or not: update_states with K values from the feed, then one more step
Repair(at, taken, skipped) ==
  /\ pc = at
  /\ \/ pc' = skipped /\ ss' = 0 /\ UNCHANGED <<conv, consistent, changed, attempt, result>>
     \/ /\ pc' = taken /\ ss' = 1 /\ conv' \in BOOLEAN /\ consistent' = TRUE /\ changed' = TRUE /\ UNCHANGED <<attempt, result>>
     \/ /\ FailAttempt("Error") /\ KeepAttemptUnlessRetry /\ ss' = 0 /\ UNCHANGED <<conv, consistent, changed>>
  /\ UNCHANGED <<given, avail2, cycles, iter>>
Tpd == Repair("tpd", "fix", "tpd2")
Fix == SSStep("fix", "tpd2", "tpd2")
Tpd2 == Repair("tpd2", "fix2", "to_accel")
Fix2 == SSStep("fix2", "to_accel", "to_accel")
ToAccel == /\ pc = "to_accel" /\ pc' = "accel" /\ ss' = 5
           /\ UNCHANGED <<attempt, given, avail2, conv, consistent, changed, cycles, iter, result>>

\* accelerated_successive_substitution: five steps; converged -> Ok; else extrapolate (accepted only if it lowers the Gibbs energy), next cycle
Accel == SSStep("accel", "ok", "extrapolate")
AttemptOk == /\ pc = "ok" /\ Finish("Ok")
             /\ UNCHANGED <<attempt, given, avail2, conv, consistent, changed, ss, cycles, iter>>
Extrapolate ==
  /\ pc = "extrapolate"
  /\ cycles' = cycles + 1
  /\ \/ /\ (IF cycles + 1 >= MaxCycles THEN FailAttempt("NotConverged") /\ KeepAttemptUnlessRetry ELSE pc' = "accel" /\ UNCHANGED <<attempt, result>>)
        /\ ss' = 5
        /\ \/ UNCHANGED <<conv, consistent, changed>>                                   \* K not finite, or trial rejected
           \/ conv' \in BOOLEAN /\ consistent' = TRUE /\ changed' = TRUE               \* trial accepted (built by update_states)
     \/ /\ FailAttempt("Error") /\ KeepAttemptUnlessRetry /\ ss' = 0 /\ UNCHANGED <<conv, consistent, changed>>   \* update_states of the trial failed
  /\ UNCHANGED <<given, avail2, iter>>

Done == pc = "done" /\ UNCHANGED vars
Next == \/ Begin
        \/ ((Start \/ UpdatePressure \/ Redistribute \/ Stability \/ SS3 \/ Tpd \/ Fix \/ Tpd2 \/ Fix2 \/ ToAccel \/ Accel \/ AttemptOk \/ Extrapolate) /\ UNCHANGED maxc)
        \/ Done
Spec == Init /\ [][Next]_vars /\ WF_vars(Next)

\* ---- properties
TypeOK == /\ pc \in {"start", "update_pressure", "redistribute", "stability", "begin", "ss3", "tpd", "fix", "tpd2", "fix2", "to_accel", "accel", "ok", "extrapolate", "done"}
          /\ attempt \in {"none", "given", "stab1", "stab2"} /\ result \in {"none", "Ok", "NoPhaseSplit", "NotConverged", "Error"}
          /\ ss \in 0..5 /\ cycles \in 0..MaxOfChoices /\ iter \in 0..(5 + 5 * MaxOfChoices) /\ maxc \in CycleChoices
\* C05: a returned flash conserves the feed
OkConservesFeed == result = "Ok" => consistent
\* Ok is the outcome of a passed convergence test on the returned iterate
OkMeansConverged == result = "Ok" => conv /\ ~changed
\* C07: a no-phase-split error comes from the stability analysis only
NoPhaseSplitOnlyFromStability == result = "NoPhaseSplit" => attempt \in {"none", "given"}
\* the second stability-based initialisation is used only after the first failed, whatever the failure was
SecondOnlyAfterFirst == attempt = "stab2" => avail2
IterBounded == iter <= 5 + 5 * maxc
Terminates == <>(pc = "done")
================================================================================
