----------------------------- MODULE ParameterDB -----------------------------
(***************************************************************************)
(* Construction of model parameters from record files (property C14):      *)
(* feos-core/src/parameter/{mod,model_record,identifier}.rs.               *)
(*                                                                         *)
(* DECLARATIVE meaning (what the documentation promises):                  *)
(*   - a pure-record file is a sequence of records of distinct substances; *)
(*     a record carries an identifier of each of six kinds, or lacks some  *)
(*   - a query is a sequence of identifiers of ONE kind; the result is the *)
(*     records IN QUERY ORDER, an error if a substance is requested twice  *)
(*     or is not in the file under that kind                               *)
(*   - queries over several files are concatenated in the order given     *)
(*   - the binary matrix entry (i,j) is the record stored for the unordered*)
(*     pair {q_i,q_j} whichever way round it is stored, else the default   *)
(* IMPLEMENTATION-shaped algorithm (the code): a set of queried names is   *)
(* drained while the file is streamed, with an early exit; a hash map      *)
(* collects the hits; binary records are looked up as (id1,id2) and then   *)
(* (id2,id1).  TLC checks that the algorithm refines the declarative       *)
(* meaning for every file order, query and orientation pattern.            *)
(***************************************************************************)
EXTENDS ParameterDBOps

CONSTANTS Subst,     \* substances, e.g. 1..4
          MaxQuery   \* longest query

\* ---------------------------------------------------------------- the algorithm, one step per file record
VARIABLES q, file, visible,   \* inputs (chosen in Init)
          queried,            \* HashSet of names still wanted
          hits,               \* HashMap name -> record
          pos,                \* next file record
          result              \* <<>> while running
vars == <<q, file, visible, queried, hits, pos, result>>

Perms(S) == {f \in [1..Cardinality(S) -> S] : \A i, j \in 1..Cardinality(S) : i # j => f[i] # f[j]}
Files == UNION {Perms(S) : S \in SUBSET Subst}
Queries == UNION {[1..k -> Subst] : k \in 1..MaxQuery}

Init == /\ q \in Queries /\ file \in Files /\ visible \in SUBSET Subst
        /\ queried = Range(q) /\ hits = {} /\ pos = 1 /\ result = <<>>

DupCheck == /\ result = <<>> /\ pos = 1 /\ Cardinality(queried) # Len(q)
            /\ result' = <<[ok |-> FALSE, err |-> "Duplicate"]>>
            /\ UNCHANGED <<q, file, visible, queried, hits, pos>>
Read == /\ result = <<>> /\ Cardinality(Range(q)) = Len(q)
        /\ pos <= Len(file) /\ queried # {}          \* early break when everything was found
        /\ LET s == file[pos] IN
             IF s \in visible /\ s \in queried
             THEN queried' = queried \ {s} /\ hits' = hits \cup {s}
             ELSE UNCHANGED <<queried, hits>>
        /\ pos' = pos + 1
        /\ UNCHANGED <<q, file, visible, result>>
Finish == /\ result = <<>> /\ Cardinality(Range(q)) = Len(q)
          /\ (pos > Len(file) \/ queried = {})
          /\ result' = IF queried # {} THEN <<[ok |-> FALSE, err |-> "Missing"]>>
                       ELSE <<[ok |-> TRUE, order |-> q]>>   \* substances.iter().map(|s| records[s])
          /\ UNCHANGED <<q, file, visible, queried, hits, pos>>
Next == DupCheck \/ Read \/ Finish
Spec == Init /\ [][Next]_vars

Refines == result # <<>> => result[1] = Lookup(q, file, visible)
HitsAreWanted == hits \subseteq Range(q) /\ (result # <<>> /\ result[1].ok => hits = Range(q))
================================================================================
