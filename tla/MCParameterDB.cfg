SPECIFICATION Spec
CONSTANTS
  Subst = {1, 2, 3, 4}
  MaxQuery = 3
INVARIANTS Refines HitsAreWanted
CHECK_DEADLOCK FALSE
