-------------------------- MODULE TraceRachfordRice --------------------------
(* Conformance of the real rachford_rice (hook H7) with RachfordRice.tla.  One event per replayed plan case: the input, the outcome the
   specification predicted (written by GenRachfordRice) and what the code returned.  Checked per event:
     - the prediction in the plan is what Run computes now (the plan was not tampered with / the spec did not drift);
     - same status; beta equal to 1e-12 (same arithmetic, summation order may differ);
     - on Ok: beta inside the bounds; when the specification's run converged, beta is a root of g to the step criterion.
   A random event (kind "random") carries no prediction: the specification is evaluated on the fly. *)
EXTENDS TraceIO, RachfordRiceOps

VARIABLES l, cnt
tvars == <<l, cnt>>
E == Rec[l]
Ev(name) == l <= NRec /\ E.ev = name /\ l' = l + 1

RR ==
  /\ Ev("RachfordRice")
  /\ LET r == Run(E.z, E.k, E.betaIn)
         info == <<E.z, E.k, E.betaIn>>
         okc == E.code.status = "Ok"
     IN
     /\ (Has(E, "predicted") => Report("C05.rr_plan_is_current", <<info, E.predicted, r, l>>,
                                       E.predicted.status = r[1] /\ (r[1] = "Ok" => E.predicted.beta = r[2] /\ E.predicted.iterations = r[3])))
     /\ Report("C05.rr_status_as_specified", <<info, E.code.status, r[1], l>>, E.code.status = r[1])
     /\ ((okc /\ r[1] = "Ok") =>
           /\ Chk("C05.rr_beta_as_specified", <<info, E.code.beta, r[2], l>>, E.code.beta, r[2], "1e-12", "1", "0")
           /\ Report("C05.rr_beta_inside_bounds", <<info, E.code.beta, l>>, InsideBounds(E.z, E.k, E.code.beta))
           /\ (r[4] => Report("C05.rr_beta_is_root", <<info, E.code.beta, l>>, IsRoot(E.z, E.k, E.code.beta, "10"))))
     /\ cnt' = BumpAll(cnt, {"rr_cases", "rr_status:" \o E.code.status} \cup (IF r[1] = "Ok" /\ ~r[4] THEN {"rr_ok_without_convergence"} ELSE {})
                  \cup (IF r[1] = "Ok" /\ r[4] THEN {"rr_converged"} ELSE {}) \cup (IF Has(E, "predicted") THEN {"rr_from_plan"} ELSE {"rr_random"})
                  \cup (IF okc /\ r[1] = "Ok" /\ r[5 - 1] /\ E.betaIn # "none" THEN {"rr_with_initial_beta"} ELSE {}))

Init == l = 1 /\ cnt = NoCount
Next == /\ RR
        /\ (l' > NRec => PrintT("STATS " \o ToJson(cnt')))
TraceSpec == Init /\ [][Next]_tvars
================================================================================
