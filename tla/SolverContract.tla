---------------------------- MODULE SolverContract ----------------------------
(***************************************************************************)
(* The common shape of the equilibrium solvers (vle_pure.rs pure_t,        *)
(* tp_flash.rs, bubble_dew.rs, critical_point.rs): a CASCADE of            *)
(* initialisers (user guess -> estimate 1 -> estimate 2 ...), each         *)
(* followed by an ITERATION that may converge, fail, or collapse to a      *)
(* trivial solution; the first converged iteration is returned, otherwise  *)
(* the error of the last stage.  Properties: Ok only from a converged,     *)
(* non-trivial iteration; a later initialiser runs only after all earlier  *)
(* ones failed; the returned result does not depend on whether a guess was *)
(* supplied whenever the solution is unique (C12's assumption).            *)
(***************************************************************************)
EXTENDS Naturals, Sequences, TLC
CONSTANTS NStages,     \* number of initialisers incl. the optional user guess (stage 1)
          CheckTrivial \* TRUE: a converged but collapsed pair is an error (the code after the fix); FALSE: returned as Ok
VARIABLES stage,    \* current stage, NStages+1 when exhausted
          hasGuess, \* was a user guess supplied
          phase,    \* "init" | "iterate" | "done"
          outcome,  \* outcome of the current iteration: "none" | "converged" | "trivial" | "failed"
          result    \* "none" | "Ok" | "Err"
vars == <<stage, hasGuess, phase, outcome, result>>

Init == /\ hasGuess \in BOOLEAN
        /\ stage = IF hasGuess THEN 1 ELSE 2
        /\ phase = "init" /\ outcome = "none" /\ result = "none"
InitOk == phase = "init" /\ stage <= NStages /\ phase' = "iterate" /\ UNCHANGED <<stage, hasGuess, outcome, result>>
InitFails == /\ phase = "init" /\ stage <= NStages
             /\ stage' = stage + 1 /\ UNCHANGED <<hasGuess, phase, outcome, result>>
Iterate == /\ phase = "iterate"
           /\ \E o \in {"converged", "trivial", "failed"} :
                /\ outcome' = o
                /\ IF o = "converged" \/ (o = "trivial" /\ ~CheckTrivial)
                   THEN phase' = "done" /\ result' = "Ok" /\ UNCHANGED stage
                   ELSE phase' = "init" /\ stage' = stage + 1 /\ UNCHANGED result
           /\ UNCHANGED hasGuess
Exhausted == /\ phase = "init" /\ stage > NStages /\ phase' = "done" /\ result' = "Err"
             /\ UNCHANGED <<stage, hasGuess, outcome>>
Next == InitOk \/ InitFails \/ Iterate \/ Exhausted
Spec == Init /\ [][Next]_vars

OkOnlyFromConvergedNonTrivial == result = "Ok" => outcome = "converged"
LaterStageOnlyAfterFailure == [][stage' > stage => (phase = "init" \/ outcome' \in {"trivial", "failed"})]_vars
Terminates == <>(phase = "done")
================================================================================
