#!/usr/bin/env python3
"""Prints the markdown table 'seeded change -> checks that catch it' from seeded/*/meta.json and result_*.json."""
import json, glob, os
print("| id | property | change (needs what to manifest) | checks run -> exit / VIOLATION lines |")
print("|---|---|---|---|")
for d in sorted(glob.glob('/verif/seeded/*')):
    if not os.path.exists(d + '/meta.json'): continue
    m = json.load(open(d + '/meta.json'))
    res = []
    for f in sorted(glob.glob(d + '/result_*.json')):
        for r in json.load(open(f)):
            res.append("%s %s: exit %s, %s" % (r['check'], r['tier'], r['exit'], r['violation_lines']))
    s = (m.get('summary') or '')
    s = s.split('. ')[0][:230]
    t = (m.get('what_triggers_it') or m.get('needs') or '')[:160]
    print("| %s | %s | %s — *%s* | %s |" % (os.path.basename(d), m.get('property'), s.replace('|', '/'), t.replace('|', '/'), "; ".join(res)))
