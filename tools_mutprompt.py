#!/usr/bin/env python3
"""Prints the prompt given to a fresh sub-agent that seeds a property-breaking change (only the property text and a scratch worktree)."""
import json, sys
pid = sys.argv[1]; tag = sys.argv[2] if len(sys.argv) > 2 else pid
hint = sys.argv[3] if len(sys.argv) > 3 else ""
p = [json.loads(l) for l in open('/verif/properties.jsonl') if json.loads(l)['id'] == pid][0]
import os
wt = "/tmp/mut/%s" % os.environ.get("WT", tag)
print(f"""You are helping to measure how sensitive a verification suite is. You work ONLY inside the scratch git worktree {wt}
(a checkout of feos: a Rust library of thermodynamic equations of state and classical DFT, with Cargo workspace members feos-core, feos-dft, feos-derive and the top-level crate `feos`).
Do NOT read, list or touch /verif or /repo (you may only use {wt} and /tmp/mut/out/{tag}). There is no network; cargo must run with --offline.

Below is a semantic property the library is supposed to satisfy. Your task: make ONE realistic source change in the library (the kind of slip a maintainer makes in a refactor or an
"optimisation": wrong index, swapped arguments, dropped or doubled term, wrong sign in a rarely used branch, stale cache key, off-by-one, missing re-normalisation, wrong unit factor ...)
that BREAKS this property, while
 (a) the workspace still compiles, and
 (b) the existing test suite still passes unchanged:  cd {wt} && CARGO_BUILD_JOBS=6 cargo test --workspace --no-fail-fast --offline   (about 5-8 minutes; every test must pass), and
 (c) the change needs something specific to manifest (a particular model, input region, configuration or call history) - it must not break everything, and it must not be a trivially
     detectable crash; prefer subtle, plausible changes.
Do not edit tests, benches, examples, docs, parameter files, anything under cfg(feos_verif) or feos-core/src/verif.rs. Keep the diff small (a few lines). {hint}

Property {p['id']}: {p['title']}
Statement: {p['statement']}
Quantifier: {p['quantifier']['text']}
Why the existing tests cannot settle it: {p['why_tests_cant']}
Anchors (files): {', '.join(p['anchors']['files'])}
Mechanisms: {json.dumps(p['anchors'].get('mechanism', []))}
Observe at: {json.dumps(p['anchors'].get('observe_at', []))}

Deliver in /tmp/mut/out/{tag}/ :
  patch.diff  - `git -C {wt} diff -- . ':!tests' ':!examples'` of your library change only (must apply with `git apply` on a clean checkout of the same commit)
  demo.rs     - a small Rust program or #[test] (you may put it temporarily under {wt}/tests/ or {wt}/examples/; it is not part of patch.diff) that you have ACTUALLY RUN in the worktree,
                showing the property violated with your change and satisfied without it (NEVER use `git stash` - it is shared with other worktrees; to compare use `git diff > /tmp/mut/out/{tag}/my.diff; git checkout -- .; <run>; git apply /tmp/mut/out/{tag}/my.diff`), plus
  demo.txt    - the command line and the two outputs (with / without the change)
  meta.json   - {{"property": "{p['id']}", "summary": "...", "files": [...], "what_triggers_it": "...", "why_tests_still_pass": "...", "tests_run": "<the test result lines you observed>"}}
The crate `feos` needs features for most models, e.g. `cargo test --offline --features all_models --test <name>` or `cargo run --offline --features all_models --example <name>`.
When you are done leave the worktree with the change applied (uncommitted) and reply with a 5-line summary. If the full test suite fails with your change, pick another change.""")
