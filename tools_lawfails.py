#!/usr/bin/env python3
# debugging aid: summarise LAWFAIL lines of a TLC log
import sys,json,collections
c=collections.Counter(); ex={}
for line in open(sys.argv[1]):
    if 'LAWFAIL' not in line: continue
    try: s=json.loads(line)
    except Exception: s=line.strip().strip('"').replace('\\"','"')
    parts=s.split(' ',2)
    law=parts[1]
    try: info=json.loads(parts[2])
    except Exception: info=[parts[2]]
    key=(law, str(info[0]).split('#')[0], str(info[1])[:40] if len(info)>1 else '')
    c[key]+=1; ex.setdefault(key,info)
for k,v in sorted(c.items()): print(v,k, str(ex[k])[:230])
