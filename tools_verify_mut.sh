#!/bin/bash
# usage: tools_verify_mut.sh <tag> <demo-test-name> <features>
# Confirms a seeded change in its scratch worktree /tmp/mut/<tag>: patch applies on a clean checkout, the workspace test-suite passes with it,
# the demonstration fails with it and passes without it. Writes /tmp/mut/out/<tag>/verify.txt
tag=$1; demo=$2; feat=${3:-all_models}; ddir=${4:-tests}; pkg=${5:-}
if [ "$feat" = "-" ]; then fflag=""; else fflag="--features \"$feat\""; fi
wt=/tmp/mut/${WT:-$tag}; out=/tmp/mut/out/$tag
cd $wt || exit 2
git checkout -- . ; rm -f $ddir/${demo}.rs
git apply --check $out/patch.diff || { echo "PATCH DOES NOT APPLY" | tee $out/verify.txt; exit 1; }
git apply $out/patch.diff
{
echo "== suite with change"
CARGO_BUILD_JOBS=6 cargo test --workspace --no-fail-fast --offline 2>&1 | grep -E "^test result|FAILED|failed|error(\[|:)" 
echo "suite_exit=${PIPESTATUS[0]}"
cp $out/demo.rs $ddir/${demo}.rs
echo "== demo with change"
eval CARGO_BUILD_JOBS=6 cargo test --offline $pkg $fflag --test $demo 2>&1 | grep -E "^test |^test result|error(\[|:)"
git checkout -- .
echo "== demo without change"
eval CARGO_BUILD_JOBS=6 cargo test --offline $pkg $fflag --test $demo 2>&1 | grep -E "^test |^test result|error(\[|:)"
rm -f $ddir/${demo}.rs
} > $out/verify.txt 2>&1
cat $out/verify.txt
