#!/usr/bin/env python3
"""Build known_findings_grid.json from the LAWFAIL lines of a THOROUGH run on the pinned tree (run by hand, reviewed,
committed; never run by a check). Only success-clause failures on the fixed grids are listed this way: each entry
names one grid point (record or pair + grid coordinates), so any other failing grid point is still a violation."""
import json, sys
log = sys.argv[1]
out = {"comment": "success-clause failures of the pinned tree on the fixed grids of C04/C05/C06 (generated from a thorough run by tools_gen_known.py and reviewed)",
       "findings": []}
seen = set()
for line in open(log):
    if 'LAWFAIL' not in line: continue
    try: s = json.loads(line)
    except Exception: continue
    _, law, info = s.split(' ', 2)
    inf = json.loads(info)
    if law == "C05.found":
        case, kind, grid, res = inf[0], inf[1], inf[2], inf[3]
        key = (law, case, kind, grid)
        if key in seen: continue
        seen.add(key)
        out["findings"].append({"id": "C05-found:%s:%s:%s" % (case, kind, grid), "property": "C05", "law": law, "status": "open",
            "match": ['"%s","%s","%s"' % (case, kind, grid)],
            "what": "%s of %s at grid point %s is not found (%s) although the point lies in the domain of the success clause" % (kind, case, grid, res.get("err"))})
    elif law == "C04.found":
        case, tr, res = inf[0], inf[1], inf[2]
        key = (law, case, tr)
        if key in seen: continue
        seen.add(key)
        out["findings"].append({"id": "C04-found:%s:%s" % (case, tr), "property": "C04", "law": law, "status": "open",
            "match": ['"%s","%s"' % (case, tr)],
            "what": "pure VLE of %s at T/Tc = %s is not found (%s)" % (case, tr, res.get("err"))})
    elif law == "C04.found_at_pressure":
        case, tr, res = inf[0], inf[1], inf[2]
        key = (law, case, tr)
        if key in seen: continue
        seen.add(key)
        out["findings"].append({"id": "C04-found-at-p:%s:%s" % (case, tr), "property": "C04", "law": law, "status": "open",
            "match": ['"%s","%s"' % (case, tr)],
            "what": "pure VLE of %s at the saturation pressure of T/Tc = %s (pressure specified, no initial state) is not found (%s) although the temperature-specified solve succeeds" % (case, tr, res.get("err"))})
    elif law == "C06.found":
        case, kind = inf[0], inf[1]
        key = (law, case, kind)
        if key in seen: continue
        seen.add(key)
        out["findings"].append({"id": "C06-found:%s:%s" % (case, kind), "property": "C06", "law": law, "status": "open",
            "match": ['"%s","%s"' % (case, kind)],
            "what": "%s critical point of %s (x1 = 0.4) is not found" % (kind, case)})
json.dump(out, open("known_findings_grid.json", "w"), indent=0)
print(len(out["findings"]), "entries")
