#!/bin/bash
# usage: tools_file_mut.sh <out-tag> <seeded-id>   copies a confirmed seeded change from /tmp/mut/out/<tag> into /verif/seeded/<id>
t=$1; d=/verif/seeded/$2; mkdir -p $d; cp /tmp/mut/out/$t/patch.diff /tmp/mut/out/$t/demo.rs /tmp/mut/out/$t/demo.txt $d/
python3 - <<PY
import json
m=json.load(open('/tmp/mut/out/$t/meta.json'))
m['confirmed']={'by':'tools_verify_mut.sh in the scratch worktree (patch applies on a clean checkout; workspace test-suite exit 0 with the change; demo fails with / passes without the change)','output':open('/tmp/mut/out/$t/verify.txt').read()[-1500:]}
json.dump(m,open('$d/meta.json','w'),indent=1)
PY
