#!/usr/bin/env python3
# calibration aid: per law (and model family) the largest defect/tolerance ratios found in a Calibrate=TRUE run
import sys, json, collections
worst = {}
for line in open(sys.argv[1]):
    if 'MARGIN' not in line: continue
    try: s = json.loads(line)
    except Exception: s = line.strip().strip('"').replace('\\"', '"')
    _, law, ratio, info = s.split(' ', 3)
    r = float(ratio)
    try: inf = json.loads(info)
    except Exception: inf = [info]
    fam = str(inf[0]).split('#')[0]
    if len(sys.argv) > 2 and sys.argv[2] not in fam and sys.argv[2] not in law: continue
    key = (law, fam)
    if key not in worst or r > worst[key][0]:
        worst[key] = (r, inf)
for k, v in sorted(worst.items(), key=lambda kv: -kv[1][0])[:int(sys.argv[3]) if len(sys.argv) > 3 else 60]:
    print("%.3g" % v[0], k, str(v[1])[:150])
