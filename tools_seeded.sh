#!/bin/bash
# usage: tools_seeded.sh <seeded-id> <tier> <property>...   applies /verif/seeded/<id>/patch.diff to /repo, runs the checks, reverts.
set -u
id=$1; tier=$2; shift 2
cd /verif
if [ -n "$(git -C /repo status --porcelain)" ]; then echo "/repo not clean"; exit 2; fi
rm -rf /verif/out/evidence_keep; cp -r /verif/evidence /verif/out/evidence_keep
git -C /repo apply /verif/seeded/$id/patch.diff || { echo "patch does not apply"; exit 2; }
res=""
for p in "$@"; do
  ./check $p --tier $tier > /verif/out/seeded_${id}_${p}_${tier}.log 2>&1; rc=$?
  nv=$(grep -c "^VIOLATION" /verif/out/seeded_${id}_${p}_${tier}.log)
  echo "seeded=$id check=$p tier=$tier exit=$rc violations=$nv"
  grep "^VIOLATION" /verif/out/seeded_${id}_${p}_${tier}.log | head -3 | cut -c1-400
  res="$res{\"check\":\"$p\",\"tier\":\"$tier\",\"exit\":$rc,\"violation_lines\":$nv},"
done
git -C /repo checkout -- .
rm -rf /verif/evidence; mv /verif/out/evidence_keep /verif/evidence
echo "[${res%,}]" > /verif/seeded/$id/result_${tier}.json
